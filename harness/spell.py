"""Selectors as sequences of lexical items, rendered under a chosen *spelling*.

Items:
  ('gap',)            optional whitespace/comments (CSS allows none)
  ('desc',)           descendant combinator: at least one whitespace character
  ('p', text)         punctuation, rendered literally
  ('ident', value)    identifier with that value (escapes are a spelling choice)
  ('val', value)      attribute / :lang / :contains value: identifier, "string" or 'string'
  ('kw', text)        ASCII case-insensitive keyword (pseudo-class names, even/odd/n/of, ltr/rtl, i/s)
  ('num', text)       digits, rendered literally
  ('cname', value)    reference to a custom pseudo-class; value is the name without the colon ('--' + rest).
                      The same renderer (render_name) spells the keys of a `custom=` map.
"""

GAPS = ['', '', ' ', '  ', '\n', '\t', '/**/', ' /* x */', '/*x*/ ', ' /**/ ', '\r\n', '\f', '/* * / */', '\n  ', ' /*a*//*b*/']
DESCS = [' ', ' ', '  ', '\n', ' /**/ ', '/**/ ', ' /**/', '\t\n', ' /*a*/ /*b*/ ', '\n    ', '/* c */\n']


def ident_start_ok(c):
    o = ord(c)
    return o >= 0x80 or c == '_' or ('a' <= c <= 'z') or ('A' <= c <= 'Z')


def ident_cont_ok(c):
    return ident_start_ok(c) or c == '-' or ('0' <= c <= '9')


def is_hex(c):
    return c in '0123456789abcdefABCDEF'


def esc_char(r, c, nxt, level):
    """One code point inside an identifier or string, escaped in a randomly chosen form.  A hex
    escape may drop its terminating whitespace only when the next character of the SAME
    identifier/string is neither a hex digit nor whitespace (at the end of the identifier the
    terminator is kept: following whitespace would otherwise be swallowed as the terminator)."""
    o = ord(c)
    forms = []
    if not is_hex(c) and c not in '\r\n\f' and o != 0:
        forms.append('\\' + c)
    forms.append(f'\\{o:x} ')
    forms.append(f'\\{o:06x} ')
    forms.append(f'\\{o:X}' + r.choice([' ', '\t', '\n', '\r\n', '\f']))
    if nxt is not None and not is_hex(nxt) and nxt not in ' \t\r\n\f':
        forms.append(f'\\{o:x}')
        forms.append(f'\\{o:06x}')
    return r.choice(forms)


def render_ident(r, v, level):
    """level 0: canonical (escape only what must be); 1+: random escapes."""
    out = []
    for i, c in enumerate(v):
        nxt = v[i + 1] if i + 1 < len(v) else None
        first = i == 0 or (i == 1 and v[0] == '-')
        lit_ok = ident_start_ok(c) if first else ident_cont_ok(c)
        if c == '-' and i == 0 and len(v) > 1:
            lit_ok = True
        if lit_ok and (level == 0 or r.random() > 0.25):
            out.append(c)
        else:
            out.append(esc_char(r, c, nxt, level) if level else (f'\\{ord(c):x} ' if (not lit_ok and (is_hex(c) or c in '\r\n\f' or ord(c) < 32)) else '\\' + c))
    return ''.join(out)


def valid_ident(v):
    if v == '' or v == '-':
        return False
    if v[0] == '-':
        return len(v) > 1 and (ident_start_ok(v[1]) or v[1] == '-') and all(ident_cont_ok(c) for c in v[2:])
    return ident_start_ok(v[0]) and all(ident_cont_ok(c) for c in v[1:])


def render_name(r, v, level, stats=None):
    """A custom pseudo-class name, ':' + v with v = '--' + rest, as written in a pattern or as a key of
    the `custom=` map.  The two leading dashes are what makes the token a custom name and stay
    literal; every other code point is an ordinary identifier character and is spelled like one
    (literal, backslash-char, the hex forms of esc_char).  The name is a pseudo-class name, i.e. ASCII
    case-insensitive, so at level 1 every ASCII letter is first put in a random case: capitals and
    small letters both occur literally, backslash-escaped and hex-escaped.  Level 0: v as given,
    escaping only what must be escaped.  `stats` (a dict) counts what was produced."""
    if not v.startswith('--'):
        raise ValueError(v)
    rest = v[2:]
    if level:
        rest = ''.join((c.swapcase() if (c.isascii() and c.isalpha() and r.random() < 0.4) else c) for c in rest)
    out = [':--']
    for i, c in enumerate(rest):
        nxt = rest[i + 1] if i + 1 < len(rest) else None
        lit_ok = ident_cont_ok(c)
        if lit_ok and (level == 0 or r.random() > 0.3):
            out.append(c)
        elif level:
            e = esc_char(r, c, nxt, level)
            if stats is not None and c.isascii() and c.isalpha():
                kind = ('hex' if is_hex(e[1]) and e[1] != c else 'char') + ('_upper' if c.isupper() else '_lower')
                stats[kind] = stats.get(kind, 0) + 1
            out.append(e)
        else:
            out.append(f'\\{ord(c):x} ' if (is_hex(c) or c in '\r\n\f' or ord(c) < 32) else '\\' + c)
    return ''.join(out)


def render_string(r, v, quote, level):
    out = [quote]
    for i, c in enumerate(v):
        nxt = v[i + 1] if i + 1 < len(v) else None
        must = c == quote or c == '\\' or c in '\r\n\f' or ord(c) == 0
        if must:
            if c in '\r\n\f' or ord(c) == 0:
                out.append(f'\\{ord(c):x} ')
            else:
                out.append('\\' + c if level == 0 or r.random() < 0.6 else f'\\{ord(c):x} ')
        elif level and r.random() < 0.2:
            out.append(esc_char(r, c, nxt, level))
        else:
            out.append(c)
        if level and r.random() < 0.05:
            out.append('\\' + r.choice(['\n', '\r\n', '\f']))      # escaped newline: a line continuation
    out.append(quote)
    return ''.join(out)


def render(items, r=None, level=0, stats=None):
    """level 0 = canonical spelling (no optional whitespace, one space for descendant, minimal
    escapes, double quotes, lower case); level 1 = random spelling."""
    out = []
    bare = False      # the previous value was rendered as a bare identifier
    for it in items:
        k = it[0]
        if k == 'flaggap':
            # between an attribute value and its i/s flag: whitespace is mandatory after a bare identifier
            out.append((r.choice(DESCS) if bare or r.random() < 0.5 else r.choice(GAPS)) if level else '')
            continue
        if k == 'gap':
            out.append(r.choice(GAPS) if level else '')
        elif k == 'desc':
            out.append(r.choice(DESCS) if level else ' ')
        elif k == 'p' or k == 'num':
            out.append(it[1])
        elif k == 'ident':
            out.append(render_ident(r, it[1], level))
        elif k == 'cname':
            out.append(render_name(r, it[1], level, stats))
        elif k == 'val':
            v = it[1]
            forms = ['"', "'"]
            if valid_ident(v):
                forms.append('id')
            f = r.choice(forms) if level else '"'
            bare = f == 'id'
            out.append(render_ident(r, v, level) if f == 'id' else render_string(r, v, f, level))
        elif k == 'kw':
            t = it[1]
            if level:
                t = ''.join(c.upper() if r.random() < 0.4 else c for c in t)
                if t.startswith(':') and r.random() < 0.5:
                    # a pseudo-class name is an identifier: its characters may also be written as escapes
                    body = t[1:]
                    t = ':' + ''.join((esc_char(r, c, body[i + 1] if i + 1 < len(body) else None, level)
                                       if (r.random() < 0.25 and not (c == '-' and i == 0)) else c) for i, c in enumerate(body))
            out.append(t)
        else:
            raise ValueError(k)
    return ''.join(out)


# ---------------------------------------------------------------------------------------------
# random item sequences over the whole grammar
# ---------------------------------------------------------------------------------------------
IDENTS = ['a', 'div', 'x-y', '_u', 'B2', 'é', '中', '-w', '--v', 'a.b', '1a', 'a b', '#h', 'a\\b', '\x7f', '\x80', '\x01', 'q:r']
VALS = ['a', 'ab', 'a b', '', 'a"b', "a'b", 'a\\b', 'x\ny', '中', 'de-DE', '*-x', 'a,b', ')', 'A',
        # a quote of the delimiter's own kind at either end of the value (escaped in the spelling)
        '"', "'", 'a"', '"a', "it's'", '""', 'say "hi"', "'x'", '"\\', '\\"']
SIMPLE_PSEUDO = [':root', ':empty', ':first-child', ':last-child', ':only-child', ':first-of-type', ':last-of-type',
                 ':only-of-type', ':checked', ':default', ':disabled', ':enabled', ':indeterminate', ':optional',
                 ':required', ':read-only', ':read-write', ':in-range', ':out-of-range', ':placeholder-shown', ':link',
                 ':any-link', ':scope', ':defined', ':hover', ':focus', ':visited', ':target', ':active', ':paused']


def g_ident(r):
    return ('ident', r.choice(IDENTS))


def g_attr(r):
    items = [('p', '['), ('gap',)]
    x = r.random()
    if x < 0.15:
        items += [g_ident(r), ('p', '|')]
    elif x < 0.22:
        items += [('p', '*|')]
    elif x < 0.27:
        items += [('p', '|')]
    items.append(g_ident(r))
    if r.random() < 0.75:
        items += [('gap',), ('p', r.choice(['=', '~=', '|=', '^=', '$=', '*=', '!='])), ('gap',), ('val', r.choice(VALS))]
        if r.random() < 0.3:
            items += [('flaggap',), ('kw', r.choice(['i', 's']))]
    items += [('gap',), ('p', ']')]
    return items


def g_anb(r):
    form = r.choice(['anb', 'anb', 'b', 'even', 'odd', 'n', 'an'])
    if form in ('even', 'odd'):
        return [('kw', form)]
    if form == 'b':
        return [('p', r.choice(['', '+', '-'])), ('num', str(r.randint(0, 12)))]
    sign = r.choice(['', '+', '-'])
    a = r.choice(['', str(r.randint(0, 9))])
    items = [('p', sign), ('num', a), ('kw', 'n')]
    if form == 'anb' or (form == 'n' and r.random() < 0.5):
        items += [('gap',), ('p', r.choice(['+', '-'])), ('gap',), ('num', str(r.randint(0, 12)))]
    return items


def g_pseudo(r, depth):
    x = r.random()
    if x < 0.3:
        return [('kw', r.choice(SIMPLE_PSEUDO))]
    if x < 0.55 and depth < 3:
        name = r.choice([':not', ':is', ':where', ':matches', ':has'])
        items = [('kw', name), ('p', '('), ('gap',)]
        n = r.randint(1, 2)
        for i in range(n):
            if i:
                items += [('gap',), ('p', ','), ('gap',)]
            if name == ':has' and r.random() < 0.6:
                items += [('p', r.choice(['>', '+', '~'])), ('gap',)]
            items += g_complex(r, depth + 1)
        items += [('gap',), ('p', ')')]
        return items
    if x < 0.72:
        name = r.choice([':nth-child', ':nth-last-child', ':nth-of-type', ':nth-last-of-type'])
        items = [('kw', name), ('p', '('), ('gap',)] + g_anb(r)
        if name.endswith('child') and depth < 2 and r.random() < 0.35:
            items += [('desc',), ('kw', 'of'), ('desc',)] + g_complex(r, depth + 1)
        items += [('gap',), ('p', ')')]
        return items
    if x < 0.82:
        items = [('kw', ':lang'), ('p', '('), ('gap',)]
        for i in range(r.randint(1, 3)):
            if i:
                items += [('gap',), ('p', ','), ('gap',)]
            items.append(('val', r.choice(['en', 'de-DE', '*-x', 'de-*', '', 'EN', 'a b'])))
        return items + [('gap',), ('p', ')')]
    if x < 0.92:
        items = [('kw', r.choice([':-soup-contains', ':-soup-contains-own', ':contains'])), ('p', '('), ('gap',)]
        for i in range(r.randint(1, 3)):
            if i:
                items += [('gap',), ('p', ','), ('gap',)]
            items.append(('val', r.choice(VALS)))
        return items + [('gap',), ('p', ')')]
    return [('kw', ':dir'), ('p', '('), ('gap',), ('kw', r.choice(['ltr', 'rtl'])), ('gap',), ('p', ')')]


def g_compound(r, depth):
    items = []
    x = r.random()
    if x < 0.5:
        y = r.random()
        if y < 0.12:
            items += [g_ident(r), ('p', '|')]
        elif y < 0.18:
            items += [('p', '*|')]
        elif y < 0.22:
            items += [('p', '|')]
        items.append(g_ident(r) if r.random() < 0.85 else ('p', '*'))
    n = r.choice([0, 1, 1, 2, 3]) if items else r.choice([1, 1, 2, 3])
    for _ in range(n):
        z = r.random()
        if z < 0.2:
            items += [('p', '#'), g_ident(r)]
        elif z < 0.4:
            items += [('p', '.'), g_ident(r)]
        elif z < 0.6:
            items += g_attr(r)
        elif z < 0.95:
            items += g_pseudo(r, depth)
        else:
            items += [('p', '&')]
    return items


def g_complex(r, depth=0):
    items = g_compound(r, depth)
    for _ in range(r.choice([0, 0, 1, 1, 2])):
        c = r.choice([' ', ' ', '>', '+', '~'])
        items += [('desc',)] if c == ' ' else [('gap',), ('p', c), ('gap',)]
        items += g_compound(r, depth)
    return items


def g_selector(r):
    items = [('gap',)] + g_complex(r)
    for _ in range(r.choice([0, 0, 0, 1, 2])):
        items += [('gap',), ('p', ','), ('gap',)] + g_complex(r)
    return items + [('gap',)]


# ---------------------------------------------------------------------------------------------
# custom pseudo-classes: a table name -> definition (item sequences) and a pattern that refers to it
# ---------------------------------------------------------------------------------------------
# names without the colon; no two of them are equal after ASCII lower-casing
CUSTOM_NAMES = ['--a', '--Ab', '--x-y', '--B2', '--def', '--é', '--中', '--a.b', '--c d', '---', '--_u', '--1a', '--q:r',
                '--G', '--Z9z', '--', '--\x7f', '--\x80', '--FACE', '--kelvin', '--É', '--h\\i', '--Dd-E', '--mIxEd']
DOC_TAGS = ['div', 'p', 'span', 'a', 'li', 'ul', 'b']


def g_doc_def(r):
    """A short definition that is likely to select something in the generated probe documents."""
    def comp():
        x = r.random()
        if x < 0.45:
            return [('ident', r.choice(DOC_TAGS))]
        if x < 0.6:
            return [('p', '.'), ('ident', r.choice(['c1', 'c2', 'c3']))]
        if x < 0.7:
            return [('p', '#'), ('ident', r.choice(['i1', 'i2', 'i3', 'x']))]
        if x < 0.8:
            return [('p', '*')]
        if x < 0.9:
            return [('kw', r.choice([':first-child', ':last-child', ':only-child', ':empty', ':root']))]
        return [('p', '['), ('gap',), ('ident', r.choice(['title', 'data-x', 'href', 'rel'])), ('gap',), ('p', ']')]
    items = [('gap',)] + comp()
    for _ in range(r.choice([0, 0, 1])):
        c = r.choice([' ', '>', '+', '~'])
        items += ([('desc',)] if c == ' ' else [('gap',), ('p', c), ('gap',)]) + comp()
    if r.random() < 0.25:
        items += [('gap',), ('p', ','), ('gap',)] + comp()
    return items + [('gap',)]


def add_refs(r, items, names, n=1):
    """Insert n references to custom names at places where a pseudo-class may stand: in front of
    another pseudo-class (at any nesting depth) or at the end of the last compound selector."""
    items = list(items)
    for _ in range(n):
        slots = [i for i, it in enumerate(items) if it[0] == 'kw' and it[1].startswith(':')]
        slots.append(len(items) - 1 if items and items[-1] == ('gap',) else len(items))
        items.insert(r.choice(slots), ('cname', r.choice(names)))
    return items


def g_custom_case(r, names=None):
    """(table, pattern): table = [(name, definition items)], a definition may refer to names defined
    before it (chains, no cycles); the pattern refers to at least one name of the table."""
    pool = list(names or CUSTOM_NAMES)
    r.shuffle(pool)
    chosen = pool[:r.choice([1, 1, 2, 3])]
    table = []
    for i, nm in enumerate(chosen):
        d = g_doc_def(r) if r.random() < 0.6 else g_selector(r)
        if i and r.random() < 0.6:
            d = add_refs(r, d, chosen[:i], 1)
        table.append((nm, d))
    x = r.random()
    if x < 0.35:
        pat = [('gap',)] + ([('ident', r.choice(DOC_TAGS))] if r.random() < 0.5 else []) + [('cname', chosen[-1])] + [('gap',)]
    elif x < 0.6:
        pat = [('gap',), ('kw', r.choice([':not', ':is', ':where', ':has'])), ('p', '('), ('gap',), ('cname', chosen[-1]),
               ('gap',), ('p', ')'), ('gap',)]
    else:
        pat = add_refs(r, g_selector(r) if r.random() < 0.5 else g_doc_def(r), chosen, r.choice([1, 1, 2]))
    return table, pat
