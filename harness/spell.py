"""Selectors as sequences of lexical items, rendered under a chosen *spelling*.

Items:
  ('gap',)            optional whitespace/comments (CSS allows none)
  ('desc',)           descendant combinator: at least one whitespace character
  ('p', text)         punctuation, rendered literally
  ('ident', value)    identifier with that value (escapes are a spelling choice)
  ('val', value)      attribute / :lang / :contains value: identifier, "string" or 'string'
  ('kw', text)        ASCII case-insensitive keyword (pseudo-class names, even/odd/n/of, ltr/rtl, i/s)
  ('num', text)       digits, rendered literally
"""

GAPS = ['', '', ' ', '  ', '\n', '\t', '/**/', ' /* x */', '/*x*/ ', ' /**/ ', '\r\n', '\f', '/* * / */', '\n  ', ' /*a*//*b*/']
DESCS = [' ', ' ', '  ', '\n', ' /**/ ', '/**/ ', ' /**/', '\t\n', ' /*a*/ /*b*/ ', '\n    ', '/* c */\n']


def ident_start_ok(c):
    o = ord(c)
    return o >= 0x80 or c == '_' or ('a' <= c <= 'z') or ('A' <= c <= 'Z')


def ident_cont_ok(c):
    return ident_start_ok(c) or c == '-' or ('0' <= c <= '9')


def is_hex(c):
    return c in '0123456789abcdefABCDEF'


def esc_char(r, c, nxt, level):
    """One code point inside an identifier or string, escaped in a randomly chosen form.  A hex
    escape may drop its terminating whitespace only when the next character of the SAME
    identifier/string is neither a hex digit nor whitespace (at the end of the identifier the
    terminator is kept: following whitespace would otherwise be swallowed as the terminator)."""
    o = ord(c)
    forms = []
    if not is_hex(c) and c not in '\r\n\f' and o != 0:
        forms.append('\\' + c)
    forms.append(f'\\{o:x} ')
    forms.append(f'\\{o:06x} ')
    forms.append(f'\\{o:X}' + r.choice([' ', '\t', '\n', '\r\n', '\f']))
    if nxt is not None and not is_hex(nxt) and nxt not in ' \t\r\n\f':
        forms.append(f'\\{o:x}')
        forms.append(f'\\{o:06x}')
    return r.choice(forms)


def render_ident(r, v, level):
    """level 0: canonical (escape only what must be); 1+: random escapes."""
    out = []
    for i, c in enumerate(v):
        nxt = v[i + 1] if i + 1 < len(v) else None
        first = i == 0 or (i == 1 and v[0] == '-')
        lit_ok = ident_start_ok(c) if first else ident_cont_ok(c)
        if c == '-' and i == 0 and len(v) > 1:
            lit_ok = True
        if lit_ok and (level == 0 or r.random() > 0.25):
            out.append(c)
        else:
            out.append(esc_char(r, c, nxt, level) if level else (f'\\{ord(c):x} ' if (not lit_ok and (is_hex(c) or c in '\r\n\f' or ord(c) < 32)) else '\\' + c))
    return ''.join(out)


def valid_ident(v):
    if v == '' or v == '-':
        return False
    if v[0] == '-':
        return len(v) > 1 and (ident_start_ok(v[1]) or v[1] == '-') and all(ident_cont_ok(c) for c in v[2:])
    return ident_start_ok(v[0]) and all(ident_cont_ok(c) for c in v[1:])


def render_string(r, v, quote, level):
    out = [quote]
    for i, c in enumerate(v):
        nxt = v[i + 1] if i + 1 < len(v) else None
        must = c == quote or c == '\\' or c in '\r\n\f' or ord(c) == 0
        if must:
            if c in '\r\n\f' or ord(c) == 0:
                out.append(f'\\{ord(c):x} ')
            else:
                out.append('\\' + c if level == 0 or r.random() < 0.6 else f'\\{ord(c):x} ')
        elif level and r.random() < 0.2:
            out.append(esc_char(r, c, nxt, level))
        else:
            out.append(c)
        if level and r.random() < 0.05:
            out.append('\\' + r.choice(['\n', '\r\n', '\f']))      # escaped newline: a line continuation
    out.append(quote)
    return ''.join(out)


def render(items, r=None, level=0):
    """level 0 = canonical spelling (no optional whitespace, one space for descendant, minimal
    escapes, double quotes, lower case); level 1 = random spelling."""
    out = []
    bare = False      # the previous value was rendered as a bare identifier
    for it in items:
        k = it[0]
        if k == 'flaggap':
            # between an attribute value and its i/s flag: whitespace is mandatory after a bare identifier
            out.append((r.choice(DESCS) if bare or r.random() < 0.5 else r.choice(GAPS)) if level else '')
            continue
        if k == 'gap':
            out.append(r.choice(GAPS) if level else '')
        elif k == 'desc':
            out.append(r.choice(DESCS) if level else ' ')
        elif k == 'p' or k == 'num':
            out.append(it[1])
        elif k == 'ident':
            out.append(render_ident(r, it[1], level))
        elif k == 'val':
            v = it[1]
            forms = ['"', "'"]
            if valid_ident(v):
                forms.append('id')
            f = r.choice(forms) if level else '"'
            bare = f == 'id'
            out.append(render_ident(r, v, level) if f == 'id' else render_string(r, v, f, level))
        elif k == 'kw':
            t = it[1]
            if level:
                t = ''.join(c.upper() if r.random() < 0.4 else c for c in t)
                if t.startswith(':') and r.random() < 0.5:
                    # a pseudo-class name is an identifier: its characters may also be written as escapes
                    body = t[1:]
                    t = ':' + ''.join((esc_char(r, c, body[i + 1] if i + 1 < len(body) else None, level)
                                       if (r.random() < 0.25 and not (c == '-' and i == 0)) else c) for i, c in enumerate(body))
            out.append(t)
        else:
            raise ValueError(k)
    return ''.join(out)


# ---------------------------------------------------------------------------------------------
# random item sequences over the whole grammar
# ---------------------------------------------------------------------------------------------
IDENTS = ['a', 'div', 'x-y', '_u', 'B2', 'é', '中', '-w', '--v', 'a.b', '1a', 'a b', '#h', 'a\\b', '\x7f', '\x80', '\x01', 'q:r']
VALS = ['a', 'ab', 'a b', '', 'a"b', "a'b", 'a\\b', 'x\ny', '中', 'de-DE', '*-x', 'a,b', ')', 'A',
        # a quote of the delimiter's own kind at either end of the value (escaped in the spelling)
        '"', "'", 'a"', '"a', "it's'", '""', 'say "hi"', "'x'", '"\\', '\\"']
SIMPLE_PSEUDO = [':root', ':empty', ':first-child', ':last-child', ':only-child', ':first-of-type', ':last-of-type',
                 ':only-of-type', ':checked', ':default', ':disabled', ':enabled', ':indeterminate', ':optional',
                 ':required', ':read-only', ':read-write', ':in-range', ':out-of-range', ':placeholder-shown', ':link',
                 ':any-link', ':scope', ':defined', ':hover', ':focus', ':visited', ':target', ':active', ':paused']


def g_ident(r):
    return ('ident', r.choice(IDENTS))


def g_attr(r):
    items = [('p', '['), ('gap',)]
    x = r.random()
    if x < 0.15:
        items += [g_ident(r), ('p', '|')]
    elif x < 0.22:
        items += [('p', '*|')]
    elif x < 0.27:
        items += [('p', '|')]
    items.append(g_ident(r))
    if r.random() < 0.75:
        items += [('gap',), ('p', r.choice(['=', '~=', '|=', '^=', '$=', '*=', '!='])), ('gap',), ('val', r.choice(VALS))]
        if r.random() < 0.3:
            items += [('flaggap',), ('kw', r.choice(['i', 's']))]
    items += [('gap',), ('p', ']')]
    return items


def g_anb(r):
    form = r.choice(['anb', 'anb', 'b', 'even', 'odd', 'n', 'an'])
    if form in ('even', 'odd'):
        return [('kw', form)]
    if form == 'b':
        return [('p', r.choice(['', '+', '-'])), ('num', str(r.randint(0, 12)))]
    sign = r.choice(['', '+', '-'])
    a = r.choice(['', str(r.randint(0, 9))])
    items = [('p', sign), ('num', a), ('kw', 'n')]
    if form == 'anb' or (form == 'n' and r.random() < 0.5):
        items += [('gap',), ('p', r.choice(['+', '-'])), ('gap',), ('num', str(r.randint(0, 12)))]
    return items


def g_pseudo(r, depth):
    x = r.random()
    if x < 0.3:
        return [('kw', r.choice(SIMPLE_PSEUDO))]
    if x < 0.55 and depth < 3:
        name = r.choice([':not', ':is', ':where', ':matches', ':has'])
        items = [('kw', name), ('p', '('), ('gap',)]
        n = r.randint(1, 2)
        for i in range(n):
            if i:
                items += [('gap',), ('p', ','), ('gap',)]
            if name == ':has' and r.random() < 0.6:
                items += [('p', r.choice(['>', '+', '~'])), ('gap',)]
            items += g_complex(r, depth + 1)
        items += [('gap',), ('p', ')')]
        return items
    if x < 0.72:
        name = r.choice([':nth-child', ':nth-last-child', ':nth-of-type', ':nth-last-of-type'])
        items = [('kw', name), ('p', '('), ('gap',)] + g_anb(r)
        if name.endswith('child') and depth < 2 and r.random() < 0.35:
            items += [('desc',), ('kw', 'of'), ('desc',)] + g_complex(r, depth + 1)
        items += [('gap',), ('p', ')')]
        return items
    if x < 0.82:
        items = [('kw', ':lang'), ('p', '('), ('gap',)]
        for i in range(r.randint(1, 3)):
            if i:
                items += [('gap',), ('p', ','), ('gap',)]
            items.append(('val', r.choice(['en', 'de-DE', '*-x', 'de-*', '', 'EN', 'a b'])))
        return items + [('gap',), ('p', ')')]
    if x < 0.92:
        items = [('kw', r.choice([':-soup-contains', ':-soup-contains-own', ':contains'])), ('p', '('), ('gap',)]
        for i in range(r.randint(1, 3)):
            if i:
                items += [('gap',), ('p', ','), ('gap',)]
            items.append(('val', r.choice(VALS)))
        return items + [('gap',), ('p', ')')]
    return [('kw', ':dir'), ('p', '('), ('gap',), ('kw', r.choice(['ltr', 'rtl'])), ('gap',), ('p', ')')]


def g_compound(r, depth):
    items = []
    x = r.random()
    if x < 0.5:
        y = r.random()
        if y < 0.12:
            items += [g_ident(r), ('p', '|')]
        elif y < 0.18:
            items += [('p', '*|')]
        elif y < 0.22:
            items += [('p', '|')]
        items.append(g_ident(r) if r.random() < 0.85 else ('p', '*'))
    n = r.choice([0, 1, 1, 2, 3]) if items else r.choice([1, 1, 2, 3])
    for _ in range(n):
        z = r.random()
        if z < 0.2:
            items += [('p', '#'), g_ident(r)]
        elif z < 0.4:
            items += [('p', '.'), g_ident(r)]
        elif z < 0.6:
            items += g_attr(r)
        elif z < 0.95:
            items += g_pseudo(r, depth)
        else:
            items += [('p', '&')]
    return items


def g_complex(r, depth=0):
    items = g_compound(r, depth)
    for _ in range(r.choice([0, 0, 1, 1, 2])):
        c = r.choice([' ', ' ', '>', '+', '~'])
        items += [('desc',)] if c == ' ' else [('gap',), ('p', c), ('gap',)]
        items += g_compound(r, depth)
    return items


def g_selector(r):
    items = [('gap',)] + g_complex(r)
    for _ in range(r.choice([0, 0, 0, 1, 2])):
        items += [('gap',), ('p', ','), ('gap',)] + g_complex(r)
    return items + [('gap',)]
