"""Shared machinery of every check: regenerate + build + audit the Lean side, collect
correspondence results, decide the verdict, write evidence and replays."""
import fcntl
import json
import os
import re
import subprocess
import sys
import time

HERE = os.path.dirname(os.path.abspath(__file__))
ROOT = os.path.abspath(os.path.join(HERE, '..'))
LEAN = os.path.join(ROOT, 'lean')
REPO = os.environ.get('SOUPVERIF_REPO', '/repo')      # default: the repository itself; an override is for scratch copies only

STD_AXIOMS = {'propext', 'Classical.choice', 'Quot.sound'}
FORBIDDEN = re.compile(r'\b(sorry|admit|native_decide|bv_decide|implemented_by)\b|^\s*axiom\s|\bunsafe\s|maxHeartbeats\s+0\b', re.M)

TRUSTED_BASE = [
    'Lean 4.33.0 kernel (thorough tier re-checks the compiled modules with leanchecker)',
    'axioms allowed in property theorems: propext, Classical.choice, Quot.sound (audited by #print axioms on every run); no native_decide / bv_decide / sorry / user axioms',
    'translators gen/*.py (re._parser reflects what re.compile compiled; ast-based extraction)',
    'correspondence harness: agreement PY = Model is established on the explored cases only',
    'CPython, bs4 and its parsers, unicodedata, float rounding: parameters of the model, not verified',
]


class Timeout(Exception):
    pass


def sh(cmd, cwd=None, timeout=3600, env=None):
    p = subprocess.run(cmd, cwd=cwd, stdout=subprocess.PIPE, stderr=subprocess.STDOUT, timeout=timeout, env=env)
    return p.returncode, p.stdout.decode(errors='replace')


def strip_comments(text):
    """Remove Lean comments (nested block comments and line comments)."""
    out = []
    i = 0
    depth = 0
    n = len(text)
    while i < n:
        if text.startswith('/-', i):
            depth += 1
            i += 2
        elif depth and text.startswith('-/', i):
            depth -= 1
            i += 2
        elif depth:
            i += 1
        elif text.startswith('--', i):
            while i < n and text[i] != '\n':
                i += 1
        else:
            out.append(text[i])
            i += 1
    return ''.join(out)


class LineCov:
    """Which lines of /repo/soupsieve/*.py (inside functions) the check executed IN THIS PROCESS — a measure of what the
    generated inputs reached in the real code (sys.monitoring, each location reported once, so the cost is negligible).
    Library code run in subprocesses (import-order runs, cross-process pickling) is not counted."""

    def __init__(self, repo):
        self.root = os.path.realpath(os.path.join(repo, 'soupsieve')) + os.sep
        self.hit = {}
        self.ok = False
        mon = getattr(sys, 'monitoring', None)
        if mon is None:
            return
        try:
            mon.use_tool_id(mon.COVERAGE_ID, 'soupverif')
        except ValueError:
            return
        root, hit = self.root, self.hit

        def on_line(code, line):
            fn = code.co_filename
            if fn.startswith(root):
                hit.setdefault(fn, set()).add(line)
            return mon.DISABLE
        mon.register_callback(mon.COVERAGE_ID, mon.events.LINE, on_line)
        mon.set_events(mon.COVERAGE_ID, mon.events.LINE)
        self.ok = True

    @staticmethod
    def _function_lines(path):
        lines = set()
        try:
            top = compile(open(path, encoding='utf-8').read(), path, 'exec')
        except Exception:
            return lines
        stack = [top]
        while stack:
            co = stack.pop()
            for c in co.co_consts:
                if hasattr(c, 'co_code'):
                    stack.append(c)
            if co.co_flags & 0x1:          # CO_OPTIMIZED: a function body (not a module or class body)
                first = co.co_firstlineno
                lines.update(l for _, _, l in co.co_lines() if l is not None and l != first)
        return lines

    @staticmethod
    def _ranges(nums):
        out, nums = [], sorted(nums)
        i = 0
        while i < len(nums):
            j = i
            while j + 1 < len(nums) and nums[j + 1] <= nums[j] + 1:
                j += 1
            out.append(str(nums[i]) if i == j else f'{nums[i]}-{nums[j]}')
            i = j + 1
        return ','.join(out)

    def report(self):
        if not self.ok:
            return {'available': False}
        rep = {}
        import glob
        for path in sorted(glob.glob(self.root + '*.py')):
            ex = self._function_lines(path)
            if not ex:
                continue
            got = self.hit.get(path, set()) & ex
            rep[os.path.basename(path)] = {'function_lines': len(ex), 'executed': len(got),
                                           'executed_ranges': self._ranges(got),
                                           'not_executed': self._ranges(ex - got)[:1500]}
        return rep


def run_limited(fn, limit_s):
    """Run fn() in a forked child and return its wall time in seconds, or None when it has not finished within limit_s (the child
    is killed).  For measurements that may take exponentially long inside C code (the regex engine), where no signal handler
    can interrupt the call."""
    import select
    import signal
    import struct
    r, w = os.pipe()
    pid = os.fork()
    if pid == 0:
        try:
            os.close(r)
            t0 = time.perf_counter()
            try:
                fn()
            except BaseException:       # noqa: BLE001  (the outcome is not the point, the time is)
                pass
            os.write(w, struct.pack('d', time.perf_counter() - t0))
        finally:
            os._exit(0)
    os.close(w)
    try:
        ready, _, _ = select.select([r], [], [], limit_s)
        if ready:
            data = os.read(r, 8)
            os.waitpid(pid, 0)
            return struct.unpack('d', data)[0] if len(data) == 8 else None
        os.kill(pid, signal.SIGKILL)
        os.waitpid(pid, 0)
        return None
    finally:
        os.close(r)


class LibraryKeepsHanging(BaseException):
    """Raised instead of LibraryDidNotTerminate from the fifth non-returning call of one run on: not an `Exception`, so no
    `except Exception` of a sweep can absorb it — the run ends there (run_check records it), instead of paying the limit for
    each of thousands of inputs that meet the same non-terminating code."""


class LibraryDidNotTerminate(Exception):
    """Raised (by the watchdog) inside a call into the library that has not returned within the limit: a hang of the real code
    on a concrete input becomes an exception the sweep records like any other wrong outcome, instead of hanging the check."""


def describe_call(name, args, kwargs):
    """A replayable description of a call into the library (for a call that did not return)."""
    import bs4
    d = {'function': name, 'args': [], 'kwargs': {}}

    def one(x):
        if isinstance(x, bs4.Tag):
            top = x
            while top.parent is not None:
                top = top.parent
            path, n = [], x
            while n.parent is not None:
                path.append(n.parent.contents.index(n) if any(c is n for c in n.parent.contents) else -1)
                n = n.parent
            return {'tag': True, 'is_document': isinstance(top, bs4.BeautifulSoup), 'is_xml': bool(getattr(top, 'is_xml', False)),
                    'markup': top.decode()[:200000], 'path': path[::-1]}
        if hasattr(x, 'pattern') and hasattr(x, 'selectors'):
            return {'compiled': True, 'pattern': x.pattern, 'namespaces': dict(x.namespaces or {}), 'custom': dict(x.custom or {}),
                    'flags': int(x.flags)}
        if isinstance(x, (str, int, float, bool, type(None))):
            return x
        if isinstance(x, dict):
            return {str(k): one(v) for k, v in x.items()}
        return repr(x)[:500]
    try:
        d['args'] = [one(x) for x in args]
        d['kwargs'] = {k: one(v) for k, v in kwargs.items()}
    except Exception as e:      # noqa: BLE001
        d['describe_error'] = repr(e)
    return d


def replay_call(call, limit_s=20, fail_on_exception=None):
    """Re-run a described call under the watchdog; True when it returns (or raises an ordinary exception) within the limit.
    With `fail_on_exception` = an exception type name, raising an exception of that name counts as failing too."""
    import bs4
    import soupsieve as sv

    def back(x):
        if isinstance(x, dict) and x.get('tag'):
            soup = bs4.BeautifulSoup(x['markup'], 'xml' if x.get('is_xml') else 'html.parser')
            n = soup
            for i in x.get('path', []):
                if i < 0 or i >= len(n.contents):
                    break
                n = n.contents[i]
            return n if isinstance(n, bs4.Tag) else soup
        if isinstance(x, dict) and x.get('compiled'):
            return sv.compile(x['pattern'], x['namespaces'] or None, x['flags'], custom=x['custom'] or None)
        return x
    fn = getattr(sv, call['function'], None)
    args = [back(x) for x in call.get('args', [])]
    if args and hasattr(args[0], 'selectors') and hasattr(args[0], call['function']):
        fn = getattr(args[0], call['function'])
        args = args[1:]
    try:
        r = fn(*args, **{k: back(v) for k, v in call.get('kwargs', {}).items()})
        if hasattr(r, '__next__'):
            list(r)
        return True
    except LibraryDidNotTerminate:
        return False
    except Exception as e:       # noqa: BLE001
        return not (fail_on_exception and type(e).__name__ == fail_on_exception)


def install_watchdog(limit_s):
    """Wrap the public entry points of soupsieve (module functions and SoupSieve methods) with a SIGALRM watchdog.  Main thread
    only (signals are delivered there); nested calls share the outer timer; the previous SIGALRM handler is restored after
    every call, so checks that use alarms of their own are not disturbed."""
    import functools
    import signal
    import threading
    import soupsieve as sv
    from soupsieve import css_match as cm
    state = {'depth': 0, 'hangs': 0, 'limit': limit_s}

    def handler(signum, frame):
        # once one call has failed to return the run is a violation anyway: later calls get a shorter limit, so that a sweep
        # that meets the same non-terminating code on many inputs still finishes (the first one always gets the full limit)
        if state.get('firing'):
            # the timer repeats every second until the call is left (an `except` inside the call may have absorbed the first raise)
            raise (LibraryKeepsHanging if state['hangs'] >= 5 else LibraryDidNotTerminate)(state['firing'])
        state['hangs'] += 1
        was = state['limit']
        state['limit'] = max(5.0, limit_s / 12.0)
        state['firing'] = f'the call has not returned after {was:g} s'
        raise (LibraryKeepsHanging if state['hangs'] >= 5 else LibraryDidNotTerminate)(state['firing'])

    def guard(fn):
        @functools.wraps(fn)
        def w(*a, **k):
            if state['depth'] or threading.current_thread() is not threading.main_thread():
                return fn(*a, **k)
            state['depth'] += 1
            old = signal.signal(signal.SIGALRM, handler)
            state['firing'] = None
            signal.setitimer(signal.ITIMER_REAL, state['limit'], 1.0)
            try:
                r = fn(*a, **k)
                if hasattr(r, '__next__') and not isinstance(r, (list, tuple)):
                    r = list(r)          # iselect: run the generator under the timer
                    return iter(r)
                return r
            except (LibraryDidNotTerminate, LibraryKeepsHanging) as e:
                signal.setitimer(signal.ITIMER_REAL, 0)
                if not hasattr(e, 'call'):
                    e.call = describe_call(fn.__name__, a, k)
                raise
            except Exception as e:      # noqa: BLE001
                # remember which call raised (described only if the exception escapes the whole sweep, see run_check)
                if not hasattr(e, '_soupverif_call'):
                    try:
                        e._soupverif_call = (fn.__name__, a, k)
                    except Exception:   # noqa: BLE001
                        pass
                raise
            finally:
                signal.setitimer(signal.ITIMER_REAL, 0)
                signal.signal(signal.SIGALRM, old)
                state['depth'] -= 1
        w._soupverif_guarded = True
        return w
    for name in ('select', 'select_one', 'iselect', 'match', 'filter', 'closest', 'compile', 'escape'):
        f = getattr(sv, name)
        if not getattr(f, '_soupverif_guarded', False):
            setattr(sv, name, guard(f))
    for name in ('select', 'select_one', 'iselect', 'match', 'filter', 'closest'):
        f = getattr(cm.SoupSieve, name)
        if not getattr(f, '_soupverif_guarded', False):
            setattr(cm.SoupSieve, name, guard(f))


_LINECOV = None
ESCALATION = None      # set by run_check when the source differs from the blessed one (change-directed search)


def source_digest():
    """sha256 per file of REPO/soupsieve/*.py (what the blessed digest in gen/blessed_source.json is compared with)."""
    import glob
    import hashlib
    out = {}
    for f in sorted(glob.glob(os.path.join(REPO, 'soupsieve', '*.py'))):
        out[os.path.basename(f)] = hashlib.sha256(open(f, 'rb').read()).hexdigest()
    return out


def changed_source_files():
    """Files of the library that differ from the tree the checks were last validated on (None: no blessed digest)."""
    path = os.path.join(ROOT, 'gen', 'blessed_source.json')
    if not os.path.exists(path):
        return None
    blessed = json.load(open(path)).get('files', {})
    now = source_digest()
    return sorted(k for k in set(blessed) | set(now) if blessed.get(k) != now.get(k))


class Check:
    def __init__(self, pid, tier, seed, keep_replays=False):
        global _LINECOV
        if _LINECOV is None:
            _LINECOV = LineCov(REPO)
        self.linecov = _LINECOV
        self.pid = pid
        self.tier = tier
        self.seed = seed
        self.t0 = time.time()
        self.violations = []          # (kind, replay_path, concrete)
        self.known = []
        self.obligations = []         # names of theorems / generated facts
        self.discharged = []
        self.notes = {}
        self.coverage = {}
        self.samples = []
        self.assumptions = []
        self.build_log = ''
        os.makedirs(os.path.join(ROOT, 'evidence'), exist_ok=True)
        os.makedirs(os.path.join(ROOT, 'replays'), exist_ok=True)
        import glob
        # a fresh run starts from an empty replay set; `--replay <file>` must not delete the file it is about to read
        for old in ([] if keep_replays else glob.glob(os.path.join(ROOT, 'replays', f'{pid}_*.json'))):
            try:
                os.remove(old)
            except OSError:
                pass
        kf = os.path.join(ROOT, 'known_findings.json')
        self.known_findings = json.load(open(kf)) if os.path.exists(kf) else {'findings': [], 'fixed': []}

    # ------------------------------------------------------------------ Lean side
    def regenerate(self):
        """Run every translator against /repo's working tree."""
        rc, out = sh(['/venv/bin/python', os.path.join(ROOT, 'gen', 'gen_all.py')], cwd=ROOT, timeout=600)
        self.notes['regenerate'] = out.strip()[-2000:]
        return rc == 0, out

    def build(self, targets):
        """lake build under a file lock (parallel checks share one .lake)."""
        lock = open(os.path.join(LEAN, '.build.lock'), 'w')
        fcntl.flock(lock, fcntl.LOCK_EX)
        try:
            rc, out = sh(['lake', 'build'] + targets, cwd=LEAN, timeout=3000)
        finally:
            fcntl.flock(lock, fcntl.LOCK_UN)
        self.build_log = out
        return rc == 0, out

    def audit(self, audit_module, sources):
        """`#print axioms` of every theorem registered in Audit/<pid>.lean + forbidden-token grep.
        Returns (ok, theorems: {name: [axioms]}, problems)."""
        problems = []
        for src in sources:
            path = os.path.join(LEAN, src)
            if not os.path.exists(path):
                problems.append(f'missing source {src}')
                continue
            code = strip_comments(open(path).read())
            m = FORBIDDEN.search(code)
            if m:
                problems.append(f'forbidden token {m.group(0).strip()!r} in {src}')
        path = os.path.join(LEAN, audit_module.replace('.', '/') + '.lean')
        rc, out = sh(['lake', 'env', 'lean', path], cwd=LEAN, timeout=3000)
        theorems = {}
        for m in re.finditer(r"^'(.+)' depends on axioms: \[([^\]]*)\]", out, re.M):
            theorems[m.group(1)] = [a.strip() for a in m.group(2).split(',') if a.strip()]
        for m in re.finditer(r"^'(.+)' does not depend on any axioms", out, re.M):
            theorems[m.group(1)] = []
        if rc != 0:
            problems.append('audit module failed to elaborate: ' + out[-800:])
        wanted = re.findall(r'#print axioms\s+(\S+)', open(path).read()) if os.path.exists(path) else []
        for w in wanted:
            if not any(k == w or k.endswith('.' + w) or w.endswith('.' + k) for k in theorems):
                problems.append(f'no axiom report for {w}')
        for name, ax in theorems.items():
            bad = [a for a in ax if a not in STD_AXIOMS]
            if bad:
                problems.append(f'{name} depends on non-standard axioms {bad}')
        return (not problems), theorems, problems

    # ------------------------------------------------------------------ verdicts
    def replay_path(self, tag):
        return os.path.join(ROOT, 'replays', f'{self.pid}_{tag}_{self.seed}.json')

    def is_known(self, key):
        for f in self.known_findings.get('findings', []):
            if f['property'] == self.pid and f['key'] == key:
                return f
        return None

    def known_finding(self, key, text):
        if not any(k == key for k, _ in self.known):
            self.known.append((key, text))
            print(f'KNOWN-FINDING: property={self.pid} {text}')

    def violation(self, tag, replay, concrete=True):
        """Record a violation; `replay` is a JSON-able dict holding the failing input (or the name
        of the theorem / correspondence that no longer checks)."""
        path = self.replay_path(tag)
        replay = dict(replay)
        replay.update({'property': self.pid, 'tier': self.tier, 'seed': self.seed, 'concrete_failing_input': concrete})
        with open(path, 'w') as f:
            json.dump(replay, f, indent=1, default=repr)
        self.violations.append((tag, path, concrete))
        line = f'VIOLATION property={self.pid} replay={path}'
        if not concrete:
            line += ' no-failing-input-found'
        print(line)
        sys.stdout.flush()

    # ------------------------------------------------------------------ evidence
    def finish(self, level='proof', checker_cmd=None, rule='', evaluations=0, distinct=0, extra=None):
        cov = {
            'obligations': len(self.obligations),
            'discharged': len(self.discharged),
            'checker_cmd': checker_cmd or self.coverage.get('checker_cmd') or f'cd lean && lake build SoupVerif.Properties.{self.pid} SoupVerif.Audit.{self.pid}',
            'trusted_base': TRUSTED_BASE,
            'evaluations': int(evaluations),
            'distinct_nontrivial': int(distinct),
            'rule': rule,
            'samples': self.samples[:12] or ['(none)'],
            'theorems': self.discharged,
            'undischarged': [o for o in self.obligations if o not in self.discharged],
            'known_findings_reported': [k for k, _ in self.known],
        }
        cov.update(self.coverage)
        if extra:
            cov.update(extra)
        cov['source_lines_executed_in_process'] = self.linecov.report()
        if ESCALATION:
            self.notes['change_directed_search'] = ESCALATION
        if not cov.get('obligations') or not cov.get('discharged'):
            cov['theorems_registered'] = cov.pop('obligations', 0)
            cov['theorems_discharged'] = cov.pop('discharged', 0)
        ev = {
            'property_id': self.pid, 'tier': self.tier, 'seed': int(self.seed), 'level': level,
            'coverage': cov, 'assumptions': self.assumptions, 'wall_s': round(time.time() - self.t0, 2),
            'violations': len(self.violations), 'notes': self.notes,
        }
        with open(os.path.join(ROOT, 'evidence', f'{self.pid}.json'), 'w') as f:
            json.dump(ev, f, indent=1, default=repr)
        return 1 if self.violations else 0


MODULES = {
    'C01': ['C01', 'C01Attr', 'C01Sat', 'C01Ns', 'C01Has', 'C01Parse'],
    'C02': ['C02', 'C02Site', 'C02Parse'],
    'C03': ['C03', 'C03Wrappers'],
    'C05': ['C05', 'C05Parse'],
    'C06': ['C06', 'C06Gen', 'C06GenDispatch', 'C06GenPseudo'],
    'C07': ['C07', 'C07Parse'],
    'C09': ['C09', 'C09Rx', 'C09Compile', 'C09Compile2'],
    'C10': ['C10', 'C10Rx', 'C10Parse', 'C10Gen'],
    'C11': ['C11', 'C11Parse', 'C11Gen'],
    'C12': ['C12', 'C12Parse'],
    'C13': ['C13', 'C13Rx', 'C13Parse', 'C13Gen'],
    'C17': ['C17', 'C17Dir', 'C17Parse', 'C17GenRange'],
    'C18': ['C18', 'C18Range', 'C18Rx', 'C18Parse', 'C18Gen', 'C18GenRange'],
    'C19': ['C19', 'C19Rx', 'C19Parse'],
    'C20': ['C20', 'C20Rx', 'C20Parse'],
}
MODULES['C01'] += ['C01GenMatch', 'C01GenTag']; MODULES['C05'] += ['C05GenFrame']   # match_selectors and its leaf tests translated from the source (gen/gen_py_matchsel.py)
AUDITS = {
    'C01': ['C01', 'C01Attr', 'C01Sat', 'C01Has', 'C01Parse'],
    'C02': ['C02', 'C02Site', 'C02Parse'],
    'C03': ['C03', 'C03Wrappers'],
    'C05': ['C05', 'C05Parse'],
    'C06': ['C06', 'C06Gen', 'C06GenDispatch'],
    'C07': ['C07', 'C07Parse'],
    'C09': ['C09', 'C09Rx', 'C09Compile', 'C09Compile2'],
    'C10': ['C10', 'C10Rx', 'C10Parse', 'C10Gen'],
    'C11': ['C11', 'C11Parse', 'C11Gen'],
    'C12': ['C12', 'C12Parse'],
    'C13': ['C13', 'C13Rx', 'C13Parse', 'C13Gen'],
    'C17': ['C17', 'C17Dir', 'C17Parse', 'C17GenRange'],
    'C18': ['C18', 'C18Range', 'C18Rx', 'C18Parse', 'C18Gen', 'C18GenRange'],
    'C19': ['C19', 'C19Rx', 'C19Parse'],
    'C20': ['C20', 'C20Rx', 'C20Parse'],
}
AUDITS['C01'] += ['C01GenMatch', 'C01GenTag']; AUDITS['C05'] += ['C05GenFrame']
MODULES['C20'] += ['C20Gen']; AUDITS['C20'] += ['C20Gen']   # get_pattern_context translated from the source (gen/gen_py_context.py)
MODULES['C12'] += ['C12GenAttr']; AUDITS['C12'] += ['C12GenAttr']   # match_attribute_name translated from the source (gen/gen_py_attrname.py)
MODULES['C02'] += ['C02Gen']; AUDITS['C02'] += ['C02Gen']   # the An+B block of parse_pseudo_nth translated from the source (gen/gen_py_anb.py)
MODULES['C03'] += ['C03Gen']; AUDITS['C03'] += ['C03Gen']   # query entry points translated from the source (gen/gen_py_api.py)
MODULES['C19'] += ['C19Gen', 'C19GenRoot']; AUDITS['C19'] += ['C19Gen', 'C19GenRoot']   # match_empty / match_contains / match_root translated from the source (gen/gen_py_textfn.py)
MODULES['C06'] += ['C06GenCustom']; AUDITS['C06'] += ['C06GenCustom']   # process_custom translated from the source (gen/gen_py_smallfn.py)
MODULES['C17'] += ['C17GenSmall', 'C17GenOwnDir']; AUDITS['C17'] += ['C17GenSmall', 'C17GenOwnDir']   # match_defined / match_placeholder_shown / match_scope / match_own_dir translated from the source (gen/gen_py_smallfn.py)
MODULES['C11'] += ['C11GenAttrSel']; AUDITS['C11'] += ['C11GenAttrSel']; MODULES['C01'] += ['C11GenAttrSel']; AUDITS['C01'] += ['C11GenAttrSel']   # the decisions of parse_attribute_selector translated from the source (gen/gen_py_attrsel.py)
MODULES['C01'] += ['C01GenAttrs']; AUDITS['C01'] += ['C01GenAttrs']   # match_attributes translated from the source (gen/gen_py_attrs.py)
MODULES['C01'] += ['C01GenRel']; AUDITS['C01'] += ['C01GenRel']   # match_relations / match_past_relations / match_future_relations / match_future_child / match_subselectors translated from the source (gen/gen_py_relations.py)
MODULES['C02'] += ['C02GenType']; AUDITS['C02'] += ['C02GenType']   # match_nth_tag_type translated from the source (gen/gen_py_attrs.py)
MODULES['C13'] += ['C13GenWalk']; AUDITS['C13'] += ['C13GenWalk']   # match_lang: final test, attribute decision and attribute loop of the walk translated from the source (gen/gen_py_langwalk.py)
MODULES['C02'] += ['C02GenNth', 'C02GenNthTerm']; AUDITS['C02'] += ['C02GenNth']   # the integer bookkeeping of match_nth (init, adjustment loops, main test, advance) translated from the source (gen/gen_py_nth.py)
MODULES['C06'] += ['C06GenComb']; AUDITS['C06'] += ['C06GenComb']; MODULES['C05'] += ['C06GenComb']; AUDITS['C05'] += ['C06GenComb']   # parse_combinator / parse_has_combinator translated from the source (gen/gen_py_combinators.py)
MODULES['C09'] += ['C09GenHandlers']; AUDITS['C09'] += ['C09GenHandlers']   # the token handlers parse_tag_pattern / parse_class_id / parse_pseudo_dir / parse_pseudo_lang / parse_pseudo_contains translated from the source (gen/gen_py_handlers.py)
MODULES['C06'] += ['C06GenPseudoOpen']; AUDITS['C06'] += ['C06GenPseudoOpen']   # the flag computation and frame of parse_pseudo_open translated from the source (gen/gen_py_popen.py)
MODULES['C06'] += ['C06GenPseudoCustom']; AUDITS['C06'] += ['C06GenPseudoCustom']   # parse_pseudo_class_custom translated from the source as a program (gen/gen_py_pcustom.py)
# `CxxRx` modules restate the property theorems about the regular expressions REGENERATED from the source
# (the hand-written scanners are proved equal to the regex-engine model on them in lean/SoupVerif/Refine/).


def lean_pipeline(chk, sources, extra_targets=()):
    """regenerate -> build property + audit modules + driver -> axiom audit.
    Returns True when the proof side is green.  When it is not, `chk.notes['proof_broken']`
    says what failed; the caller then runs its failing-input search."""
    pid = chk.pid
    ok, out = chk.regenerate()
    if not ok:
        chk.notes['proof_broken'] = 'translator failed: ' + out[-1500:]
        return False
    mods = MODULES.get(pid, [pid])
    audits = AUDITS.get(pid, [pid])
    targets = [f'SoupVerif.Properties.{m}' for m in mods] + ['svdriver'] + list(extra_targets)
    ok, out = chk.build(targets)
    wanted = []
    for a in audits:
        audit_src = os.path.join(LEAN, 'SoupVerif', 'Audit', f'{a}.lean')
        if os.path.exists(audit_src):
            wanted += re.findall(r'#print axioms\s+(\S+)', open(audit_src).read())
    chk.obligations = list(wanted)
    chk.coverage['checker_cmd'] = 'cd lean && lake build ' + ' '.join(targets) + ' && lake env lean ' + ' '.join(f'SoupVerif/Audit/{a}.lean' for a in audits)
    if not ok:
        errs = [l for l in out.splitlines() if 'error' in l][:20]
        chk.notes['proof_broken'] = 'lake build failed: ' + '\n'.join(errs)
        return False
    all_ok = True
    theorems_all = {}
    problems_all = []
    srcs = list(sources)
    for m in mods:
        f = f'SoupVerif/Properties/{m}.lean'
        if f not in srcs:
            srcs.append(f)
    # the forbidden-token grep covers the whole library (models, specs, lemmas, refinement proofs,
    # generated terms), not only the files a property names: a `sorry` anywhere taints every theorem
    for sub in ('Model', 'Spec', 'Lemmas', 'Refine', 'Generated', 'Properties'):
        for dp, _dn, fns in os.walk(os.path.join(LEAN, 'SoupVerif', sub)):
            for fn in sorted(fns):
                if fn.endswith('.lean'):
                    f = os.path.relpath(os.path.join(dp, fn), LEAN)
                    if f not in srcs:
                        srcs.append(f)
    for i, a in enumerate(audits):
        ok, theorems, problems = chk.audit(f'SoupVerif.Audit.{a}', srcs if i == 0 else [])
        theorems_all.update(theorems)
        problems_all += problems
        all_ok = all_ok and ok
    chk.discharged = [w for w in wanted if any(k == w or k.endswith('.' + w) or w.endswith('.' + k) for k in theorems_all)]
    chk.notes['axioms'] = {k: v for k, v in list(theorems_all.items())[:400]}
    if not all_ok:
        chk.notes['proof_broken'] = 'audit: ' + '; '.join(problems_all)
        return False
    if chk.tier == 'thorough':
        # independent re-check of the compiled property modules (and everything they import) by leanchecker
        mods_full = [f'SoupVerif.Properties.{m}' for m in mods]
        lock = open(os.path.join(LEAN, '.build.lock'), 'w')
        fcntl.flock(lock, fcntl.LOCK_EX)
        try:
            rc, out = sh(['lake', 'env', 'leanchecker'] + mods_full, cwd=LEAN, timeout=3000)
        finally:
            fcntl.flock(lock, fcntl.LOCK_UN)
        chk.coverage['leanchecker'] = {'modules': mods_full, 'rc': rc}
        if rc != 0:
            chk.notes['proof_broken'] = 'leanchecker: ' + out[-1500:]
            return False
    return True
