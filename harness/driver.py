"""Run the compiled Lean driver on a batch of request lines."""
import os
import subprocess

HERE = os.path.dirname(os.path.abspath(__file__))
LEAN_DIR = os.path.join(HERE, '..', 'lean')
DRIVER = os.path.join(LEAN_DIR, '.lake', 'build', 'bin', 'svdriver')


class DriverError(Exception):
    pass


def run(lines, timeout=1800):
    """Send request lines; return the list of response lines (same length)."""
    if not lines:
        return []
    data = ('\n'.join(lines) + '\n').encode()
    p = subprocess.run([DRIVER], input=data, stdout=subprocess.PIPE, stderr=subprocess.PIPE, timeout=timeout)
    if p.returncode != 0:
        raise DriverError(f'driver exit {p.returncode}: {p.stderr.decode()[-2000:]}')
    out = p.stdout.decode().split('\n')
    if out and out[-1] == '':
        out.pop()
    if len(out) != len(lines):
        raise DriverError(f'driver returned {len(out)} lines for {len(lines)} requests; stderr={p.stderr.decode()[-500:]}')
    return out
