"""Correspondence PY compile ≡ Lean parser model: IR equality, or the same error site + offset."""
import re
import warnings

import soupsieve as sv
from soupsieve import css_parser as cp
from soupsieve import util

import driver
import enc

warnings.simplefilter('ignore', FutureWarning)

ERR_PATTERNS = [
    (1, r"^Undefined custom selector"), (2, r"^Invalid syntax for pseudo class"),
    (3, r"was detected as a pseudo-class and is either unsupported"), (4, r"^The multiple combinators at position"),
    (5, r"^The combinator .* must have a selector before it"), (6, r"^Expected a selector at position"),
    (7, r"^Unmatched pseudo-class close"), (8, r"^Tag name found at position"), (9, r"^Unclosed pseudo-class"),
    (10, r"^Malformed attribute selector"), (11, r"^Malformed class selector"), (12, r"^Malformed id selector"),
    (13, r"^Malformed pseudo-class selector"), (14, r"^Invalid character"), (15, r"is not a valid custom pseudo-class name"),
]


def classify(e):
    msg = str(e)
    if isinstance(e, util.SelectorSyntaxError):
        first = msg.rsplit('\n  line ', 1)[0]
        for code, pat in ERR_PATTERNS:
            if re.search(pat, first, re.S):
                return code
        return -1
    if isinstance(e, NotImplementedError):
        return 20 if msg.startswith('At-rules') else 21 if msg.startswith('Pseudo-element') else -2
    if isinstance(e, KeyError):
        return 30
    return 99


def py_compile(pattern, custom=None, parse_flags=0):
    """Fresh parse (no cache): ('ok', ir_sx) | ('err', code, line, col, context, type name)."""
    try:
        cs = cp.process_custom(sv.ct.CustomSelectors(custom) if custom is not None else None)
        sl = cp.CSSParser(pattern, custom=cs, flags=0).process_selectors(flags=parse_flags)
        return ('ok', enc.parse_sx(enc.sel_list(sl)))
    except Exception as e:
        return ('err', classify(e), getattr(e, 'line', None), getattr(e, 'col', None), getattr(e, 'context', None),
                type(e).__name__)


def lean_line(pattern, custom=None, parse_flags=0):
    cs = ' '.join(f'({enc.s(k)} {enc.s(v)})' for k, v in (custom or {}).items())
    return f'(7 {enc.s(pattern)} ({cs}) {parse_flags})'


def offset_to_linecol(pattern, offset):
    ctx, line, col = util.get_pattern_context(pattern, offset)
    return line, col, ctx


def compare(pattern, custom, parse_flags, py, lean):
    """Returns None when they agree, else a description."""
    if py[0] == 'ok':
        if lean[0] != 0:
            return f'PY compiled, model raised code {lean[1]} at {lean[2]}'
        if lean[1] != py[1]:
            return 'IR differs'
        return None
    code = py[1]
    if lean[0] != 1:
        return f'PY raised {py[5]} (site {code}), model compiled'
    if lean[1] != code:
        return f'PY raised site {code} ({py[5]}), model raised site {lean[1]}'
    if code in (15, 20, 21, 30, 99):
        return None
    pat = ''.join(chr(c) for c in lean[3])
    line, col, ctx = offset_to_linecol(pat, lean[2])
    if (line, col) != (py[2], py[3]) or ctx != py[4]:
        return f'error position differs: PY line {py[2]} col {py[3]}, model offset {lean[2]} = line {line} col {col}'
    return None


def run(cases):
    """cases: list of (pattern, custom, parse_flags). Returns list of (case, py, lean, diff)."""
    pys = [py_compile(*c) for c in cases]
    resp = driver.run([lean_line(*c) for c in cases])
    out = []
    for c, py, r in zip(cases, pys, resp):
        lean = enc.parse_sx(r)
        out.append((c, py, lean, compare(c[0], c[1], c[2], py, lean)))
    return out
