"""Generators for documents and selectors.  Every random choice comes from the `random.Random`
instance that is passed in, so a case is reproduced by its seed alone."""
import bs4
from bs4 import BeautifulSoup

XHTML = 'http://www.w3.org/1999/xhtml'
SVG = 'http://www.w3.org/2000/svg'
XLINK = 'http://www.w3.org/1999/xlink'
XMLNS = 'http://www.w3.org/XML/1998/namespace'

TAGS = ['div', 'p', 'span', 'a', 'li', 'ul', 'b']
IDS = ['i1', 'i2', 'i3', 'x']
CLASSES = ['c1', 'c2', 'c3']
ATTRS = ['title', 'data-x', 'href', 'rel']
VALUES = ['', 'a', 'b', 'ab', 'a b', 'b a', 'a-b', 'abc', 'a-b-c', 'A', 'aB', 'x\n', 'a\nb', ' a', 'a ', '中']
TEXTS = ['', ' ', '\n ', 'a', 'ab', 'x y', 'b', '\xa0', 'ab a', '中']


# ---------------------------------------------------------------------------------------------
# abstract trees: ('e', name, prefix, ns, [(key, value)], [children]) | ('t'|'c'|'cd'|'pi'|'dt'|'dc', text)
# ---------------------------------------------------------------------------------------------

def gen_attrs(r, rich=True):
    attrs = []
    if r.random() < 0.35:
        attrs.append(('id', r.choice(IDS)))
    if r.random() < 0.4:
        k = r.randint(1, 3)
        attrs.append(('class', r.sample(CLASSES, k)))
    for a in ATTRS:
        if r.random() < 0.25:
            attrs.append((a, r.choice(VALUES)))
    if rich and r.random() < 0.15:
        attrs.append(('lang', r.choice(['en', 'en-US', 'de', '', 'de-DE-1996', 'fr'])))
    if rich and r.random() < 0.1:
        attrs.append(('dir', r.choice(['ltr', 'rtl', 'auto', 'x'])))
    r.shuffle(attrs)
    return attrs


def gen_tree(r, depth=0, max_depth=4, text_p=0.35, special_p=0.12, tags=TAGS, fan=4):
    name = r.choice(tags)
    kids = []
    if depth < max_depth:
        n = r.randint(0, fan) if depth > 0 else r.randint(1, fan)
        for _ in range(n):
            x = r.random()
            if x < text_p:
                kids.append(('t', r.choice(TEXTS)))
            elif x < text_p + special_p:
                kids.append((r.choice(['c', 'cd', 'pi']), r.choice(TEXTS + ['a', 'zz'])))
            else:
                kids.append(gen_tree(r, depth + 1, max_depth, text_p, special_p, tags, fan))
        if kids and r.random() < 0.25:
            kids.insert(r.randint(0, len(kids)), r.choice(kids))     # a structurally identical sibling
    return ('e', name, None, None, gen_attrs(r), kids)


def gen_doc(r, **kw):
    """Top-level node list + kind.  kind: 'html' (no namespaces), 'html5' (XHTML namespace, not
    XML), 'xhtml' (XML + XHTML namespace), 'xml'."""
    kind = r.choice(['html', 'html', 'html5', 'xhtml', 'xml'])
    text_p = r.choice([0.0, 0.0, 0.35, 0.5])
    top = []
    if r.random() < 0.3:
        top.append(('dt', 'html'))
    if r.random() < 0.2:
        top.append(('c', 'x'))
    if r.random() < 0.15:
        top.append(('t', r.choice([' ', '\n', 'a'])))
    top.append(gen_tree(r, text_p=text_p, **kw))
    # several top-level elements (a fragment without a wrapper): siblings directly under the document object
    if r.random() < 0.3:
        for _ in range(r.randint(1, 3)):
            if r.random() < 0.3:
                top.append(('t', r.choice([' ', 'a'])))
            top.append(gen_tree(r, max_depth=r.choice([0, 1, 2]), text_p=text_p))
    if r.random() < 0.15:
        top.append(('t', r.choice([' ', '\n', 'a', '\xa0'])))
    if r.random() < 0.1:
        top.append(('cd', 'a'))
    return kind, top


def new_soup(kind):
    if kind in ('xml', 'xhtml'):
        return BeautifulSoup('', 'xml')
    return BeautifulSoup('', 'html.parser')


STR_CLASSES = {'t': bs4.NavigableString, 'c': bs4.Comment, 'cd': bs4.CData,
               'pi': bs4.ProcessingInstruction, 'dt': bs4.Doctype, 'dc': bs4.Declaration}


# Subclasses of the string node classes.  Parsers create these (lxml-xml: XMLProcessingInstruction; html.parser / lxml:
# Script, Stylesheet, TemplateString, RubyTextString, RubyParenthesisString) and applications may define their own; a
# subclass of a markup class is still markup, a subclass of NavigableString that is none of them is still text.
# Only generators that ask for these kinds get them (no existing generator emits them).
class UserText(bs4.NavigableString):
    pass


class UserComment(bs4.Comment):
    pass


class UserCData(bs4.CData):
    pass


class UserPI(bs4.ProcessingInstruction):
    pass


class UserDoctype(bs4.Doctype):
    pass


class UserDeclaration(bs4.Declaration):
    pass


STR_CLASSES.update({
    'xpi': bs4.element.XMLProcessingInstruction, 'uc': UserComment, 'ucd': UserCData, 'upi': UserPI, 'udt': UserDoctype,
    'udc': UserDeclaration,
    'ut': UserText, 'sc': bs4.element.Script, 'st': bs4.element.Stylesheet, 'tp': bs4.element.TemplateString,
    'rts': bs4.element.RubyTextString, 'rps': bs4.element.RubyParenthesisString,
})


def build_node(soup, kind, t):
    if t[0] != 'e':
        return STR_CLASSES[t[0]](t[1])
    _, name, prefix, ns, attrs, kids = t
    if ns is None and kind in ('html5', 'xhtml'):
        ns = XHTML
    el = soup.new_tag(name, namespace=ns, nsprefix=prefix)
    for k, v in attrs:
        if isinstance(k, (list, tuple)):
            # a namespaced attribute key given as [prefix, local name, namespace URI] (what html5lib / lxml-xml store)
            k = bs4.element.NamespacedAttribute(k[0], k[1], k[2])
        el.attrs[k] = list(v) if isinstance(v, list) else v
    for c in kids:
        el.append(build_node(soup, kind, c))
    return el


def build_doc(kind, top, detached=False):
    """Materialise through the bs4 object API.  Returns the top object (a BeautifulSoup object, or
    the first element when `detached`)."""
    soup = new_soup(kind)
    nodes = [build_node(soup, kind, t) for t in top]
    if detached:
        els = [n for n in nodes if isinstance(n, bs4.Tag)]
        return els[0]
    for n in nodes:
        soup.append(n)
    return soup


def elements(top):
    out = []
    stack = [top]
    while stack:
        n = stack.pop()
        if isinstance(n, bs4.Tag):
            if not isinstance(n, BeautifulSoup):
                out.append(n)
            stack.extend(reversed(n.contents))
    return out


# ---------------------------------------------------------------------------------------------
# selectors: rendered text of a random AST over the same vocabulary
# ---------------------------------------------------------------------------------------------

def ident(r, pool):
    return r.choice(pool)


def q(v):
    out = []
    for ch in v:
        if ch == '"' or ch == '\\':
            out.append('\\' + ch)
        elif ord(ch) < 32 or ord(ch) == 127:
            out.append('\\%x ' % ord(ch))
        else:
            out.append(ch)
    return '"' + ''.join(out) + '"'


def gen_attr_sel(r):
    name = r.choice(ATTRS + ['id', 'class', 'lang'])
    if r.random() < 0.25:
        return f'[{name}]'
    op = r.choice(['=', '~=', '|=', '^=', '$=', '*=', '!='])
    v = r.choice(VALUES)
    flag = r.choice(['', '', '', ' i', ' s'])
    return f'[{name}{op}{q(v)}{flag}]'


def swapcase_some(r, v):
    return ''.join(ch.swapcase() if ch.isascii() and r.random() < 0.5 else ch for ch in v)


def gen_attr_sel_for(r, els):
    """An attribute selector derived from an attribute actually present on one of `els` (bs4 tags):
    the operand is the whole value, a prefix, a suffix, an inner piece, a whitespace-separated word or
    a dash prefix of it, optionally with mangled case and an i / s flag; so the comparison usually
    succeeds or fails for a reason (newline before the matched part, case, word boundary)."""
    cands = [(e, k, v) for e in els for k, v in e.attrs.items()]
    if not cands:
        return gen_attr_sel(r)
    e, k, v = r.choice(cands)
    whole = ' '.join(v) if isinstance(v, (list, tuple)) else v
    if not isinstance(whole, str):
        return gen_attr_sel(r)
    op = r.choice(['=', '~=', '|=', '^=', '$=', '*=', '!='])
    n = len(whole)
    if op == '^=':
        part = whole[:r.randint(0, n)]
    elif op == '$=':
        part = whole[r.randint(0, n):]
    elif op == '*=':
        a = r.randint(0, n)
        part = whole[a:r.randint(a, n)]
    elif op == '~=':
        words = [w for w in __import__('re').split('[ \t\r\n\f]', whole)]
        part = r.choice(words) if words else whole
    elif op == '|=':
        part = whole.split('-')[0] if r.random() < 0.7 else whole
    else:
        part = whole
    if r.random() < 0.35:
        part = swapcase_some(r, part)
    flag = r.choice(['', '', ' i', ' s', 'i', ' I', ' S'])
    if flag and flag[0] != ' ' and part and not part.isspace():
        pass     # a flag directly after a quoted value is fine: the value is always quoted here
    name = k if r.random() < 0.8 else swapcase_some(r, k)
    return f'[{name}{op}{q(part)}{flag}]'


STRUCT = [':root', ':empty', ':first-child', ':last-child', ':only-child',
          ':first-of-type', ':last-of-type', ':only-of-type']


def gen_nth(r, depth, feats):
    name = r.choice([':nth-child', ':nth-last-child', ':nth-of-type', ':nth-last-of-type'])
    a = r.randint(-3, 3)
    bb = r.randint(-3, 4)
    form = r.choice(['anb', 'anb', 'b', 'even', 'odd', 'n'])
    if form == 'anb':
        arg = f'{a}n{"+" if bb >= 0 else "-"}{abs(bb)}'
    elif form == 'b':
        arg = str(abs(bb))
    elif form == 'n':
        arg = r.choice(['n', '-n', '+n']) + (f'+{abs(bb)}' if r.random() < 0.5 else '')
    else:
        arg = form
    if name.endswith('child') and depth < 2 and r.random() < 0.3:
        arg += ' of ' + gen_list(r, depth + 1, feats, maxn=2)
    return f'{name}({arg})'


def gen_simple(r, depth, feats):
    x = r.random()
    if x < 0.2:
        return '#' + ident(r, IDS)
    if x < 0.42:
        return '.' + ident(r, CLASSES)
    if x < 0.62:
        return gen_attr_sel(r)
    if x < 0.74:
        return r.choice(STRUCT)
    if x < 0.9 and depth < 3:
        name = r.choice([':not', ':is', ':where', ':matches', ':has', ':not', ':is'])
        if name == ':has':
            inner = ', '.join(r.choice(['', '> ', '+ ', '~ ']) + gen_complex(r, depth + 1, feats)
                              for _ in range(r.randint(1, 2)))
        else:
            inner = gen_list(r, depth + 1, feats, maxn=2)
        return f'{name}({inner})'
    if 'nth' in feats and x < 0.95:
        return gen_nth(r, depth, feats)
    if 'extra' in feats:
        return r.choice(feats['extra'])(r, depth, feats) if callable(feats['extra'][0]) else r.choice(feats['extra'])
    return '.' + ident(r, CLASSES)


def gen_compound(r, depth, feats):
    parts = []
    x = r.random()
    if x < 0.55:
        parts.append(r.choice(TAGS))
    elif x < 0.65:
        parts.append('*')
    n = r.choice([0, 1, 1, 1, 2, 2, 3]) if parts else r.choice([1, 1, 2, 3])
    for _ in range(n):
        parts.append(gen_simple(r, depth, feats))
    return ''.join(parts)


def gen_complex(r, depth, feats):
    n = r.choice([1, 1, 1, 2, 2, 3])
    out = gen_compound(r, depth, feats)
    for _ in range(n - 1):
        out += r.choice([' ', ' ', ' > ', ' + ', ' ~ ']) + gen_compound(r, depth, feats)
    return out


def gen_list(r, depth=0, feats=None, maxn=3):
    feats = feats or {}
    n = r.choice([1, 1, 1, 2, 3][:maxn + 2])
    return ', '.join(gen_complex(r, depth, feats) for _ in range(n))


# ---------------------------------------------------------------------------------------------
# repeated content: the same subtree (equal name, attributes and whole content) at several places of one document,
# under different ancestors / after different siblings; and selectors read off an actual path of the document
# ---------------------------------------------------------------------------------------------
def clone(t):
    """A fresh copy of an abstract node (no sharing of child lists with the original)."""
    if t[0] != 'e':
        return (t[0], t[1])
    return ('e', t[1], t[2], t[3], [(k, list(v) if isinstance(v, list) else v) for k, v in t[4]], [clone(c) for c in t[5]])


def tree_size(t):
    return 1 + sum(tree_size(c) for c in t[5]) if t[0] == 'e' else 1


def tree_height(t):
    """0 for an element without element children."""
    hs = [tree_height(c) for c in t[5] if c[0] == 'e']
    return 1 + max(hs) if hs else 0


def abstract_elements(nodes):
    out = []
    for n in nodes:
        if n[0] == 'e':
            out.append(n)
            out.extend(abstract_elements(n[5]))
    return out


def graft_copies(r, top, k=None, max_size=30, tags=TAGS):
    """Returns (top', stats): a copy of the abstract forest `top` in which k subtrees have been repeated at another
    place: under another parent, at another depth, at top level, inside themselves, or in the same parent at another
    position.  The repeated subtree is equal to its source in name, attributes and whole content (bs4 compares such
    tags equal and hashes them alike) but is a different element with different ancestors and siblings.  Variants: the
    copy is wrapped into a fresh element (an ancestor the source does not have); the copy differs from the source in
    one attribute or one text node deep inside (a near-copy: equal at the surface only)."""
    top = [clone(t) for t in top]
    stats = {'exact': 0, 'near': 0, 'wrapped': 0, 'top_level': 0, 'same_parent': 0}
    for _ in range(k if k is not None else r.choice([1, 1, 2, 2, 3])):
        els = [e for e in abstract_elements(top) if tree_size(e) <= max_size]
        if not els:
            break
        tall = [e for e in els if tree_height(e) >= 1]
        src = r.choice(tall) if tall and r.random() < 0.85 else r.choice(els)
        cp = clone(src)
        if r.random() < 0.2:
            inner = abstract_elements([cp])
            v = r.choice(inner)
            if r.random() < 0.5:
                v[4].append(('data-k', r.choice(['1', '2'])))
            else:
                v[5].append(('t', r.choice(['k', 'kk'])))
            stats['near'] += 1
        else:
            stats['exact'] += 1
        if r.random() < 0.3:
            cp = ('e', r.choice(tags), None, None, gen_attrs(r, rich=False), [cp])
            stats['wrapped'] += 1
        parents = [e for e in abstract_elements(top)]
        x = r.random()
        if x < 0.15 or not parents:
            first = next((i for i, n in enumerate(top) if n[0] == 'e'), len(top))
            top.insert(r.randint(first, len(top)), cp)
            stats['top_level'] += 1
        else:
            holder = r.choice(parents)
            if x < 0.35:
                own = [e for e in parents if any(c is src for c in e[5])]
                if own:
                    holder = own[0]
                    stats['same_parent'] += 1
            holder[5].insert(r.randint(0, len(holder[5])), cp)
    return top, stats


def elem_chains(top):
    """For every element of the abstract forest: its chain [(node, preceding element siblings), ...] from the outermost
    ancestor down to the element itself."""
    out = []

    def walk(nodes, chain):
        prev = []
        for n in nodes:
            if n[0] != 'e':
                continue
            c = chain + [(n, tuple(prev))]
            out.append(c)
            walk(n[5], c)
            prev.append(n)
    walk(top, [])
    return out


def describe_el(r, n):
    """A compound selector that the abstract element `n` satisfies (in a document without namespaces declared to the
    selector): its type, one of its ids / classes / attributes, or a combination."""
    _, name, _, _, attrs, _ = n
    d = dict(attrs)
    opts = [name, name, name]
    if 'id' in d:
        opts += ['#' + d['id'], name + '#' + d['id']]
    for c in d.get('class', []):
        opts += ['.' + c, name + '.' + c]
    for k, v in attrs:
        if k not in ('id', 'class') and isinstance(v, str):
            opts += [f'[{k}]', f'{name}[{k}={q(v)}]']
    if r.random() < 0.08:
        return '*'
    return r.choice(opts)


def gen_path_sel(r, top, chains=None, feats=None):
    """A selector read off an actual path of the document: some ancestors of a chosen element (and sometimes a preceding
    sibling of one of them), each described by something it really carries, joined by the combinators that really hold
    between them; then possibly negated, nested in :is/:where/:has, or relaxed.  By construction the plain form matches
    the chosen element, so whether *other* elements with the same description (repeated content elsewhere in the
    document) are selected is decided by their own ancestors and siblings only."""
    chains = chains if chains is not None else elem_chains(top)
    if not chains:
        return gen_list(r, 0, feats)
    c = r.choice(chains)
    for _ in range(2):
        c2 = r.choice(chains)
        if len(c2) > len(c):
            c = c2
    m = len(c)
    keep = [i for i in range(m - 1) if r.random() < 0.4]
    if not keep and m > 1:
        keep = [r.randrange(m - 1)]
    keep.append(m - 1)
    descs, combs = [], []
    last = None
    for i in keep:
        n, prev = c[i]
        d = own = describe_el(r, n)
        if prev and r.random() < 0.25:
            j = r.randrange(len(prev))
            comb = ' + ' if j == len(prev) - 1 and r.random() < 0.6 else ' ~ '
            d = describe_el(r, prev[j]) + comb + d
        if r.random() < 0.06:
            d = own = gen_compound(r, 2, feats or {})    # a description the path member need not satisfy
        if last is not None:
            combs.append(' > ' if i == last + 1 and r.random() < 0.35 else ' ')
        descs.append(d)
        last = i

    def join(a, b):
        return ''.join(x for i in range(a, b) for x in ((combs[i - 1] if i > a else ''), descs[i]))
    k = len(descs)
    sel = join(0, k)
    subj = own
    x = r.random()
    if x < 0.4 or k == 1 and x < 0.6:
        return sel
    if x < 0.5:
        return f'{subj}:not({sel})'
    if x < 0.55:
        return f':not({sel})'
    if x < 0.65:
        return f'{r.choice([":is", ":where", ":matches"])}({sel})'
    if x < 0.7:
        return f':is({sel}, {gen_complex(r, 2, feats or {})})'
    if x < 0.75:
        return sel + r.choice([' *', ' > *', ', ' + gen_complex(r, 1, feats or {})])
    if k >= 2:
        cut = r.randrange(1, k)
        if x < 0.9:
            rel = combs[cut - 1].strip()
            return f'{join(0, cut)}:has({rel + " " if rel else ""}{join(cut, k)})'
        return f':is({join(0, cut)}){combs[cut - 1]}{join(cut, k)}'
    return sel


# ---------------------------------------------------------------------------------------------
# HTML state documents: forms, controls, fieldsets/legends, radio groups, dir, iframes
# ---------------------------------------------------------------------------------------------
INPUT_TYPES = ['text', 'checkbox', 'radio', 'submit', 'hidden', 'number', 'range', 'date', 'month', 'week', 'time',
               'datetime-local', 'search', 'url', 'tel', 'email', 'password', 'TEXT', 'Radio', 'x', '']
RTL = 'אב'
BIDI_TEXTS = ['abc', RTL, '123', ' ', '', '12' + RTL, RTL + 'abc', 'ab' + RTL, '!?']


def gen_control(r):
    x = r.random()
    attrs = []

    def maybe(name, vals, p):
        if r.random() < p:
            attrs.append((name, r.choice(vals)))
    if x < 0.45:
        name = 'input'
        maybe('type', INPUT_TYPES + ['radio'] * 6 + ['checkbox'] * 2 + ['RADIO'], 0.85)      # radio groups are what :indeterminate / :default scan
        maybe('name', ['g1', 'g2', '', 'g1'], 0.6)
        maybe('checked', ['', 'checked'], 0.3)
        maybe('value', ['', 'a', '5', RTL, '2020-01-01', '12:00'], 0.4)
        maybe('min', ['1', '2020-01-01', 'x', '10:00'], 0.25)
        maybe('max', ['9', '2021-01-01', '08:00'], 0.25)
        maybe('placeholder', ['', 'p'], 0.3)
        maybe('indeterminate', [''], 0.1)
        kids = []
    elif x < 0.55:
        name = 'button'
        maybe('type', ['submit', 'button', 'reset', 'SUBMIT'], 0.7)
        kids = [('t', 'ok')]
    elif x < 0.65:
        name = 'textarea'
        maybe('placeholder', ['', 'p'], 0.5)
        kids = [('t', r.choice(['', '\n', 'x', RTL, ' ']))] if r.random() < 0.6 else []
    elif x < 0.75:
        name = 'select'
        kids = []
        for _ in range(r.randint(0, 3)):
            o = ('e', 'option', None, None, [('selected', '')] if r.random() < 0.3 else [], [('t', 'o')])
            if r.random() < 0.3:
                og = [('disabled', '')] if r.random() < 0.5 else []
                o = ('e', 'optgroup', None, None, og, [o])
            kids.append(o)
    elif x < 0.8:
        name = 'progress'
        maybe('value', ['1', ''], 0.5)
        kids = []
    elif x < 0.88:
        name = r.choice(['a', 'area'])
        maybe('href', ['', '#x'], 0.7)
        kids = [('t', 'l')]
    else:
        name = r.choice(['div', 'span', 'p', 'bdi', 'my-el'])
        maybe('contenteditable', ['', 'true', 'TRUE', 'false', 'x'], 0.4)
        kids = [('t', r.choice(BIDI_TEXTS))] if r.random() < 0.7 else []
    maybe('disabled', ['', 'disabled'], 0.2)
    maybe('readonly', [''], 0.15)
    maybe('required', [''], 0.2)
    maybe('dir', ['ltr', 'rtl', 'auto', 'AUTO', 'x', ''], 0.25)
    r.shuffle(attrs)
    return ('e', name, None, None, attrs, kids)


def gen_form_tree(r, depth=0):
    kids = []
    for _ in range(r.randint(1, 5)):
        x = r.random()
        if x < 0.5 or depth >= 3:
            kids.append(gen_control(r))
        elif x < 0.62:
            fs_attrs = [('disabled', '')] if r.random() < 0.6 else []
            fk = []
            for _ in range(r.randint(0, 2)):
                fk.append(('e', 'legend', None, None, [], [gen_control(r)] if r.random() < 0.7 else [('t', 'L')]))
            sub = gen_form_tree(r, depth + 1)
            fk += sub[5]
            r.shuffle(fk)
            kids.append(('e', 'fieldset', None, None, fs_attrs, fk))
        elif x < 0.72:
            kids.append(('e', 'form', None, None, [], gen_form_tree(r, depth + 1)[5]))
        elif x < 0.8:
            inner = ('e', 'html', None, None, [], [('e', 'body', None, None, [('dir', r.choice(['rtl', 'ltr']))] if r.random() < 0.5 else [],
                                                   gen_form_tree(r, depth + 1)[5])])
            y = r.random()
            if r.random() < 0.5:
                # a radio group that straddles the frame boundary: same-named radios inside the embedded document (outside any
                # form there) and outside it; group membership must not cross the boundary in either direction
                def radio(checked):
                    return ('e', 'input', None, None, [('type', 'radio'), ('name', 'g1')] + ([('checked', '')] if checked else []), [])
                inner[5][0][5].extend([radio(r.random() < 0.4) for _ in range(r.randint(1, 2))])
                kids.insert(r.randint(0, len(kids)), radio(r.random() < 0.5))
            # an embedded document, or (as parsers that keep the content as text, or authors, leave it) an empty / text-only iframe
            # the iframe element itself may carry dir (auto: its direction must not be read off the embedded document's text)
            if_attrs = [('dir', r.choice(['auto', 'auto', 'AUTO', 'rtl', 'ltr']))] if r.random() < 0.35 else []
            if if_attrs and y < 0.65 and r.random() < 0.7:
                inner[5][0][5].insert(0, ('e', 'p', None, None, [], [('t', r.choice([RTL, RTL + 'abc', 'abc']))]))
            kids.append(('e', 'iframe', None, None, if_attrs,
                         [inner] if y < 0.65 else [] if y < 0.9 else [('t', r.choice(['x', ' ', RTL]))]))
        elif x < 0.9:
            kids.append(('t', r.choice(BIDI_TEXTS)))
        else:
            sub = gen_form_tree(r, depth + 1)
            d = [('dir', r.choice(['ltr', 'rtl', 'auto']))] if r.random() < 0.5 else []
            kids.append(('e', 'div', None, None, d, sub[5]))
    # bs4 compares tags structurally: structurally identical controls / forms are where identity matters
    for _ in range(r.choice([0, 0, 1, 2])):
        if kids:
            src = r.choice(kids)
            kids.insert(r.randint(0, len(kids)), src)
    return ('e', 'div', None, None, [], kids)


def gen_head_kids(r):
    """<meta>/<title>/<link> children of <head>: content-language declarations (complete, split over two
    metas, attributes in either order), metas with multi-valued attributes (a list once parsed), and noise."""
    kids = []
    for _ in range(r.choice([0, 0, 1, 1, 2, 3])):
        x = r.random()
        attrs = []
        if x < 0.45:
            attrs = [(r.choice(['http-equiv', 'HTTP-EQUIV', 'http-equiv']), r.choice(['content-language', 'Content-Language', 'refresh', ''])),
                     (r.choice(['content', 'CONTENT', 'content']), r.choice(['en', 'en-US', 'de', 'de-DE, en', '', 'fr-CA', '*']))]
            if r.random() < 0.25:
                attrs.pop(r.randint(0, 1))
        elif x < 0.7:
            attrs = [('name', r.choice(['viewport', 'generator', ''])), ('content', r.choice(['en', 'x', '']))]
        if r.random() < 0.35:
            attrs.append(('class', r.sample(CLASSES, r.randint(1, 2))))
        if r.random() < 0.1:
            attrs.append(('lang', r.choice(['en', 'de', ''])))
        r.shuffle(attrs)
        name = 'meta' if r.random() < 0.85 else r.choice(['title', 'link', 'META'])
        kids.append(('e', name, None, None, attrs, [('t', 'T')] if name == 'title' else []))
    return kids


def gen_state_doc(r):
    kind = r.choice(['html', 'html', 'html5', 'xhtml', 'xml'])
    body_attrs = [('dir', r.choice(['ltr', 'rtl', 'auto']))] if r.random() < 0.3 else []
    body = ('e', 'body', None, None, body_attrs, [gen_form_tree(r)])
    head = ('e', 'head', None, None, [], gen_head_kids(r))
    html_attrs = [('dir', r.choice(['ltr', 'rtl', 'auto', 'x']))] if r.random() < 0.3 else []
    if r.random() < 0.3:
        html_attrs.append(('lang', r.choice(['en', 'de', ''])))
    top = [('e', 'html', None, None, html_attrs, [head, body])]
    if r.random() < 0.15:
        top = [gen_form_tree(r)]      # no html/body wrapper
    return kind, top


# ---------------------------------------------------------------------------------------------
# markup materialisation (parsers)
# ---------------------------------------------------------------------------------------------
def esc_attr(v):
    return v.replace('&', '&amp;').replace('"', '&quot;').replace('<', '&lt;')


def esc_text(v):
    return v.replace('&', '&amp;').replace('<', '&lt;').replace('>', '&gt;')


def to_markup(nodes, xml=False, attr_esc=None):
    """attr_esc: how an attribute value is written between the double quotes (default esc_attr)."""
    ea = attr_esc or esc_attr
    out = []
    for n in nodes:
        if n[0] == 'e':
            _, name, prefix, ns, attrs, kids = n
            qn = f'{prefix}:{name}' if prefix else name
            a = ''.join(f' {k}="{ea(" ".join(v) if isinstance(v, list) else v)}"' for k, v in attrs)
            inner = to_markup(kids, xml, attr_esc)
            if xml and not inner:
                out.append(f'<{qn}{a}/>')
            else:
                out.append(f'<{qn}{a}>{inner}</{qn}>')
        elif n[0] == 't':
            out.append(esc_text(n[1]))
        elif n[0] == 'c':
            out.append('<!--' + n[1].replace('--', '- -') + '-->')
        elif n[0] == 'cd' and xml:
            out.append('<![CDATA[' + n[1] + ']]>')
        elif n[0] == 'pi' and xml:
            out.append('<?' + (n[1].replace('?>', '') or 'x') + '?>')
    return ''.join(out)


def parse_variants(top, xhtml_ns=True):
    """The same logical tree through every installed parser. Returns {name: soup}."""
    from bs4 import BeautifulSoup
    body = to_markup(top)
    html = f'<!DOCTYPE html><html><head></head><body>{body}</body></html>'
    xbody = to_markup(top, xml=True)
    xhtml = f'<?xml version="1.0"?><html xmlns="http://www.w3.org/1999/xhtml"><head/><body>{xbody}</body></html>'
    xml = f'<?xml version="1.0"?><root>{xbody}</root>'
    return {
        'html.parser': BeautifulSoup(html, 'html.parser'),
        'lxml': BeautifulSoup(html, 'lxml'),
        'html5lib': BeautifulSoup(html, 'html5lib'),
        'xhtml': BeautifulSoup(xhtml, 'xml'),
        'xml': BeautifulSoup(xml, 'xml'),
    }
