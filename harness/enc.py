"""Encoders: bs4 trees, compiled selector IR and values -> the driver's s-expressions.

The tree is read back from what bs4 *holds* (names, prefixes, namespaces, attribute keys and raw
values, node classes), with the harness's own classification of node kinds - nothing here calls
into soupsieve.
"""
import os
import sys
from collections.abc import Sequence

import bs4

sys.path.insert(0, os.path.join(os.path.dirname(__file__), '..', 'gen'))
import rx  # noqa: E402


def s(text):
    return '(' + ' '.join(str(ord(c)) for c in text) + ')'


def opt(v, f=s):
    return '()' if v is None else '(' + f(v) + ')'


def b(x):
    return '1' if x else '0'


def pyval(v):
    if v is None:
        return '(0)'
    if isinstance(v, str):
        return f'(1 {s(v)})'
    if isinstance(v, bytes):
        return f'(2 {s(v.decode("utf8", "replace"))})'
    if isinstance(v, Sequence):
        return f'(3 ({" ".join(pyval(x) for x in v)}) {s(str(v))})'
    return f'(4 {s(str(v))})'


def str_kind(n):
    if isinstance(n, bs4.Comment):
        return 1
    if isinstance(n, bs4.CData):
        return 2
    if isinstance(n, bs4.ProcessingInstruction):
        return 3
    if isinstance(n, bs4.Doctype):
        return 4
    if isinstance(n, bs4.Declaration):
        return 5
    return 0


def node(n):
    if isinstance(n, bs4.Tag):
        attrs = []
        for k, v in n.attrs.items():
            attrs.append(f'({s(str(k))} {opt(getattr(k, "namespace", None))} {opt(getattr(k, "name", None))} {pyval(v)})')
        kids = ' '.join(node(c) for c in n.contents)
        return (f'(0 {b(isinstance(n, bs4.BeautifulSoup))} {s(n.name)} {opt(n.prefix)} {opt(n.namespace)} '
                f'({" ".join(attrs)}) ({kids}))')
    return f'(1 {str_kind(n)} {s(str(n))})'


def top_of(n):
    while n.parent is not None:
        n = n.parent
    return n


def doc(top):
    return f'({b(bool(top._is_xml))} {node(top)})'


def path_of(n):
    p = []
    while n.parent is not None:
        par = n.parent
        idx = next(i for i, c in enumerate(par.contents) if c is n)
        p.append(idx)
        n = par
    return list(reversed(p))


def path(p):
    return '(' + ' '.join(str(i) for i in p) + ')'


def node_at(top, p):
    n = top
    for i in p:
        n = n.contents[i]
    return n


def all_strings(top):
    """All characters occurring in string nodes and attribute values (for the bidi table)."""
    chars = set()
    stack = [top]
    while stack:
        n = stack.pop()
        if isinstance(n, bs4.Tag):
            for v in n.attrs.values():
                if isinstance(v, str):
                    chars.update(v)
            stack.extend(n.contents)
        else:
            chars.update(str(n))
    return chars


def bidi_env(top):
    import unicodedata
    L, R = [], []
    for c in sorted(all_strings(top)):
        bd = unicodedata.bidirectional(c)
        if bd == 'L':
            L.append(ord(c))
        elif bd in ('R', 'AL'):
            R.append(ord(c))
    return f'(({" ".join(map(str, L))}) ({" ".join(map(str, R))}))'


REL = {None: 0, ' ': 1, '>': 2, '~': 3, '+': 4, ': ': 5, ':>': 6, ':~': 7, ':+': 8}
_rx_cache = {}


def pattern(p):
    if p is None:
        return '()'
    key = (p.pattern, p.flags)
    if key not in _rx_cache:
        t, _ = rx.parse(p)
        _rx_cache[key] = rx.to_sx(t)
    return '(' + _rx_cache[key] + ')'


def sel_list(sl):
    from soupsieve import css_types as ct
    assert type(sl) is ct.SelectorList, type(sl)
    return f'(({" ".join(selector(x) for x in sl.selectors)}) {b(sl.is_not)} {b(sl.is_html)})'


def selector(x):
    from soupsieve import css_types as ct
    if type(x) is ct.SelectorNull:
        return '(0)'
    assert type(x) is ct.Selector, type(x)
    tag = '()' if x.tag is None else f'(({s(x.tag.name)} {opt(x.tag.prefix)}))'
    attrs = ' '.join(f'({s(a.attribute)} {s(a.prefix)} {pattern(a.pattern)} {pattern(a.xml_type_pattern)})'
                     for a in x.attributes)
    nth = ' '.join(f'({n.a} {b(n.n)} {n.b} {b(n.of_type)} {b(n.last)} {sel_list(n.selectors)})' for n in x.nth)
    subs = ' '.join(sel_list(y) for y in x.selectors)
    contains = ' '.join(f'(({" ".join(s(t) for t in c.text)}) {b(c.own)})' for c in x.contains)
    lang = ' '.join(f'(({" ".join(s(t) for t in l.languages)}))' for l in x.lang)
    return (f'(1 {tag} ({" ".join(s(i) for i in x.ids)}) ({" ".join(s(i) for i in x.classes)}) ({attrs}) ({nth}) '
            f'({subs}) {sel_list(x.relation)} {REL[x.rel_type]} ({contains}) ({lang}) {x.flags})')


def nsmap(ns):
    if not ns:
        return '()'
    return '(' + ' '.join(f'({s(k)} {s(v)})' for k, v in ns.items()) + ')'


# ---- reading responses -------------------------------------------------------------------

def parse_sx(text):
    toks = text.replace('(', ' ( ').replace(')', ' ) ').split()
    stack = [[]]
    for t in toks:
        if t == '(':
            stack.append([])
        elif t == ')':
            top = stack.pop()
            stack[-1].append(top)
        else:
            stack[-1].append(int(t))
    assert len(stack) == 1 and len(stack[0]) == 1, text[:200]
    return stack[0][0]
