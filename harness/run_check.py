"""Entry point: bin/check <Cxx> <quick|thorough> [--replay file]."""
import importlib
import os
import sys
import traceback

HERE = os.path.dirname(os.path.abspath(__file__))
sys.path.insert(0, HERE)
sys.path.insert(0, os.path.join(HERE, '..', 'gen'))


def main(argv):
    if len(argv) < 2:
        print('usage: bin/check <Cxx> <quick|thorough> [--replay file]')
        return 2
    pid = argv[0].upper()
    tier = argv[1] if argv[1] in ('quick', 'thorough') else os.environ.get('VERIF_TIER', 'quick')
    replay = None
    if '--replay' in argv:
        replay = argv[argv.index('--replay') + 1]
        tier = os.environ.get('VERIF_TIER', 'quick')
    seed = int(os.environ.get('VERIF_SEED', '20260929'))
    # The library itself must import: a source tree on which `import soupsieve` raises breaks every property (nothing the
    # property prescribes can be obtained), so that is reported as a violation with the import as the failing input.
    try:
        import soupsieve  # noqa: F401
        import bs4  # noqa: F401
    except BaseException as e:      # noqa: BLE001
        import json
        tb = traceback.format_exc()
        print(tb)
        root = os.path.join(HERE, '..')
        os.makedirs(os.path.join(root, 'replays'), exist_ok=True)
        rp = os.path.join(root, 'replays', f'{pid}_import0.json')
        with open(rp, 'w') as f:
            json.dump({'property': pid, 'what': f'`import soupsieve` raises {type(e).__name__}: {e}'[:400],
                       'input': {'program': 'import soupsieve'}, 'traceback': tb[-3000:]}, f, indent=1)
        print(f'VIOLATION property={pid} replay={os.path.abspath(rp)}')
        return 1
    try:
        mod = importlib.import_module(f'props.{pid.lower()}')
    except ImportError:
        traceback.print_exc()
        print(f'no check for {pid}')
        return 2
    import time
    import framework
    from framework import Check
    # a call into the library that does not return is a failing input, not a hung check
    framework.install_watchdog(float(os.environ.get('VERIF_CALL_LIMIT_S', '60' if tier == 'quick' else '300')))
    try:
        if replay:
            import json
            data = json.load(open(replay))
            if 'library_call' in data:          # a call that did not return: re-run it under the watchdog
                ok = framework.replay_call(data['library_call'], fail_on_exception=data.get('library_exception_type'))
                print(json.dumps({'returned_within_limit': ok}))
                if not ok:
                    print(f'VIOLATION property={pid} replay={replay}')
                return 0 if ok else 1
            return mod.replay(Check(pid, tier, seed, keep_replays=True), replay)
        # Change-directed search: when the library source differs from the tree these checks were last validated on
        # (gen/blessed_source.json), the quick tier does not stop at one seed — it repeats the whole check with further
        # seeds until a violation is found or the time budget is used.  On the blessed tree this costs nothing.
        changed = framework.changed_source_files() if tier == 'quick' else None
        budget = float(os.environ.get('VERIF_ESCALATE_S', '150'))
        t0 = time.time()
        seeds = [seed]
        if changed:
            framework.ESCALATION = {'changed_files': changed, 'seeds_run': seeds, 'budget_s': budget}
        def run_one(chk):
            try:
                return mod.run(chk)
            except (framework.LibraryDidNotTerminate, framework.LibraryKeepsHanging) as e:
                # the sweep was inside a call into the library that never returned: that call is the failing input
                chk.violation('hang0', {'what': 'a call into the library did not return: ' + str(e),
                                        'library_call': getattr(e, 'call', None)}, concrete=True)
                return chk.finish(rule='(sweep aborted: a call into the library did not return)', evaluations=1, distinct=1)
            except Exception as e:      # noqa: BLE001
                # an exception raised INSIDE a call into the library that the sweep did not anticipate (its oracles catch the
                # exceptions the property allows): the call is the failing input.  Anything else is a harness crash (exit 2).
                call = getattr(e, '_soupverif_call', None)
                if call is None:
                    raise
                traceback.print_exc()
                chk.violation('exc0', {'what': f'a call into the library raised {type(e).__name__}: {e}'[:300] +
                                               ' (not anticipated by the sweep: the property prescribes a result for this call)',
                                       'library_exception_type': type(e).__name__,
                                       'library_call': framework.describe_call(*call)}, concrete=True)
                return chk.finish(rule='(sweep aborted: a call into the library raised)', evaluations=1, distinct=1)
        rc = run_one(Check(pid, tier, seed))
        first = time.time() - t0
        k = 0
        while changed and rc == 0 and k < 8 and (time.time() - t0) + first * 1.1 < budget:
            k += 1
            s2 = (seed * 1000003 + k * 7919) % (2 ** 31)
            seeds.append(s2)
            rc = run_one(Check(pid, tier, s2, keep_replays=True))
        return rc
    except Exception:
        traceback.print_exc()
        return 2


if __name__ == '__main__':
    sys.exit(main(sys.argv[1:]))
