"""Entry point: bin/check <Cxx> <quick|thorough> [--replay file]."""
import importlib
import os
import sys
import traceback

HERE = os.path.dirname(os.path.abspath(__file__))
sys.path.insert(0, HERE)
sys.path.insert(0, os.path.join(HERE, '..', 'gen'))


def main(argv):
    if len(argv) < 2:
        print('usage: bin/check <Cxx> <quick|thorough> [--replay file]')
        return 2
    pid = argv[0].upper()
    tier = argv[1] if argv[1] in ('quick', 'thorough') else os.environ.get('VERIF_TIER', 'quick')
    replay = None
    if '--replay' in argv:
        replay = argv[argv.index('--replay') + 1]
        tier = os.environ.get('VERIF_TIER', 'quick')
    seed = int(os.environ.get('VERIF_SEED', '20260929'))
    try:
        mod = importlib.import_module(f'props.{pid.lower()}')
    except ImportError:
        traceback.print_exc()
        print(f'no check for {pid}')
        return 2
    from framework import Check
    chk = Check(pid, tier, seed, keep_replays=bool(replay))
    try:
        if replay:
            return mod.replay(chk, replay)
        return mod.run(chk)
    except Exception:
        traceback.print_exc()
        return 2


if __name__ == '__main__':
    sys.exit(main(sys.argv[1:]))
