"""Correspondence PY ≡ Lean matcher model on (document, selector, namespaces, queries) cases."""
import warnings

import bs4
import soupsieve as sv

import driver
import enc
import gen

warnings.simplefilter('ignore', FutureWarning)

OPS = {'select': 0, 'match': 1, 'closest': 2, 'filter': 3, 'select_one': 4}


def materialise(case):
    """Build the bs4 object(s) a case describes.  Returns the top object."""
    if 'markup' in case:
        soup = bs4.BeautifulSoup(case['markup'], case['parser'])
        apply_edits(soup, case.get('edits') or [])
        return soup
    top = _untuple(case['tree'])
    return gen.build_doc(case['kind'], top, detached=case.get('detached', False))


def apply_edits(soup, edits):
    """Edits of a parsed tree through the bs4 API: [path of an element, attribute name, value] -> tag[name] = value.
    The paths are those of the tree as parsed (setting an attribute moves nothing)."""
    for p, k, v in edits:
        enc.node_at(soup, p)[k] = v


def _untuple(t):
    """JSON round trip turns tuples into lists; normalise to the generator's tuples."""
    out = []
    for n in t:
        if n[0] == 'e':
            out.append(('e', n[1], n[2], n[3], [(k, v) for k, v in n[4]], _untuple(n[5])))
        else:
            out.append((n[0], n[1]))
    return out


def py_query(compiled, top, q):
    op, p, arg = q
    tag = enc.node_at(top, p)
    if op == 'select':
        return [enc.path_of(e) for e in compiled.select(tag, arg)]
    if op == 'match':
        return 1 if compiled.match(tag) else 0
    if op == 'closest':
        r = compiled.closest(tag)
        return [] if r is None else [enc.path_of(r)]
    if op == 'filter':
        return [enc.path_of(e) for e in compiled.filter(tag)]
    if op == 'select_one':
        r = compiled.select_one(tag)
        return [] if r is None else [enc.path_of(r)]
    raise ValueError(op)


def run_case_py(case, top=None):
    """Returns ('ok', [results]) or ('exc', type name, message)."""
    try:
        if top is None:
            top = materialise(case)
        compiled = sv.compile(case['selector'], namespaces=case.get('ns') or None, custom=case.get('custom') or None,
                              flags=case.get('flags', 0))
    except Exception as e:
        return ('compile-exc', type(e).__name__, str(e).split('\n')[0]), None, None
    try:
        res = [py_query(compiled, top, q) for q in case['queries']]
    except Exception as e:
        return ('match-exc', type(e).__name__, str(e).split('\n')[0]), top, compiled
    return ('ok', res), top, compiled


def lean_line(case, top, compiled):
    qs = ' '.join(f'({OPS[op]} {enc.path(p)} {arg})' for op, p, arg in case['queries'])
    return (f'(0 {enc.bidi_env(top)} {enc.doc(top)} {enc.sel_list(compiled.selectors)} '
            f'{enc.nsmap(case.get("ns"))} ({qs}))')


def lean_line_e2e(case, top):
    """End-to-end request: the selector TEXT goes to the parser model, its IR to the matcher model."""
    qs = ' '.join(f'({OPS[op]} {enc.path(p)} {arg})' for op, p, arg in case['queries'])
    cs = ' '.join(f'({enc.s(k)} {enc.s(v)})' for k, v in (case.get('custom') or {}).items())
    return (f'(17 {enc.bidi_env(top)} {enc.doc(top)} {enc.s(case["selector"])} ({cs}) '
            f'{enc.nsmap(case.get("ns"))} ({qs}))')


def run_cases(cases, e2e=True):
    """Run all cases on both sides.  Returns (results, stats) where results is a list of dicts
    {case, py, lean, agree}."""
    lines = []
    idx = []
    out = []
    for i, case in enumerate(cases):
        py, top, compiled = run_case_py(case)
        rec = {'case': case, 'py': py, 'lean': None, 'agree': None}
        out.append(rec)
        if py[0] == 'compile-exc':
            continue
        try:
            lines.append(lean_line(case, top, compiled))
            idx.append((i, 'ir'))
            if e2e and not case.get('flags') and not case.get('no_e2e'):
                lines.append(lean_line_e2e(case, top))
                idx.append((i, 'e2e'))
        except Exception as e:   # encoder could not express the case: reported, not hidden
            rec['lean'] = ('encode-exc', repr(e))
    resp = driver.run(lines)
    for (i, which), line in zip(idx, resp):
        rec = out[i]
        if which == 'ir':
            rec['lean'] = enc.parse_sx(line)
            if rec['py'][0] == 'ok':
                rec['agree'] = rec['py'][1] == rec['lean']
            else:
                rec['agree'] = False    # PY raised inside matching: the model never raises
        else:
            r = enc.parse_sx(line)
            rec['lean_e2e'] = r
            ok = rec['py'][0] == 'ok' and isinstance(r, list) and len(r) == 2 and r[0] == 0 and r[1] == rec['py'][1]
            if not ok:
                rec['agree'] = False
                rec['e2e_differs'] = True
    return out
