"""C03: all query entry points are views of one match relation."""
import json
import random
import warnings

import bs4
import soupsieve as sv

import enc
import gen
from props import common_match, c05

warnings.simplefilter('ignore', FutureWarning)
PID = 'C03'
SOURCES = ['SoupVerif/Properties/C03.lean', 'SoupVerif/Properties/C03Wrappers.lean', 'SoupVerif/Lemmas/TreeWalk.lean',
           'SoupVerif/Model/Api.lean', 'SoupVerif/Generated/Wrappers.lean',
           'SoupVerif/Properties/C03Gen.lean', 'SoupVerif/Model/PyApiLoop.lean', 'SoupVerif/Generated/PyApi.lean']
RULE = ('documents (generic and form/iframe documents, four kinds, detached fragments) x selectors (incl. :scope, &, :root, '
        'custom aliases) x call targets (document object, root, inner elements, detached element) x limit in {-1,0,1,2,big} x every '
        'subset of {namespaces, flags, custom} given or omitted. Checked on PY itself: select = matching element descendants '
        'in document order without duplicates and never the target; iselect = select; select_one = first or None; limit k = '
        'first k; filter(tag) = matching element children; filter(list) = matching Tag items in order; closest = nearest '
        'matching ancestor-or-self, never the document; every module-level function = compile(pattern, namespaces, flags, '
        'custom=custom).<same method>. And PY = Lean API model for select / select_one / match / closest / filter. '
        'Non-trivial = the unlimited select result is non-empty.')

CUSTOM = {':--c1': 'div > *', ':--c2': ':is(input, button):enabled'}
NS = {'svg': gen.SVG, 'h': gen.XHTML}


def relations(r, top, sel, ns, custom):
    """Cross-entry-point relations on the real code. Returns list of failures."""
    bad = []
    c = sv.compile(sel, ns, 0, custom=custom)
    els = gen.elements(top)
    targets = [top] + (r.sample(els, min(3, len(els))) if els else [])
    for t in targets:
        full = c.select(t)
        desc = [d for d in t.descendants if isinstance(d, bs4.Tag)]
        exp = [d for d in desc if sv.compile(sel, ns, 0, custom=custom).match(d)] if t is top or True else None
        # match() builds its matcher with scope = the element itself; select uses scope = t.  They agree unless the
        # selector mentions :scope / & ; then compare through closest-free re-evaluation below.
        if ':scope' not in sel and '&' not in sel:
            if [id(x) for x in full] != [id(x) for x in exp]:
                bad.append(('select != [descendants that match]', t))
        if len({id(x) for x in full}) != len(full) or any(x is t for x in full) or any(not isinstance(x, bs4.Tag) for x in full):
            bad.append(('select returned a duplicate, the target or a non-element', t))
        if [id(x) for x in c.iselect(t)] != [id(x) for x in full]:
            bad.append(('iselect != select', t))
        one = c.select_one(t)
        if (one is None) != (not full) or (full and one is not full[0]):
            bad.append(('select_one != first of select', t))
        for k in (-1, 0, 1, 2, 3, 1000):
            got = c.select(t, limit=k)
            want = full if k <= 0 else full[:k]
            if [id(x) for x in got] != [id(x) for x in want]:
                bad.append((f'limit={k}', t))
        kids = [x for x in t.contents if isinstance(x, bs4.Tag)]
        if [id(x) for x in c.filter(t)] != [id(x) for x in kids if c.match(x) or (':scope' in sel or '&' in sel)] and \
                ':scope' not in sel and '&' not in sel:
            bad.append(('filter(tag) != matching element children', t))
        items = list(t.contents)[:6] + els[:3]
        fl = c.filter(items)
        if [id(x) for x in fl] != [id(x) for x in items if isinstance(x, bs4.Tag) and c.match(x)]:
            bad.append(('filter(iterable) != matching Tag items in order', t))
        if isinstance(t, bs4.Tag) and not isinstance(t, bs4.BeautifulSoup):
            cl = c.closest(t)
            chain = [t] + [p for p in t.parents if not isinstance(p, bs4.BeautifulSoup)]
            if ':scope' not in sel and '&' not in sel:
                want = next((p for p in chain if c.match(p)), None)
                if cl is not want:
                    bad.append(('closest != nearest matching ancestor-or-self', t))
            if isinstance(cl, bs4.BeautifulSoup):
                bad.append(('closest returned the document object', t))
        # wrappers: every subset of optional arguments
        for use_ns in (False, True):
            for use_flags in (False, True):
                for use_custom in (False, True):
                    kw = {}
                    if use_ns:
                        kw['namespaces'] = ns
                    if use_flags:
                        kw['flags'] = 0
                    if use_custom:
                        kw['custom'] = custom
                    try:
                        cc = sv.compile(sel, kw.get('namespaces'), kw.get('flags', 0), custom=kw.get('custom'))
                    except Exception as e:
                        cc = e
                    for name in ('select', 'select_one', 'iselect', 'match', 'filter', 'closest'):
                        tgt = t if name not in ('match', 'closest') or not isinstance(t, bs4.BeautifulSoup) else (els[0] if els else None)
                        if tgt is None:
                            continue

                        def norm(v):
                            if v is None or isinstance(v, bool):
                                return v
                            if isinstance(v, bs4.Tag):
                                return id(v)
                            return [id(x) for x in v]
                        try:
                            a = norm(getattr(sv, name)(sel, tgt, **kw))
                        except Exception as e:
                            a = ('exc', type(e).__name__)
                        try:
                            b = norm(getattr(cc, name)(tgt)) if not isinstance(cc, Exception) else ('exc', type(cc).__name__)
                        except Exception as e:
                            b = ('exc', type(e).__name__)
                        if a != b:
                            bad.append((f'sv.{name}(…, {sorted(kw)}) != compile(…).{name}', t))
    # :scope denotes the call target (the root element when called on the document)
    for t in targets:
        sc = sv.select(':scope', t) + sv.select('&', t)
        if isinstance(t, bs4.BeautifulSoup):
            roots = [x for x in t.contents if isinstance(x, bs4.Tag)]
            want_sc = roots[:1] * 2
        else:
            want_sc = []          # the scope element is the target itself, which select never returns
        if [id(x) for x in sc] != [id(x) for x in want_sc]:
            bad.append((':scope / & do not denote the call target (root element for a document)', t))
        if not isinstance(t, bs4.BeautifulSoup) and not (sv.match(':scope', t) and sv.match('&', t)):
            bad.append(('match(:scope, target) is false', t))
        ch = sv.select(':scope > *', t)
        holder = t
        if isinstance(t, bs4.BeautifulSoup):
            roots = [x for x in t.contents if isinstance(x, bs4.Tag)]
            holder = roots[0] if roots else None
        want = [x for x in holder.contents if isinstance(x, bs4.Tag)] if holder is not None else []
        if [id(x) for x in ch] != [id(x) for x in want]:
            bad.append((':scope > * != element children of the scope element', t))
    return bad


def make_cases_factory(state):
    def make_cases(rng, n):
        cases = []
        while len(cases) < n:
            leak_stream = rng.random() < 0.12      # XML-but-not-XHTML / XHTML tree, foreign elements, HTML-only pseudo-class + prefixed name
            kind, top_spec = c05.doc_for(rng, rng.choice(['xml', 'xml', 'xhtml', 'html5']), True) if leak_stream else c05.doc_for(rng)
            detached = rng.random() < 0.12
            top = gen.build_doc(kind, top_spec, detached)
            els = gen.elements(top)
            names = sorted({e.name for e in els})
            for _ in range(3):
                sel = c05.mixed(rng) if leak_stream and rng.random() < 0.8 else c05.sel_text(rng, names)
                if rng.random() < 0.22 and not leak_stream:
                    sel = rng.choice([':scope', ':scope > *', '& > ' + sel, ':scope ' + sel, sel + ':not(:scope)', ':root', ':--c1',
                                      # :scope evaluated on elements other than the target (bs4 compares tags structurally: a twin is not the scope)
                                      ':scope ~ *', ':scope + *', '& ~ * *', ':has(~ :scope)', ':has(+ &)', '*:not(:scope) ~ *', ':is(:scope, & *)',
                                      ':scope ~ ' + sel, ':not(:has(~ :scope))'])
                ns = NS if leak_stream else rng.choice([None, NS])
                try:
                    sv.compile(sel, ns, custom=CUSTOM)
                except Exception:
                    continue
                try:
                    bad = relations(rng, top, sel, ns, CUSTOM)
                except Exception as e:
                    bad = [(f'exception {type(e).__name__}: {e}', top)]
                state['relations'] += 1
                for what, t in bad[:2]:
                    state['bad'].append({'relation': what, 'selector': sel, 'kind': kind, 'tree': top_spec, 'detached': detached,
                                         'target': enc.path_of(t), 'ns': ns})
                qs = []
                tgts = [[]] + [enc.path_of(e) for e in rng.sample(els, min(3, len(els)))]
                for p in tgts:
                    qs.append(('select', p, rng.choice([0, 0, -1, 1, 2, 50])))
                    qs.append(('select_one', p, 0))
                    qs.append(('filter', p, 0))
                    if p or detached:
                        qs.append(('match', p, 0))
                        qs.append(('closest', p, 0))
                cases.append({'kind': kind, 'tree': top_spec, 'detached': detached, 'selector': sel, 'ns': ns, 'custom': CUSTOM,
                              'queries': qs})
        return cases[:n]
    return make_cases


def run(chk):
    state = {'relations': 0, 'bad': []}
    orig = chk.finish

    def finish(**kw):
        chk.coverage.update({'relation_instances': state['relations'], 'relation_violations': len(state['bad'])})
        for i, b in enumerate(state['bad'][:5]):
            chk.violation(f'rel{i}', {'what': 'entry points disagree on the real code', **b}, concrete=True)
        return orig(**kw)
    chk.finish = finish
    return common_match.run(chk, PID, SOURCES, make_cases_factory(state), 700, 40000, RULE,
                            'SoupVerif.Properties.C03 / C03Wrappers / correspondence PY API ≡ Model API',
                            extra_targets=['SoupVerif.Properties.C03Wrappers'])


def replay(chk, path):
    data = json.load(open(path))
    if 'relation' in data:
        import matchcorr
        top = gen.build_doc(data['kind'], matchcorr._untuple(data['tree']), data.get('detached', False))
        bad = relations(random.Random(1), top, data['selector'], data.get('ns'), CUSTOM)
        print(json.dumps({'failures': [b[0] for b in bad]}))
        if bad:
            print(f'VIOLATION property={PID} replay={path}')
            return 1
        return 0
    return common_match.replay(chk, path, PID)
