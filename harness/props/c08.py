"""C08: matching never raises on any tree."""
import json
import random
import warnings

import bs4
import soupsieve as sv

import enc
import gen
import spell
from props import common_match, c05, c17

warnings.simplefilter('ignore')
PID = 'C08'
SOURCES = ['SoupVerif/Properties/C08.lean', 'SoupVerif/Model/Match.lean', 'SoupVerif/Model/Inputs.lean', 'SoupVerif/Model/Tree.lean']
RULE = ('trees: form / generic documents in four kinds, detached fragments, several top-level nodes, foreign and unknown '
        'namespaces; the attributes the state pseudo-classes read (type, min, max, value, dir, lang, name, placeholder, '
        'http-equiv, content) take missing / empty / malformed / boundary / huge STRING values (years 0, 1, 999, 1000, 9999, '
        '10000, 10^8; weeks 00/53/54; 24:00; 1e5, .5, "-."; non-ASCII digits; RTL text; trailing newline); attributes that only '
        'attribute / class / id selectors read additionally take None, ints, floats, bytes, tuples and nested lists through the '
        'bs4 API. Selectors: every pseudo-class of the tables generated from the source, combined. Every entry point (select, '
        'select_one, iselect, match, filter, closest) on the document, the root and inner elements must return; a non-Tag target '
        'must raise TypeError and nothing else. And PY = Lean matcher model. Non-trivial = non-empty result or an odd value present. '
        'Second sweep (odd values x state pseudo-classes): dense form documents (containers turned into <form>, nested forms, '
        'structurally identical forms and controls, comment / CDATA / processing-instruction nodes between controls) carry odd '
        'values on free attributes of ARBITRARY elements (the form, a control, an unrelated descendant, html / head / meta, an '
        'element outside the form); every pseudo-class, alone and under "form X" / ":not(X)" / ":is(X)" / ":has(X)" / "* > X", '
        'is evaluated with EVERY element as the target of match and closest, and the document, the root and sampled elements as '
        'the target of select / select_one / iselect / filter, also reusing one compiled selector over several documents. '
        'Third sweep (rootless targets and frame boundaries): every KIND of element of a form document (stratified by tag and '
        'type, so each control kind is drawn whenever it occurs) becomes a call target that has no parent at all — copied out '
        'of the tree (copy.copy), re-created with the same attributes and never inserted (new_tag), or extracted — and is the '
        'target of match / closest for every pseudo-class and of every entry point for wrapped ones, as are the elements '
        'inside such a fragment and the document left behind; <iframe> elements hold controls / forms / text / another '
        'iframe DIRECTLY (no embedded html / body, as html.parser and XML parsers leave them), and the document, every '
        'element directly inside a frame and the frame itself are targets. A call that does not return is the failing input.')

HOSTILE = ['', ' ', 'x', '0', '-1', '1e5', '1E-400', '.5', '-.', '5.', '1' * 400, '٣', '0000-01-01', '0001-01-01', '0999-12-31', '1000-02-29',
           '9999-12-31', '10000-01-01', '100000000-06-15', '2020-02-30', '2019-W53', '2020-W53', '2020-W00', '2020-W54', '0999-W01', '10000-W52',
           '24:00', '23:60', '00:00', '2020-13', '2020-00', '2020-01-01T24:00', '2020-01-01T10:00', '2020-01-01\n', 'א', 'ab', 'ltr', 'RTL',
           'auto', 'radio', 'checkbox', 'submit', 'date', 'week', 'time', 'month', 'number', 'range', 'datetime-local', 'tel', 'text',
           'content-language', 'en', 'de-*', '*', '\x00', '\ud800', 'a' * 3000, '1' * 5000 + '-01-01', '2' * 4301 + '-W01', '3' * 4400 + '-12']
HUGE = __import__('re').compile(r'[0-9]{4301,}')      # beyond CPython's int-conversion limit: outside the model
STATE_ATTRS = ['type', 'min', 'max', 'value', 'dir', 'lang', 'name', 'placeholder', 'http-equiv', 'content', 'TYPE', 'Dir']
ODD = [None, 5, 2.5, b'bytes', b'', b'\xff', b'a\xc3', [b'\xfe\xff', 'c1'], 'c1 \x85x', ('a', 'b'), ['a', ['b', 'c']], [1, None], True, [], ['x', b'y']]
# the second sweep draws from a wider pool of the same four families (None, numbers, bytes, nested lists), alone and inside lists
ODD2 = ODD + [[None], ['c1', None], ['c1', 3], [2.5, 'a'], [['c1']], [[], 'a'], ['a', ['b', ['c', 1]]], [b'', 'c1'], ('c1', 7), ('a', ('b', 'c')),
              0, -1, 10 ** 30, float('inf'), False, [True, 'c1'], ['c1', 'c2'], 'c1']
FREE_ATTRS = ['title', 'data-x', 'id', 'class', 'rel', 'href2']
ALL_PSEUDO = [':link', ':any-link', ':checked', ':default', ':indeterminate', ':disabled', ':enabled', ':required', ':optional',
              ':placeholder-shown', ':read-write', ':read-only', ':in-range', ':out-of-range', ':dir(ltr)', ':dir(rtl)', ':defined',
              ':root', ':empty', ':scope', ':first-child', ':last-of-type', ':only-child', ':nth-child(2n+1)', ':nth-last-of-type(-n+2)',
              ':lang(en)', ':lang("*-x", "")', ':-soup-contains("a")', ':-soup-contains-own("")', ':hover', ':host', ':is(a, :default)',
              ':not(:in-range)', ':has(> :indeterminate)', ':has(~ :dir(rtl))', '[title]', '[title~=a]', '[data-x|=b i]', '#x', '.c1',
              '[class]', '[id^=i]', 'svg|*', '*|*', '|p', '[*|href]', ':nth-child(1 of :required)']


def mutate(r, t, odd):
    if t[0] != 'e':
        return t
    _, name, prefix, ns, attrs, kids = t
    attrs = list(attrs)
    for _ in range(r.choice([0, 1, 1, 2, 3])):
        attrs.append((r.choice(STATE_ATTRS), r.choice(HOSTILE)))
    if odd:
        for _ in range(r.choice([0, 0, 1, 2])):
            attrs.append((r.choice(FREE_ATTRS), r.choice(ODD)))
    seen, out = set(), []
    for k, v in attrs:
        if k not in seen:
            seen.add(k)
            out.append((k, v))
    if r.random() < 0.05:
        ns = r.choice(['urn:unknown', gen.SVG, ''])
    return ('e', name, prefix, ns, out, [mutate(r, k, odd) for k in kids])


def build(kind, top, detached):
    soup = gen.new_soup(kind)

    def mk(t):
        if t[0] != 'e':
            return gen.STR_CLASSES[t[0]](t[1])
        _, name, prefix, ns, attrs, kids = t
        if ns is None and kind in ('html5', 'xhtml'):
            ns = gen.XHTML
        el = soup.new_tag(name, namespace=ns, nsprefix=prefix)
        for k, v in attrs:
            el.attrs[k] = v
        for c in kids:
            el.append(mk(c))
        return el
    nodes = [mk(t) for t in top]
    if detached:
        return next(n for n in nodes if isinstance(n, bs4.Tag))
    for n in nodes:
        soup.append(n)
    return soup


def jsonable(t):
    if t[0] != 'e':
        return list(t)
    return ['e', t[1], t[2], t[3], [[k, enc_val(v)] for k, v in t[4]], [jsonable(k) for k in t[5]]]


def enc_val(v):
    if isinstance(v, bytes):
        return {'bytes': list(v)}
    if isinstance(v, tuple):
        return {'tuple': [enc_val(x) for x in v]}
    if isinstance(v, list):
        return [enc_val(x) for x in v]
    return v


WRAPS = ['{}', '{}', 'form {}', ':not({})', ':is({}, #none)', ':has({})', '* > {}', 'form > {}', '{} ~ *', ':not(:not({}))']
CONTAINERS = ('div', 'fieldset', 'body')


def densify(r, t, p_form):
    """Turn some containers of a generated form tree into <form> (nested forms included: the object API permits them) and drop
    comment / CDATA / processing-instruction nodes between the controls."""
    if t[0] != 'e':
        return t
    _, name, prefix, ns, attrs, kids = t
    kids = [densify(r, k, p_form) for k in kids]
    if kids and r.random() < 0.15:
        kids.insert(r.randint(0, len(kids)), r.choice([('c', 'x'), ('cd', 'a'), ('pi', 'x y'), ('t', ' '), ('c', '')]))
    if name in CONTAINERS and name != 'body' and any(k[0] == 'e' for k in kids) and r.random() < p_form:
        name = 'form'
    return ('e', name, prefix, ns, list(attrs), kids)


def all_elems(top):
    out, stack = [], list(top)
    while stack:
        t = stack.pop()
        if t[0] == 'e':
            out.append(t)
            stack.extend(t[5])
    return out


def place_odd(r, top, n):
    """Put `n` odd values on free attributes of elements drawn uniformly from the whole tree (in place; `top` holds fresh tuples)."""
    els = all_elems(top)
    placed = 0
    for _ in range(n):
        t = r.choice(els)
        k = r.choice(FREE_ATTRS)
        if all(k != k0 for k0, _ in t[4]):
            t[4].append((k, r.choice(ODD2)))
            placed += 1
    return placed


def entry_points(c, tgt, full, up=True):
    """Every entry point on one target.  `full`: also the ones that walk the subtree; `up`: also the one that walks the ancestors."""
    if full:
        c.select(tgt), c.select_one(tgt), list(c.iselect(tgt)), c.filter(tgt), c.filter(list(tgt.contents))
    if not isinstance(tgt, bs4.BeautifulSoup):
        c.match(tgt)
        if up:
            c.closest(tgt)


def odd_state_sweep(chk, rng, raised):
    """Odd free-attribute values anywhere in dense form documents x every pseudo-class x every element as the target."""
    quick = chk.tier == 'quick'
    n_docs = 220 if quick else 2000
    n_sel = 6 if quick else 12
    docs_with_form_submit = targets = nonvacuous = odd_placed = 0
    compiled = {}
    for _ in range(n_docs):
        kind, top = gen.gen_state_doc(rng)
        p_form = rng.choice([0.0, 0.3, 0.6, 1.0, 1.0])
        top = [mutate(rng, densify(rng, t, p_form), False) for t in top]
        if rng.random() < 0.5:
            # structurally identical twins (bs4 compares and hashes tags by content): a copy of a whole subtree next to it
            host = rng.choice([t for t in all_elems(top) if t[5]] or [None])
            if host is not None:
                src = rng.choice(host[5])
                host[5].insert(rng.randint(0, len(host[5])), mutate(rng, src, False) if rng.random() < 0.3 else copy_tree(src))
        odd_placed += place_odd(rng, top, rng.choice([1, 1, 2, 3, 5]))
        detached = rng.random() < 0.1
        try:
            soup = build(kind, top, detached)
        except Exception:
            continue
        els = gen.elements(soup) or [soup]
        if any(e.name == 'form' and e.find(lambda x: x.name in ('button', 'input') and str(x.attrs.get('type', '')).lower() == 'submit')
               for e in els):
            docs_with_form_submit += 1

        def fail(sel, tgt, e):
            raised.append({'selector': sel, 'kind': kind, 'tree': [jsonable(t) for t in top], 'detached': detached,
                           'target': enc.path_of(tgt), 'exception': f'{type(e).__name__}: {e}', 'sweep': 'odd x state'})
        # (a) every pseudo-class of the table, bare, over the whole document; remember the ones that select something here
        alive = []
        for ps in ALL_PSEUDO:
            if ps not in compiled:
                compiled[ps] = sv.compile(ps, {'svg': gen.SVG})
            targets += 1
            try:
                if compiled[ps].select(soup):
                    alive.append(ps)
            except Exception as e:
                fail(ps, soup, e)
        nonvacuous += len(alive)
        # (b) a sample of them (mostly the non-vacuous ones) in context, with every element as the target
        sels = []
        picked = rng.sample(alive, min(len(alive), n_sel - 2))
        for ps in picked + rng.sample(ALL_PSEUDO, n_sel - len(picked)):
            sel = rng.choice(WRAPS).format(ps)
            if rng.random() < 0.2:
                sel += rng.choice(ALL_PSEUDO)
            sels.append(sel)
        for sel in sels:
            if sel not in compiled:
                try:
                    compiled[sel] = sv.compile(sel, {'svg': gen.SVG})      # one compiled object serves many documents
                except Exception:
                    compiled[sel] = None
            c = compiled[sel]
            if c is None:
                continue
            # match on EVERY element; the subtree walkers on the document, the root and one more element; closest from a few
            # elements (it evaluates the same match on each ancestor, so leaves-to-root paths are covered without a quadratic cost)
            full = {id(soup), id(els[0]), id(rng.choice(els))}
            up = {id(e) for e in rng.sample(els, min(5 if quick else 12, len(els)))}
            for tgt in [soup] + els:
                targets += 1
                try:
                    entry_points(c, tgt, id(tgt) in full, id(tgt) in up)
                except Exception as e:
                    fail(sel, tgt, e)
                    break
    chk.coverage.update({'odd_state_documents': n_docs, 'odd_state_documents_with_form_and_submit': docs_with_form_submit,
                         'odd_state_odd_values_placed': odd_placed, 'odd_state_target_evaluations': targets,
                         'odd_state_nonvacuous_pseudo_document_pairs': nonvacuous,
                         'odd_state_distinct_selectors': len([c for c in compiled.values() if c])})
    return targets


def copy_tree(t):
    if t[0] != 'e':
        return t
    return ('e', t[1], t[2], t[3], list(t[4]), [copy_tree(k) for k in t[5]])


def degenerate_sweep(chk, rng, raised):
    """Trees at the small end: a document object with NO element at all (empty input, text only, comment / doctype / PI only,
    all children extracted), a document whose only element is empty, a detached element without children, a document
    object emptied after parsing — every entry point, called on the document object and (where there is one) on the element."""
    import bs4
    import soupsieve as sv
    docs = []
    for parser in ('html.parser', 'lxml', 'html5lib', 'xml'):
        for markup in ('', ' ', 'just text', '<!-- only a comment -->', '<!DOCTYPE html>', '<?pi x?>', '<!DOCTYPE html><!-- c -->text'):
            try:
                docs.append((f'{parser}:{markup!r}', bs4.BeautifulSoup(markup, parser)))
            except Exception:       # noqa: BLE001  (a parser may refuse the input; that is not the library under test)
                pass
    for parser in ('html.parser', 'xml'):
        d = bs4.BeautifulSoup('<a><b>t</b></a>', parser)
        for c in list(d.contents):
            c.extract()
        docs.append((f'{parser}:emptied', d))
        d2 = bs4.BeautifulSoup('<a></a>', parser)
        docs.append((f'{parser}:<a/>', d2))
        e = bs4.BeautifulSoup('<a><b></b></a>', parser).b.extract()
        docs.append((f'{parser}:detached <b/>', e))
    sels = ALL_PSEUDO + ['*', 'p', 'a b', ':root > *', ':not(*)', ':has(*)', '* ~ *', ':is(a, b):empty']
    calls = 0
    for label, top in docs:
        targets = [top] + [t for t in top.find_all(True)][:2]
        for sel in (sels if chk.tier != 'quick' else rng.sample(sels, 14) + ['*', ':root', ':scope', ':lang(en)', ':dir(ltr)', ':first-child']):
            for tgt in targets:
                for what, fn in (('select', lambda: sv.select(sel, tgt)), ('select_one', lambda: sv.select_one(sel, tgt)),
                                 ('iselect', lambda: list(sv.iselect(sel, tgt))), ('match', lambda: sv.match(sel, tgt)),
                                 ('closest', lambda: sv.closest(sel, tgt)), ('filter', lambda: sv.filter(sel, tgt)),
                                 ('Tag.select', lambda: tgt.select(sel)), ('Tag.select_one', lambda: tgt.select_one(sel))):
                    calls += 1
                    try:
                        fn()
                    except Exception as e:      # noqa: BLE001
                        raised.append({'what': f'{what} raised {type(e).__name__} on a degenerate tree', 'selector': sel,
                                       'degenerate_document': label, 'target_is_document': tgt is top,
                                       'exception': f'{type(e).__name__}: {e}'[:200]})
                        break
    chk.coverage['degenerate_documents'] = len(docs)
    chk.coverage['degenerate_calls'] = calls
    return calls


DEEP_SHAPES = [
    ('<div>', '</div>', '<span id="leaf" dir="auto">x</span>', ''),
    ('<b>', '</b>', '\u05d0\u05d1<i id="leaf"></i>', ' dir="auto"'),
    ('<fieldset>', '</fieldset>', '<input id="leaf" type="radio" name="g"><input type="submit">', ''),
    ('<span>', '</span>', '<input id="leaf" type="text" dir="auto" value=""><bdi>1</bdi>', ' lang="de-CH"'),
]


def deep_doc(k, depth):
    import bs4
    o, c, leaf, pattr = DEEP_SHAPES[k]
    return bs4.BeautifulSoup(f'<html><body><form><p id="top"{pattr}>' + o * depth + leaf + c * depth + '</p></form></body></html>',
                             'html.parser')


def deep_sweep(chk, rng, raised):
    """Trees nested deeper than the interpreter's recursion limit (a chain of `depth` elements around a leaf, in the shapes
    that make a walk long: plain chain, chain under dir=auto with the first strong character at the bottom, chain of
    fieldsets / forms / labels around a control, chain below an element with lang): every pseudo-class of ALL_PSEUDO plus
    combinator forms, through select / select_one / match / closest / filter, from the top and from the deepest element.
    `depth` is a multiple of sys.getrecursionlimit() so the check does not depend on the limit in force."""
    import sys
    import bs4
    import soupsieve as sv
    quick = chk.tier == 'quick'
    depth = int(sys.getrecursionlimit() * (1.15 if quick else 2.5))
    shapes = DEEP_SHAPES
    sels = list(ALL_PSEUDO) + ['div div span', 'p > * > *', '* ~ *', ':not(:dir(rtl))', ':has(#leaf)', 'p :dir(rtl)', '#leaf:dir(ltr)',
                               ':is(fieldset, b, span, div):disabled', 'form :default', ':lang(de)']
    calls = 0
    for k, (o, c, leaf, pattr) in enumerate(shapes):
        soup = deep_doc(k, depth)
        top, lf = soup.find(id='top'), soup.find(id='leaf')
        if lf is None:
            continue
        # whole-tree selects are quadratic for some selectors at this depth: the quick tier asks about single elements
        # (the deepest one, whose ancestor walks are the longest) for every selector and selects with a few
        whole = set(sels if not quick else [':dir(rtl)', rng.choice(ALL_PSEUDO)])
        climb = set(sels if not quick else rng.sample(sels, len(sels) // 4) + [':dir(ltr)', ':lang(en)', ':disabled'])
        for sel in sels:
            entry = [('match leaf', lambda: sv.match(sel, lf)), ('match top', lambda: sv.match(sel, top))]
            if sel in climb:
                entry.append(('closest leaf', lambda: sv.closest(sel, lf)))
            if sel in whole:
                entry += [('select', lambda: sv.select(sel, soup)), ('select_one', lambda: sv.select_one(sel, top)),
                          ('filter top', lambda: sv.filter(sel, top))]
            for what, fn in entry:
                calls += 1
                try:
                    fn()
                except Exception as e:      # noqa: BLE001
                    raised.append({'what': f'{what} raised {type(e).__name__} on a tree nested {depth} deep', 'selector': sel,
                                   'deep_shape': k, 'depth': depth, 'exception': type(e).__name__})
                    break
    chk.coverage['deep_tree_depth'] = depth
    chk.coverage['deep_tree_calls'] = calls
    return calls


def hoist_iframes(r, t, p):
    """Frame content without the embedded html / body: parsers that keep the markup inside <iframe> as elements (html.parser, XML
    parsers) put whatever the author wrote directly under the iframe element — controls, a form, text, another iframe.  With
    probability `p` per iframe the embedded document is replaced by (some of) its body's children; empty iframes get controls."""
    if t[0] != 'e':
        return t
    _, name, prefix, ns, attrs, kids = t
    kids = [hoist_iframes(r, k, p) for k in kids]
    if name == 'iframe' and r.random() < p:
        inner = [k for k in kids if k[0] == 'e' and k[1] == 'html']
        pool = []
        for h in inner:
            for b in h[5]:
                pool.extend(b[5] if b[0] == 'e' and b[1] == 'body' else [b])
        pool = [k for k in pool if r.random() < 0.8] + [gen.gen_control(r) for _ in range(r.choice([0, 1, 1, 2]))]
        x = r.random()
        if x < 0.55:
            kids = pool                                                   # controls / text directly inside the frame
        elif x < 0.7:
            kids = [('e', 'form', None, None, [], pool)]                  # a form is the frame's only child
        elif x < 0.8:
            kids = [('e', 'body', None, None, [], pool)]                  # body without html
        elif x < 0.9:
            kids = [('e', 'iframe', None, None, [], pool)] + [gen.gen_control(r)]     # frame directly inside a frame
        else:
            kids = pool + inner                                           # controls next to an embedded document
    return ('e', name, prefix, ns, list(attrs), kids)


ROOTLESS_VARIANTS = ('copy', 'new_tag', 'extract')


def make_rootless(soup, el, variant):
    """`el` of `soup` as an element that has no parent at all (not even a document object)."""
    import copy
    if variant == 'copy':
        return copy.copy(el)
    if variant == 'new_tag':
        return soup.new_tag(el.name, namespace=el.namespace, nsprefix=el.prefix, attrs=dict(el.attrs))
    return el.extract()


def stratum(el):
    a = el.attrs
    return (el.name, str(a.get('type', '')).lower(), bool(a.get('name')), 'checked' in a, el.parent is not None and el.parent.name == 'iframe')


def open_radio(el):
    """A radio button that belongs to a named group and is not checked: the state pseudo-classes look for its form owner."""
    a = el.attrs
    return el.name == 'input' and str(a.get('type', '')).lower() == 'radio' and bool(a.get('name')) and 'checked' not in a


def rootless_sweep(chk, rng, raised):
    """Call targets without any parent, and elements directly inside a frame element (see RULE, third sweep).  Returns the number
    of calls made; stops at the first call that does not return (each one costs the watchdog's whole limit)."""
    import framework
    quick = chk.tier == 'quick'
    n_docs = 90 if quick else 1500
    compiled = {}

    def comp(sel):
        if sel not in compiled:
            try:
                compiled[sel] = sv.compile(sel, {'svg': gen.SVG})
            except Exception:       # noqa: BLE001
                compiled[sel] = None
        return compiled[sel]
    calls = n_rootless = n_in_frame = n_radio_open = n_frame_radio_open = 0
    by_variant = dict.fromkeys(ROOTLESS_VARIANTS, 0)
    kinds_seen = set()

    class Stop(Exception):
        pass

    def guarded(rec, fn):
        """One call into the library; any exception is recorded with `rec`, a non-returning call also ends the sweep."""
        nonlocal calls
        calls += 1
        try:
            fn()
            return True
        except Exception as e:      # noqa: BLE001
            hang = isinstance(e, framework.LibraryDidNotTerminate)
            raised.append({**rec, 'what': 'a call into the library did not return' if hang else 'matching raised',
                           'exception': f'{type(e).__name__}: {e}'[:200], 'sweep': 'rootless / frame boundary'})
            if hang:
                raise Stop()
            return False

    def drive(rec, tgt, sels_all, sels_full):
        """match + closest with every selector of `sels_all`, every entry point with the ones of `sels_full`."""
        for sel in sels_all:
            c = comp(sel)
            if c is not None and not guarded({**rec, 'selector': sel}, lambda: (c.match(tgt), c.closest(tgt))):
                return
        for sel in sels_full:
            c = comp(sel)
            if c is not None and not guarded({**rec, 'selector': sel}, lambda: entry_points(c, tgt, True)):
                return

    try:
        for _ in range(n_docs):
            kind, top = gen.gen_state_doc(rng)
            top = [mutate(rng, hoist_iframes(rng, densify(rng, t, rng.choice([0.0, 0.3, 1.0])), 0.7), False) for t in top]
            if rng.random() < 0.3:
                place_odd(rng, top, rng.choice([1, 2]))
            try:
                soup = build(kind, top, False)
            except Exception:       # noqa: BLE001
                continue
            tree = [jsonable(t) for t in top]
            els = gen.elements(soup)
            if not els:
                continue
            base = {'kind': kind, 'tree': tree, 'detached': False}
            # (a) the whole document (frames hold their content directly), then every element directly inside a frame and the frames
            for ps in rng.sample(ALL_PSEUDO, 12 if quick else len(ALL_PSEUDO)) + [':indeterminate', ':default', ':checked', ':dir(rtl)', ':root']:
                c = comp(ps)
                guarded({**base, 'selector': ps, 'target': []}, lambda: (c.select(soup), c.select_one(soup), list(c.iselect(soup)), c.filter(soup)))
            framed = [e for e in els if e.name == 'iframe' or (e.parent is not None and e.parent.name == 'iframe')]
            n_in_frame += len(framed)
            n_frame_radio_open += sum(1 for e in framed if open_radio(e))
            for e in framed[:8 if quick else 40]:
                drive({**base, 'target': enc.path_of(e)}, e, ALL_PSEUDO, [rng.choice(WRAPS).format(rng.choice(ALL_PSEUDO))])
            # (b) one element of every kind present (tag, type, named?, checked?, directly inside a frame?) as a ROOTLESS target
            strata = {}
            for e in els:
                strata.setdefault(stratum(e), []).append(e)
            keys = sorted(strata, key=repr)
            rng.shuffle(keys)
            for key in keys[:10 if quick else 40]:
                e = rng.choice(strata[key])
                path = enc.path_of(e)
                variant = rng.choice(ROOTLESS_VARIANTS)
                doc = soup
                if variant == 'extract':            # extraction changes the document: work on a fresh one
                    doc = build(kind, top, False)
                    e = enc.node_at(doc, path)
                try:
                    tgt = make_rootless(doc, e, variant)
                except Exception:       # noqa: BLE001  (bs4 could not copy an odd attribute value: not the library under test)
                    continue
                n_rootless += 1
                by_variant[variant] += 1
                kinds_seen.add(key[:2])
                n_radio_open += open_radio(tgt)
                rec = {**base, 'target': path, 'rootless': variant}
                drive(rec, tgt, ALL_PSEUDO, [rng.choice(WRAPS).format(rng.choice(ALL_PSEUDO)) for _ in range(2)])
                # elements INSIDE the rootless fragment (their ancestor chain ends at an element, not at a document object)
                inner = gen.elements(tgt)[1:]
                for sub in rng.sample(inner, min(3, len(inner))):
                    drive({**rec, 'inner': enc.path_of(sub)}, sub, rng.sample(ALL_PSEUDO, 10) + [':indeterminate', ':default', ':dir(ltr)'], [])
                if variant == 'extract':            # and the document the element was taken out of
                    ps = rng.choice(ALL_PSEUDO)
                    guarded({**rec, 'selector': ps, 'remainder': True}, lambda: entry_points(comp(ps), doc, True))
    except Stop:
        chk.notes['rootless_sweep'] = 'stopped at the first call that did not return'
    chk.coverage.update({'rootless_documents': n_docs, 'rootless_targets': n_rootless, 'rootless_targets_by_variant': by_variant,
                         'rootless_element_kinds': len(kinds_seen), 'rootless_named_unchecked_radios': n_radio_open,
                         'frame_boundary_elements': n_in_frame, 'frame_boundary_named_unchecked_radios': n_frame_radio_open,
                         'rootless_calls': calls})
    return calls


def run(chk):
    import framework
    import matchcorr
    import driver
    proof_ok = framework.lean_pipeline(chk, SOURCES)
    driver_ok = proof_ok or chk.build(['svdriver'])[0]
    rng = random.Random(chk.seed)
    quick = chk.tier == 'quick'
    n_docs = 400 if quick else 7000
    raised, corr_bad = [], []
    evaluations = nontriv = 0
    lines, expect = [], []
    for _ in range(n_docs):
        kind, top = gen.gen_state_doc(rng) if rng.random() < 0.6 else gen.gen_doc(rng)
        odd = rng.random() < 0.5
        top = [mutate(rng, t, odd) for t in top]
        detached = rng.random() < 0.1
        try:
            soup = build(kind, top, detached)
        except Exception:
            continue
        els = gen.elements(soup) or [soup]
        for _ in range(5):
            sel = ''.join(rng.sample(ALL_PSEUDO, rng.choice([1, 1, 2])))
            if rng.random() < 0.3:
                sel = rng.choice(['input', 'div', '*', 'p']) + rng.choice([' ', ' > ', ' ~ ', '']) + sel
            try:
                c = sv.compile(sel, {'svg': gen.SVG})
            except Exception:
                continue
            tgt = rng.choice([soup] + els[:3])
            evaluations += 1
            res = None
            try:
                res = [c.select(tgt), c.select_one(tgt), list(c.iselect(tgt, 2)), c.filter(tgt), c.filter(list(tgt.contents)[:5])]
                if not isinstance(tgt, bs4.BeautifulSoup):
                    res += [c.match(tgt), c.closest(tgt)]
            except Exception as e:
                raised.append({'selector': sel, 'kind': kind, 'tree': [jsonable(t) for t in top], 'detached': detached,
                               'target': enc.path_of(tgt), 'exception': f'{type(e).__name__}: {e}'})
                continue
            if odd or res[0]:
                nontriv += 1
            if driver_ok and rng.random() < 0.5 and not HUGE.search(json.dumps([jsonable(t) for t in top], default=repr)):
                case = {'selector': sel, 'ns': {'svg': gen.SVG}, 'queries': [('select', enc.path_of(tgt), 0)]}
                try:
                    lines.append(matchcorr.lean_line(case, enc.top_of(tgt), c))
                    expect.append(([[enc.path_of(e) for e in res[0]]], sel, kind, top, detached))
                except Exception as e:
                    corr_bad.append({'what': f'encoder: {e!r}', 'selector': sel})
        # non-Tag targets raise TypeError only
        for badt in ('x', None, 5, bs4.NavigableString('t')):
            for fn in (sv.select, sv.match, sv.closest, sv.select_one):
                try:
                    fn('p', badt)
                    raised.append({'what': f'{fn.__name__} accepted a non-Tag target {badt!r}'})
                except TypeError:
                    pass
                except Exception as e:
                    raised.append({'what': f'{fn.__name__}({badt!r}) raised {type(e).__name__} instead of TypeError'})
    evaluations += degenerate_sweep(chk, random.Random(chk.seed * 17 + 8), raised)
    evaluations += deep_sweep(chk, random.Random(chk.seed * 31 + 8), raised)
    n_before = len(raised)
    sweep_calls = rootless_sweep(chk, random.Random(chk.seed * 104729 + 8), raised)
    if not any('did not return' in str(b.get('what')) for b in raised[n_before:]):      # every further hang costs the watchdog's limit
        sweep_calls += odd_state_sweep(chk, random.Random(chk.seed * 7919 + 8), raised)
    evaluations += sweep_calls
    nontriv += sweep_calls
    if driver_ok:
        for (py, sel, kind, top, detached), resp in zip(expect, driver.run(lines)):
            if enc.parse_sx(resp) != py:
                corr_bad.append({'selector': sel, 'kind': kind, 'tree': [jsonable(t) for t in top], 'detached': detached, 'py': py,
                                 'model': enc.parse_sx(resp)})
    chk.samples = [{'hostile_values': HOSTILE[:12]}, {'odd_values': [repr(o) for o in ODD]}]
    chk.coverage.update({'documents': n_docs, 'calls': evaluations, 'exceptions': len(raised), 'model_comparisons': len(lines),
                         'py_vs_model_mismatches': len(corr_bad)})
    for i, b in enumerate(raised[:5]):
        chk.violation(f'exc{i}', {'what': 'matching raised', **b}, concrete=True)
    if not raised:
        for i, b in enumerate(corr_bad[:3]):
            chk.violation(f'corr{i}', {'correspondence': 'PY select ≡ Model select on hostile trees', **b}, concrete=True)
    if not proof_ok and not (raised or corr_bad):
        chk.violation('proof', {'what': 'proof obligation no longer checks; no tree found on which matching raises',
                                'theorem_or_correspondence': 'SoupVerif.Properties.C08', 'detail': chk.notes.get('proof_broken')}, concrete=False)
    return chk.finish(rule=RULE, evaluations=evaluations, distinct=nontriv)


def dec_val(v):
    if isinstance(v, dict) and 'bytes' in v:
        return bytes(v['bytes'])
    if isinstance(v, dict) and 'tuple' in v:
        return tuple(dec_val(x) for x in v['tuple'])
    if isinstance(v, list):
        return [dec_val(x) for x in v]
    return v


def replay(chk, path):
    data = json.load(open(path))
    if 'degenerate_document' in data:
        parser, _, rest = data['degenerate_document'].partition(':')
        if rest == 'emptied':
            top = bs4.BeautifulSoup('<a><b>t</b></a>', parser)
            for c in list(top.contents):
                c.extract()
        elif rest == '<a/>':
            top = bs4.BeautifulSoup('<a></a>', parser)
        elif rest.startswith('detached'):
            top = bs4.BeautifulSoup('<a><b></b></a>', parser).b.extract()
        else:
            import ast
            top = bs4.BeautifulSoup(ast.literal_eval(rest), parser)
        sel = data['selector']
        for tgt in [top] + top.find_all(True)[:2]:
            for fn in (lambda: sv.select(sel, tgt), lambda: sv.select_one(sel, tgt), lambda: list(sv.iselect(sel, tgt)), lambda: sv.match(sel, tgt),
                       lambda: sv.closest(sel, tgt), lambda: sv.filter(sel, tgt), lambda: tgt.select(sel), lambda: tgt.select_one(sel)):
                try:
                    fn()
                except Exception as e:      # noqa: BLE001
                    print(json.dumps({'exception': f'{type(e).__name__}: {e}'[:200]}))
                    print(f'VIOLATION property={PID} replay={path}')
                    return 1
        print(json.dumps({'exception': None}))
        return 0
    if 'deep_shape' in data:
        soup = deep_doc(data['deep_shape'], data['depth'])
        top, lf, sel = soup.find(id='top'), soup.find(id='leaf'), data['selector']
        for fn in (lambda: sv.select(sel, soup), lambda: sv.select_one(sel, top), lambda: sv.match(sel, lf), lambda: sv.closest(sel, lf),
                   lambda: sv.match(sel, top), lambda: sv.filter(sel, top)):
            try:
                fn()
            except Exception as e:      # noqa: BLE001
                print(json.dumps({'exception': type(e).__name__}))
                print(f'VIOLATION property={PID} replay={path}')
                return 1
        print(json.dumps({'exception': None}))
        return 0
    if 'tree' not in data:
        return 0

    def un(t):
        if t[0] != 'e':
            return tuple(t)
        return ('e', t[1], t[2], t[3], [(k, dec_val(v)) for k, v in t[4]], [un(k) for k in t[5]])
    soup = build(data['kind'], [un(t) for t in data['tree']], data.get('detached', False))
    tgt = enc.node_at(soup, data['target']) if 'target' in data else soup
    if data.get('rootless'):        # the target is taken out of the tree first (copy / new_tag / extract)
        tgt = make_rootless(soup, tgt, data['rootless'])
        if data.get('inner'):
            tgt = enc.node_at(tgt, data['inner'])
        elif data.get('remainder'):
            tgt = soup
    try:
        c = sv.compile(data['selector'], {'svg': gen.SVG})
        entry_points(c, tgt, True)
        print('no exception')
        return 0
    except Exception as e:
        print(repr(e))
        print(f'VIOLATION property={PID} replay={path}')
        return 1
