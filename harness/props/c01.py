"""C01: select() returns exactly the elements CSS designates."""
import gen
from props import common_match

PID = 'C01'
SOURCES = ['SoupVerif/Properties/C01.lean', 'SoupVerif/Model/Match.lean', 'SoupVerif/Model/Tree.lean',
           'SoupVerif/Model/Regex.lean', 'SoupVerif/Model/Api.lean',
           'SoupVerif/Generated/PyAttrs.lean', 'SoupVerif/Properties/C01GenAttrs.lean',
           'SoupVerif/Model/RelBranch.lean', 'SoupVerif/Generated/PyRelations.lean', 'SoupVerif/Properties/C01GenRel.lean']
RULE = ('documents: random trees over a 7-tag / 4-id / 3-class / 4-attribute vocabulary, built through the bs4 API as '
        'html (no namespaces), html5 (XHTML namespace), xhtml and xml, with and without interleaved text / comment / '
        'CDATA / PI nodes, several top-level nodes, detached fragments; selectors: random ASTs of the C01 grammar '
        '(type, universal, id, class, every attribute operator and flag, four combinators, lists, '
        ':not/:is/:where/:matches/:has nested, structural pseudo-classes) rendered to text, 30% of them containing an attribute selector derived from an attribute value present in the document (whole / prefix / suffix / piece / word / dash-prefix, case mangled, i/s flags); every case is run through the IR-level tie (PY-compiled IR -> matcher model) and the end-to-end tie (selector text -> parser model -> matcher model); queries: select from the '
        'top, select from an inner element, match on elements. In addition n/3 cases on documents with REPEATED CONTENT: 1-3 subtrees of a random tree are repeated elsewhere in the same document (under another parent, at another depth, at top level, inside themselves, in the same parent at another position; exact copies, copies wrapped in a fresh element, near-copies differing in one deep attribute / text node), so that distinct elements with equal name, attributes and content (== and equal hash for bs4) have different ancestors and siblings; 75% of their selectors are read off an actual path of the document (a chosen element, some of its ancestors, sometimes a preceding sibling, each described by its own type / id / class / attribute, joined by the combinators that hold: descendant, child, +, ~), used plain, as subject:not(path), :not(path), :is/:where/:matches(path), anchor:has(rest of path), :is(prefix) rest, path *, or in a list with a random selector; the rest are random ASTs. A case is non-trivial when some query returns a '
        'non-empty result; distinct = distinct (selector, tree) pairs among those. In addition n/4 cases on documents with '
        'STRUCTURED ATTRIBUTE VALUES: values of title / data-x / href / rel / lang / type / alt are composed of 1-4 mixed-case '
        'words joined by blanks, tabs, dashes and (65% of the values) line breaks (LF, CR LF, CR, FF, blank+LF, dash+LF, LF+dash, '
        'doubled LF; also VT / NEL / LS, which are not CSS white space), with optional leading / trailing separators; a document '
        'draws from a pool of 3-5 values plus their one-line and case-changed variants, so that elements differ in exactly the '
        'aspect a selector tests; 70% built through the bs4 API (html, html5, xhtml, xml), 30% serialised and parsed by html.parser / '
        'lxml / html5lib / lxml-xml (line breaks literal or as character references); selectors are derived from a value the built '
        'document holds: every operator with an operand cut at word / line / dash boundaries (whole value, first line, text after '
        'the last line break, last word, inner words, a dash prefix, two words) or at random, case mangled, every spelling of the i / s '
        'flags and none, double-quoted / single-quoted / unquoted operand, the attribute name case mangled, used alone, with a type, '
        'doubled on one compound, negated, in :is / :has, before a combinator or in a list. In addition n/4 cases on documents with '
        'MIXED-CASE ATTRIBUTE NAMES held by the tree: 60% built through the bs4 API (html, html5, xhtml, xml) with a per-document pool '
        'of 2-3 names in 2-3 spellings each (dataKey / datakey / DATAKEY, ID, Class, hRef, viewBox ...; rarely names differing in a '
        'non-ASCII letter or look-alike: É / é, KELVIN SIGN / k, LONG S / s), generated attributes re-spelled, two spellings of one '
        'name on one element, namespaced attributes with a mixed-case local name (html5 / xhtml); 40% written as markup with SVG / '
        'MathML islands (and HTML inside foreignObject) whose elements carry the attributes the HTML parsing algorithm re-spells '
        '(viewBox, preserveAspectRatio, gradientUnits, textLength, definitionURL ...), written in any case, parsed by html5lib '
        '(half of them), html.parser, lxml, lxml-xml, half of the HTML-parsed trees then edited through the API (tag[Name] = value); '
        'selectors name an attribute the built document holds (75% one whose name has an upper-case letter), spelled as the document '
        'does, lower-case, upper-case or mangled, as presence test or with any operator / flag, as #id / .class for ID / Class, as '
        '*|name, ns|name, prefix\\:name for namespaced ones, used alone, with a type, doubled, negated, in :is / :where / :has, around a '
        'combinator or in a list.')


def make_cases(rng, n, stats=None, vstats=None, nstats=None):
    stats = {} if stats is None else stats
    vstats = {} if vstats is None else vstats
    nstats = {} if nstats is None else nstats
    cases = []
    feats = {}
    while len(cases) < n:
        kind, top = gen.gen_doc(rng)
        detached = rng.random() < 0.1
        probe = gen.build_doc(kind, top, detached)
        els = gen.elements(probe)
        import enc
        for _ in range(4):
            sel = gen.gen_list(rng, 0, feats)
            tops = [t for t in top if t[0] == 'e']
            if len(tops) >= 2 and rng.random() < 0.4:
                # siblings directly under the document object: sibling combinators apply, parent combinators do not
                i = rng.randrange(len(tops) - 1)
                a, b = tops[i][1], tops[rng.randrange(i + 1, len(tops))][1]
                sel = rng.choice([f'{a} + {b}', f'{a} ~ {b}', '* + *', ':not(* ~ *)', f'{a} ~ {b} > *', f':has(~ {b})', f'{a}:has(+ {b})',
                                  f'{a} + {b} *', f':is({a}, {b}) ~ *', f'* > {b}', f'* {b}', f':not(* > {b})'])
            elif els and rng.random() < 0.3:
                a = gen.gen_attr_sel_for(rng, els)
                sel = rng.choice([a, a, rng.choice(gen.TAGS) + a, f':not({a})', f':is({a}, {sel})', f'{a} > *', f':has(> {a})'])
            queries = [('select', [], 0)]
            if els:
                queries.append(('select', enc.path_of(rng.choice(els)), 0))
                queries.append(('match', enc.path_of(rng.choice(els)), 0))
                queries.append(('match', enc.path_of(rng.choice(els)), 0))
            cases.append({'kind': kind, 'tree': top, 'detached': detached, 'selector': sel, 'queries': queries})
    cases = cases[:n]
    # repeated content: drawn from a generator of its own (seeded from `rng` after the cases above, which are unchanged)
    import random
    cases += make_repeat_cases(random.Random(rng.getrandbits(64)), n // 3, stats)
    # structured (multi-word, multi-line, dashed, mixed-case) attribute values, again from a generator of its own
    cases += make_attr_value_cases(random.Random(rng.getrandbits(64)), n // 4, vstats)
    # mixed-case attribute NAMES held by the tree (API-built, html5lib foreign content, API edits of parsed trees)
    cases += make_attr_name_cases(random.Random(rng.getrandbits(64)), n // 4, nstats)
    return cases


def make_repeat_cases(rng, n, stats):
    """Documents in which the same subtree occurs at several places (under different ancestors, at different depths,
    at top level, inside itself, after different siblings; exact copies and near-copies), probed with selectors read
    off actual paths of the document (descendant / child / sibling chains, plain, negated, inside :is/:where/:has) and
    with random selectors.  Two distinct elements with equal name, attributes and content are indistinguishable to
    bs4's == and hash; CSS designates elements, so each must be judged by its own ancestors and siblings."""
    import enc
    cases = []
    feats = {}
    stats.update({'documents': 0, 'cases': 0, 'path_selectors': 0, 'random_selectors': 0, 'grafts': {},
                  'documents_with_equal_elements_in_different_parents': 0})
    while len(cases) < n:
        small = rng.random() < 0.6
        kind, top = gen.gen_doc(rng, max_depth=rng.choice([2, 3]), fan=rng.choice([2, 3])) if small else gen.gen_doc(rng)
        top, gs = gen.graft_copies(rng, top)
        for k, v in gs.items():
            stats['grafts'][k] = stats['grafts'].get(k, 0) + v
        detached = rng.random() < 0.1
        probe = gen.build_doc(kind, top, detached)
        els = gen.elements(probe)
        stats['documents'] += 1
        # measured on the built document, with bs4's own notion of equality: two elements that are == and hash alike
        # but have different parents
        seen = {}
        for e in els:
            if e.contents:
                seen.setdefault(e, set()).add(id(e.parent))
        if any(len(v) > 1 for v in seen.values()):
            stats['documents_with_equal_elements_in_different_parents'] += 1
        chains = gen.elem_chains(top[:1 + next(i for i, t in enumerate(top) if t[0] == 'e')] if detached else top)
        for _ in range(6):
            if rng.random() < 0.75:
                sel = gen.gen_path_sel(rng, top, chains, feats)
                stats['path_selectors'] += 1
            else:
                sel = gen.gen_list(rng, 0, feats)
                stats['random_selectors'] += 1
            queries = [('select', [], 0)]
            if els:
                queries.append(('select', enc.path_of(rng.choice(els)), 0))
                queries.append(('match', enc.path_of(rng.choice(els)), 0))
                queries.append(('match', enc.path_of(rng.choice(els)), 0))
            cases.append({'kind': kind, 'tree': top, 'detached': detached, 'selector': sel, 'queries': queries})
    stats['cases'] = n
    return cases[:n]


# ---------------------------------------------------------------------------------------------
# structured attribute values: several words, several lines, dashes, mixed case
# ---------------------------------------------------------------------------------------------
V_WORDS = ['a', 'b', 'ab', 'B', 'Ab', 'abc', 'x', 'en', 'US', 'us', 'de', 'end', 'END', 'line', 'Line', '1', '中', 'a.b']
V_BREAKS = ['\n', '\n', '\n', '\r\n', '\r', '\n\n', ' \n', '\n ', '-\n', '\n-', '\f', '\x0b', '\x85', '\u2028']
V_BREAKS_MARKUP = [b for b in V_BREAKS if b not in ('\f', '\x0b')]     # not XML characters / parse errors in HTML
V_SEPS = [' ', ' ', ' ', '-', '-', '\t', '  ', '_', '']
V_ATTRS = ['title', 'data-x', 'href', 'rel', 'lang', 'type', 'alt']
CSS_WS = ' \t\r\n\f'
LINE_CHARS = '\n\r\f\x0b\x85\u2028'


def gen_value(r, breaks=V_BREAKS):
    """1-4 words; 65% of the values with more than one word have at least one line break between words."""
    k = r.choice([1, 2, 2, 3, 3, 4])
    words = [r.choice(V_WORDS) for _ in range(k)]
    seps = [r.choice(V_SEPS) for _ in range(k - 1)]
    if seps and r.random() < 0.65:
        for i in r.sample(range(k - 1), r.randint(1, min(2, k - 1))):
            seps[i] = r.choice(breaks)
    out = words[0]
    for sp, w in zip(seps, words[1:]):
        out += sp + w
    if r.random() < 0.12:
        out = r.choice(breaks + [' ', '-']) + out
    if r.random() < 0.12:
        out += r.choice(breaks + [' ', '-'])
    return out


def one_line(v):
    return ''.join(' ' if c in LINE_CHARS else c for c in v)


def value_pool(r, breaks=V_BREAKS):
    """Values of one document: a few structured values and, for some of them, the variant on one line, a variant in
    another case, a variant cut at a line break: elements then differ in exactly what a selector tests."""
    base = [gen_value(r, breaks) for _ in range(r.randint(3, 5))]
    pool = list(base)
    for v in base:
        x = r.random()
        if x < 0.3:
            pool.append(one_line(v))
        elif x < 0.5:
            pool.append(r.choice([v.upper(), v.lower(), v.swapcase()]))
        elif x < 0.7:
            cuts = [i for i, c in enumerate(v) if c in LINE_CHARS]
            if cuts:
                i = r.choice(cuts)
                pool.append(r.choice([v[:i], v[i + 1:], v[:i + 1]]))
    return pool


def set_values(r, nodes, pool):
    """Abstract forest with the structured values put on the elements (70% of the elements get 1-2 of them)."""
    out = []
    for n in nodes:
        if n[0] != 'e':
            out.append(n)
            continue
        attrs = [(k, v) for k, v in n[4] if k not in V_ATTRS]
        if r.random() < 0.7:
            for k in r.sample(V_ATTRS, r.choice([1, 1, 2])):
                attrs.append((k, r.choice(pool)))
            r.shuffle(attrs)
        out.append(('e', n[1], n[2], n[3], attrs, set_values(r, n[5], pool)))
    return out


def charref_attr(v):
    """Attribute value for markup with the line breaks written as character references (an XML parser turns a literal
    line break inside an attribute value into a blank; a reference keeps it)."""
    return ''.join('&#%d;' % ord(c) if c in '\n\r\t' else c for c in gen.esc_attr(v))


def q1(v):
    """Single-quoted CSS string."""
    out = []
    for ch in v:
        if ch == "'" or ch == '\\':
            out.append('\\' + ch)
        elif ord(ch) < 32 or ord(ch) == 127:
            out.append('\\%x ' % ord(ch))
        else:
            out.append(ch)
    return "'" + ''.join(out) + "'"


def tokens_of(v, seps):
    """[(start, end)] of the maximal runs of characters not in `seps`."""
    out = []
    i = 0
    while i < len(v):
        if v[i] in seps:
            i += 1
            continue
        j = i
        while j < len(v) and v[j] not in seps:
            j += 1
        out.append((i, j))
        i = j
    return out


def attr_sel_for_value(r, name, whole, vstats=None):
    """An attribute selector about the value `whole` of attribute `name`: operand cut at word / line / dash boundaries
    (or at random), case mangled, with every spelling of the flags, in the three operand notations."""
    import re
    n = len(whole)
    words = tokens_of(whole, CSS_WS + LINE_CHARS + '-')
    lines = tokens_of(whole, '\n\r')
    starts = [a for a, _ in words] + [a for a, _ in lines]
    ends = [b for _, b in words] + [b for _, b in lines]
    op = r.choice(['=', '~=', '~=', '|=', '|=', '^=', '^=', '$=', '$=', '$=', '*=', '*=', '*=', '!='])
    aligned = r.random() < 0.7

    def cut(points):
        return r.choice(points) if aligned and points else r.randint(0, n)
    if op == '^=':
        part = whole[:cut(ends)]
    elif op == '$=':
        part = whole[cut(starts[-2:] + starts if r.random() < 0.5 else starts):]
    elif op == '*=':
        a = cut(starts)
        bs = [b for b in ends if b >= a]
        b = r.choice(bs) if aligned and bs else r.randint(a, n)
        part = whole[a:b]
    elif op == '~=':
        ws_words = tokens_of(whole, CSS_WS)
        x = r.random()
        if x < 0.7 and ws_words:
            a, b = r.choice(ws_words)
            part = whole[a:b]
        elif x < 0.85 and words:
            a, b = r.choice(words)
            part = whole[a:b]
        elif len(ws_words) >= 2:
            i = r.randrange(len(ws_words) - 1)
            part = whole[ws_words[i][0]:ws_words[i + 1][1]]       # two words and what separates them: never one word
        else:
            part = whole
    elif op == '|=':
        dashes = [i for i, c in enumerate(whole) if c == '-']
        x = r.random()
        if x < 0.6 and dashes:
            part = whole[:r.choice(dashes)]
        elif x < 0.8 and words:
            part = whole[:words[0][1]]
        else:
            part = whole
    else:
        part = whole if r.random() < 0.8 else one_line(whole)
    x = r.random()
    if x < 0.25:
        part = gen.swapcase_some(r, part)
    elif x < 0.4:
        part = r.choice([part.upper(), part.lower(), part.swapcase()])
    flag = r.choice(['', '', '', '', ' i', ' i', ' i', 'i', ' I', ' s', ' s', 's', ' S', '  i ', '\ti', ' s '])
    x = r.random()
    if x < 0.2 and re.fullmatch(r'[A-Za-z_][A-Za-z0-9_]*', part):
        operand = part                                  # an identifier may be written without quotes
        if flag and flag[0] not in ' \t':
            flag = ' ' + flag
    elif x < 0.4:
        operand = q1(part)
    else:
        operand = gen.q(part)
    if r.random() < 0.15:
        name = gen.swapcase_some(r, name)
    if vstats is not None:
        f = flag.strip().lower() or 'none'
        d = vstats.setdefault('selectors_by_operator_and_flag', {})
        d[f'{op} {f}'] = d.get(f'{op} {f}', 0) + 1
        rest = whole.replace(part, '', 1) if part and part in whole else whole
        if any(c in rest for c in '\n\r'):
            vstats['selectors_with_a_line_break_outside_the_operand'] = vstats.get('selectors_with_a_line_break_outside_the_operand', 0) + 1
        if any(c in part for c in '\n\r'):
            vstats['selectors_with_a_line_break_inside_the_operand'] = vstats.get('selectors_with_a_line_break_inside_the_operand', 0) + 1
    pad = r.choice(['', '', '', ' '])
    return f'[{pad}{name}{pad}{op}{pad}{operand}{flag}]'


def make_attr_value_cases(rng, n, vstats):
    """Documents whose attribute values have inner structure (words, lines, dashes, case), API-built and parser-built,
    probed with attribute selectors derived from the values the built document holds."""
    import enc
    import bs4
    import warnings
    cases = []
    feats = {}
    vstats.update({'documents': 0, 'cases': 0, 'built': {}, 'attribute_values': 0, 'attribute_values_with_line_break': 0,
                   'selectors_by_operator_and_flag': {}, 'selectors_with_a_line_break_outside_the_operand': 0,
                   'selectors_with_a_line_break_inside_the_operand': 0})
    while len(cases) < n:
        parsed = rng.random() < 0.3
        kind, top = gen.gen_doc(rng, max_depth=rng.choice([2, 3]), fan=rng.choice([2, 3, 4]))
        top = set_values(rng, top, value_pool(rng, V_BREAKS_MARKUP if parsed else V_BREAKS))
        if parsed:
            parser = rng.choice(['html.parser', 'lxml', 'html5lib', 'xml'])
            esc = charref_attr if rng.random() < 0.5 else None
            body = gen.to_markup([t for t in top if t[0] in ('e', 't', 'c')], xml=parser == 'xml', attr_esc=esc)
            if parser == 'xml':
                markup = f'<?xml version="1.0"?><root>{body}</root>'
            elif rng.random() < 0.5:
                markup = f'<!DOCTYPE html><html><head></head><body>{body}</body></html>'
            else:
                markup = body
            base = {'markup': markup, 'parser': parser}
            with warnings.catch_warnings():
                warnings.simplefilter('ignore')
                probe = bs4.BeautifulSoup(markup, parser)
            built = parser
        else:
            detached = rng.random() < 0.1
            base = {'kind': kind, 'tree': top, 'detached': detached}
            probe = gen.build_doc(kind, top, detached)
            built = 'api:' + kind
        els = gen.elements(probe)
        cands = []
        for e in els:
            for k, v in e.attrs.items():
                if str(k) in V_ATTRS:
                    whole = ' '.join(v) if isinstance(v, (list, tuple)) else v
                    if isinstance(whole, str):
                        cands.append((str(k), whole))
        if not cands:
            continue
        vstats['documents'] += 1
        vstats['built'][built] = vstats['built'].get(built, 0) + 1
        vstats['attribute_values'] += len(cands)
        vstats['attribute_values_with_line_break'] += sum(1 for _, v in cands if any(c in v for c in '\n\r'))
        multi = [c for c in cands if any(ch in c[1] for ch in '\n\r')]
        for _ in range(6):
            k, v = rng.choice(multi) if multi and rng.random() < 0.6 else rng.choice(cands)
            a = attr_sel_for_value(rng, k, v, vstats)
            k2, v2 = rng.choice(cands)
            a2 = attr_sel_for_value(rng, k2, v2)
            x = rng.random()
            if x < 0.45:
                sel = a
            else:
                sel = rng.choice([rng.choice(gen.TAGS) + a, '*' + a, a + a2, f'{a}, {a2}', f':not({a})', f'*:not({a}):not({a2})',
                                  f':is({a}, {gen.gen_complex(rng, 2, feats)})', f':is({a}){a2}', f'{a} > *', f'{a} ~ {a2}',
                                  f'{a} {a2}', f':has(> {a})', f':has({a}, + {a2})', f'* > {a}'])
            queries = [('select', [], 0)]
            queries.append(('select', enc.path_of(rng.choice(els)), 0))
            queries.append(('match', enc.path_of(rng.choice(els)), 0))
            queries.append(('match', enc.path_of(rng.choice(els)), 0))
            cases.append(dict(base, selector=sel, queries=queries))
    vstats['cases'] = n
    return cases[:n]


# ---------------------------------------------------------------------------------------------
# attribute NAMES in mixed case: the element side of the name comparison
# ---------------------------------------------------------------------------------------------
# An attribute name held by a tree need not be lower case even when the tree is not XML: the HTML parsing algorithm
# (html5lib) gives the SVG / MathML attributes their mixed-case spelling (viewBox, gradientUnits, definitionURL ...),
# and whatever is set through the bs4 API (tag['dataKey'] = ..., new_tag(attrs=...), el.attrs[...]) is kept as spelled.
# In a non-XML tree [name] designates the attributes whose name equals `name` ASCII case-insensitively, whichever side
# carries the capitals; in an XML tree the names are compared exactly.
N_BASES = ['title', 'href', 'rel', 'lang', 'data-x', 'datakey', 'itemid', 'viewbox', 'id', 'class', 'textlength']
N_CAMEL = {'datakey': 'dataKey', 'itemid': 'itemID', 'viewbox': 'viewBox', 'data-x': 'data-X', 'textlength': 'textLength',
           'id': 'ID', 'class': 'Class', 'href': 'hRef', 'title': 'Title', 'rel': 'REL', 'lang': 'Lang'}
# not ASCII: U+00C9 / U+00E9 differ although str.lower() maps one to the other; U+212A KELVIN SIGN is not `k` although
# str.lower() says so; U+017F LONG S is not `s` although str.upper() says so
N_NON_ASCII = [('dataé', 'dataÉ'), ('datakey', 'dataKey'), ('itemids', 'itemidſ')]
N_VALUES = ['', 'a', 'b', 'ab', 'a b', 'a-b', 'A', 'aB', 'k1', 'K1', 'urn:x', '0 0 10 10', 'x\ny']
# the attributes the HTML parsing algorithm re-spells in SVG / MathML content ("adjust SVG / MathML attributes")
F_ADJUSTED = ['viewBox', 'preserveAspectRatio', 'gradientUnits', 'gradientTransform', 'textLength', 'patternUnits',
              'startOffset', 'stdDeviation', 'pathLength', 'definitionURL']
F_PLAIN = ['width', 'title', 'lang', 'dataKey', 'itemID']
F_SVG_TAGS = ['g', 'text', 'path', 'linearGradient', 'circle', 'a', 'foreignObject', 'foreignObject']
F_MATH_TAGS = ['mi', 'mrow', 'mo', 'mi']
XLINK_NS = 'http://www.w3.org/1999/xlink'


def has_upper(k):
    return any('A' <= c <= 'Z' for c in k)


def ascii_lower(k):
    return ''.join(chr(ord(c) + 32) if 'A' <= c <= 'Z' else c for c in k)


def spell_name(r, base):
    """A spelling of the lower-case name `base`; most spellings differ from it in the case of ASCII letters only."""
    x = r.random()
    if x < 0.3 and base in N_CAMEL:
        return N_CAMEL[base]
    if x < 0.45:
        return base.upper() if base.isascii() else gen.swapcase_some(r, base)
    if x < 0.55:
        return base[:1].upper() + base[1:]
    if x < 0.85:
        return gen.swapcase_some(r, base)
    return base


def name_pool(r):
    """Attribute names of one document: 2-3 lower-case names, each in 2-3 spellings (usually the lower-case one among
    them), so that elements differ in exactly the spelling of a name; rarely a pair that differs in a NON-ASCII letter
    or look-alike (two different names under every reading)."""
    pool = []
    for base in r.sample(N_BASES, r.choice([2, 2, 3])):
        sp = {spell_name(r, base) for _ in range(r.choice([2, 3]))}
        if r.random() < 0.6:
            sp.add(base)
        pool += sorted(sp)
    if r.random() < 0.15:
        pool += list(r.choice(N_NON_ASCII))
    return pool


def set_names(r, nodes, pool, ns_p=0.0):
    """Abstract forest with mixed-case attribute names: on 75% of the elements some of the generated attributes are
    re-spelled (ID, Class, hRef ...) and 1-2 attributes of the document's name pool are added; 12% of those elements
    carry TWO spellings of one name, with different values (possible through the API: attrs is a dict keyed by the
    exact spelling).  With probability ns_p an added attribute is namespaced ([prefix, local name, namespace])."""
    out = []
    for n in nodes:
        if n[0] != 'e':
            out.append(n)
            continue
        attrs = list(n[4])
        if r.random() < 0.75:
            attrs = []
            for k, v in n[4]:
                if r.random() < 0.3:
                    k = spell_name(r, k)
                    if isinstance(v, list) and r.random() < 0.5:
                        v = ' '.join(v)
                attrs.append((k, v))
            for k in r.sample(pool, r.choice([1, 1, 2])):
                v = r.choice(N_VALUES)
                if ascii_lower(k) == 'class' and r.random() < 0.5:
                    v = r.sample(gen.CLASSES, r.randint(1, 2))
                elif ascii_lower(k) == 'id' and r.random() < 0.7:
                    v = r.choice(gen.IDS)
                if r.random() < ns_p:
                    k = (r.choice(['xlink', 'x']), k, XLINK_NS)
                attrs.append((k, v))
            if r.random() < 0.12:
                k = r.choice(pool)
                attrs.append((r.choice([k.swapcase(), ascii_lower(k), k.upper()]), r.choice(N_VALUES)))
            r.shuffle(attrs)
            seen = set()
            attrs = [(k, v) for k, v in attrs if not (k in seen or seen.add(k))]       # a dict holds one value per exact key
        out.append(('e', n[1], n[2], n[3], attrs, set_names(r, n[5], pool, ns_p)))
    return out


def gen_foreign_doc(r, depth=0, where='html'):
    """Abstract HTML tree with SVG / MathML islands (and HTML again inside <foreignObject>), to be written as markup.
    Every element may carry the attributes that the HTML parsing algorithm re-spells in foreign content, WRITTEN in
    any case: an HTML5 parser stores them as viewBox ... on SVG / MathML elements and lower-cased on HTML elements;
    html.parser and lxml lower-case all of them; an XML parser keeps what was written."""
    if where == 'html':
        name = r.choice(['div', 'p', 'span', 'a', 'li', 'ul', 'b'])
    elif where == 'svg':
        name = r.choice(F_SVG_TAGS)
    else:
        name = r.choice(F_MATH_TAGS)
    attrs = gen.gen_attrs(r, rich=False) if r.random() < 0.4 else []
    if r.random() < 0.7:
        for k in r.sample(F_ADJUSTED + F_PLAIN, r.choice([1, 1, 2, 3])):
            x = r.random()
            k = k if x < 0.5 else k.lower() if x < 0.7 else k.upper() if x < 0.8 else gen.swapcase_some(r, k)
            if k.lower() not in [a.lower() for a, _ in attrs]:           # markup: one attribute per name, whatever the case
                attrs.append((k, r.choice(N_VALUES[1:])))
    kids = []
    inner = 'html' if name == 'foreignObject' else where
    if depth < 4:
        for _ in range(r.randint(1, 3) if depth < 2 else r.randint(0, 2)):
            x = r.random()
            if x < 0.2:
                kids.append(('t', r.choice(['a', 'x y', ' '])))
            elif x < 0.5 and inner == 'html' and depth < 3:
                root = r.choice(['svg', 'svg', 'svg', 'math'])
                sub = gen_foreign_doc(r, depth + 1, root)
                kids.append(('e', root, None, None, sub[4], sub[5]))
            else:
                kids.append(gen_foreign_doc(r, depth + 1, inner))
    return ('e', name, None, None, attrs, kids)


def name_selector(r, k, v, xml, vstats=None):
    """An attribute selector about the attribute `k` (as the built document spells it; a namespaced key is given as
    (prefix, local, namespace)) with value `v`.  Returns (selector, namespaces or None).  The selector spells the name
    as the document does, in lower / upper case, or mangled; for id / class also as #id / .class."""
    ns = None
    if isinstance(k, tuple):
        prefix, local, uri = k
        x = r.random()
        if x < 0.4:
            written, ns = 'xl|' + local, {'xl': uri}
        elif x < 0.8:
            written = '*|' + local
        else:
            written = prefix + '\\:' + local           # the whole qualified name, colon escaped
        k = local
    else:
        written = k
    x = r.random()
    sp = k if x < 0.35 else ascii_lower(k) if x < 0.55 else k.upper() if x < 0.7 else gen.swapcase_some(r, k)
    if not sp.isascii() and x >= 0.55:
        sp = gen.swapcase_some(r, k)
    written = written[:len(written) - len(k)] + sp
    low = ascii_lower(k)
    x = r.random()
    if low == 'id' and x < 0.3 and re_ident(v):
        return '#' + v, ns
    if low == 'class' and x < 0.3 and any(re_ident(w) for w in v.split()):
        return '.' + r.choice([w for w in v.split() if re_ident(w)]), ns
    if x < 0.45:
        pad = r.choice(['', '', ' '])
        return f'[{pad}{written}{pad}]', ns
    return attr_sel_for_value(r, written, v, vstats), ns


def re_ident(v):
    import re
    return bool(re.fullmatch(r'[A-Za-z_][A-Za-z0-9_-]*', v))


def make_attr_name_cases(rng, n, nstats):
    """Documents whose attribute NAMES are spelled in mixed case, probed with attribute selectors about an attribute
    the built document holds.  60% built through the bs4 API (html, html5, xhtml, xml); 40% written as markup with
    SVG / MathML islands and parsed (html5lib mostly, html.parser, lxml, lxml-xml), half of the HTML-parsed ones then
    edited through the API (tag[name] = value with a mixed-case name)."""
    import enc
    import bs4
    import warnings
    import matchcorr
    cases = []
    feats = {}
    nstats.update({'documents': 0, 'cases': 0, 'built': {}, 'attributes': 0, 'attributes_with_upper_case_name': 0,
                   'attributes_with_upper_case_name_in_non_xml_trees': 0, 'elements_with_two_spellings_of_one_name': 0,
                   'namespaced_attributes_with_upper_case_name': 0, 'selectors_about_an_upper_case_name_in_a_non_xml_tree': 0,
                   'selector_spells_name_as_document': 0, 'selector_spells_name_otherwise': 0, 'api_edits_after_parsing': 0})
    while len(cases) < n:
        if rng.random() < 0.4:
            parser = rng.choice(['html5lib', 'html5lib', 'html5lib', 'html.parser', 'lxml', 'xml'])
            tops = [gen_foreign_doc(rng) for _ in range(rng.choice([1, 1, 2]))]
            body = gen.to_markup(tops, xml=parser == 'xml')
            if parser == 'xml':
                markup = f'<?xml version="1.0"?><root>{body}</root>'
            elif rng.random() < 0.5:
                markup = f'<!DOCTYPE html><html><head></head><body>{body}</body></html>'
            else:
                markup = body
            base = {'markup': markup, 'parser': parser}
            with warnings.catch_warnings():
                warnings.simplefilter('ignore')
                probe = bs4.BeautifulSoup(markup, parser)
            built = parser
            if parser != 'xml' and rng.random() < 0.5:
                pels = gen.elements(probe)
                edits = []
                for _ in range(rng.randint(1, 3)):
                    if not pels:
                        break
                    e = rng.choice(pels)
                    k = spell_name(rng, rng.choice(N_BASES + [a.lower() for a in F_ADJUSTED]))
                    edits.append([enc.path_of(e), k, rng.choice(N_VALUES)])
                if edits:
                    base['edits'] = edits
                    matchcorr.apply_edits(probe, edits)
                    built += '+api-edits'
                    nstats['api_edits_after_parsing'] += len(edits)
            xml = parser == 'xml'
        else:
            kind, top = gen.gen_doc(rng, max_depth=rng.choice([2, 3]), fan=rng.choice([2, 3, 4]))
            top = set_names(rng, top, name_pool(rng), ns_p=0.25 if kind in ('html5', 'xhtml') else 0.0)
            detached = rng.random() < 0.1
            base = {'kind': kind, 'tree': top, 'detached': detached}
            probe = gen.build_doc(kind, top, detached)
            built = 'api:' + kind
            xml = kind in ('xml', 'xhtml')
        els = gen.elements(probe)
        cands = []
        for e in els:
            lows = [ascii_lower(str(k)) for k in e.attrs]
            if len(set(lows)) < len(lows):
                nstats['elements_with_two_spellings_of_one_name'] += 1
            for k, v in e.attrs.items():
                whole = ' '.join(v) if isinstance(v, (list, tuple)) else v
                if not isinstance(whole, str):
                    continue
                nsu = getattr(k, 'namespace', None)
                key = (k.prefix, k.name, nsu) if nsu and getattr(k, 'prefix', None) and getattr(k, 'name', None) else str(k)
                cands.append((key, whole))
        nstats['attributes'] += len(cands)
        upper = [c for c in cands if has_upper(c[0][1] if isinstance(c[0], tuple) else c[0])]
        nstats['attributes_with_upper_case_name'] += len(upper)
        if not xml:
            nstats['attributes_with_upper_case_name_in_non_xml_trees'] += len(upper)
        nstats['namespaced_attributes_with_upper_case_name'] += sum(1 for c in upper if isinstance(c[0], tuple))
        if not cands:
            continue
        nstats['documents'] += 1
        nstats['built'][built] = nstats['built'].get(built, 0) + 1
        # names that occur in the document in another spelling as well: what tells the spellings apart is the point
        for _ in range(6):
            k, v = rng.choice(upper) if upper and rng.random() < 0.75 else rng.choice(cands)
            a, ns = name_selector(rng, k, v, xml)
            local = k[1] if isinstance(k, tuple) else k
            if has_upper(local) and not xml:
                nstats['selectors_about_an_upper_case_name_in_a_non_xml_tree'] += 1
            nstats['selector_spells_name_as_document' if local in a else 'selector_spells_name_otherwise'] += 1
            k2, v2 = rng.choice(cands)
            a2, ns2 = name_selector(rng, k2, v2, xml)
            if ns2 and not ns:
                ns = ns2
            x = rng.random()
            if x < 0.4:
                sel = a
            else:
                sel = rng.choice([rng.choice(gen.TAGS) + a, '*' + a, a + a2, f'{a}, {a2}', f':not({a})', f'*:not({a}):not({a2})',
                                  f':is({a}, {gen.gen_complex(rng, 2, feats)})', f':is({a}){a2}', f'{a} > *', f'{a} ~ {a2}',
                                  f'{a} {a2}', f':has(> {a})', f':has({a})', f':has({a}, + {a2})', f'* > {a}', f'{a} + *',
                                  f':where({a}) *', f':not(:not({a}))'])
            queries = [('select', [], 0)]
            queries.append(('select', enc.path_of(rng.choice(els)), 0))
            queries.append(('match', enc.path_of(rng.choice(els)), 0))
            queries.append(('match', enc.path_of(rng.choice(els)), 0))
            case = dict(base, selector=sel, queries=queries)
            if ns:
                case['ns'] = ns
            cases.append(case)
    nstats['cases'] = n
    return cases[:n]


def run(chk):
    stats = {}
    chk.coverage['repeated_content'] = stats
    vstats = {}
    chk.coverage['structured_attribute_values'] = vstats
    nstats = {}
    chk.coverage['mixed_case_attribute_names'] = nstats

    def mk(rng, n):
        return make_cases(rng, n, stats, vstats, nstats)
    return common_match.run(chk, PID, SOURCES, mk, 2400, 120000, RULE,
                            'SoupVerif.Properties.C01 (model ≡ specification) / correspondence PY select ≡ Model select')


def replay(chk, path):
    return common_match.replay(chk, path, PID)
