"""C01: select() returns exactly the elements CSS designates."""
import gen
from props import common_match

PID = 'C01'
SOURCES = ['SoupVerif/Properties/C01.lean', 'SoupVerif/Model/Match.lean', 'SoupVerif/Model/Tree.lean',
           'SoupVerif/Model/Regex.lean', 'SoupVerif/Model/Api.lean']
RULE = ('documents: random trees over a 7-tag / 4-id / 3-class / 4-attribute vocabulary, built through the bs4 API as '
        'html (no namespaces), html5 (XHTML namespace), xhtml and xml, with and without interleaved text / comment / '
        'CDATA / PI nodes, several top-level nodes, detached fragments; selectors: random ASTs of the C01 grammar '
        '(type, universal, id, class, every attribute operator and flag, four combinators, lists, '
        ':not/:is/:where/:matches/:has nested, structural pseudo-classes) rendered to text, 30% of them containing an attribute selector derived from an attribute value present in the document (whole / prefix / suffix / piece / word / dash-prefix, case mangled, i/s flags); every case is run through the IR-level tie (PY-compiled IR -> matcher model) and the end-to-end tie (selector text -> parser model -> matcher model); queries: select from the '
        'top, select from an inner element, match on elements. A case is non-trivial when some query returns a '
        'non-empty result; distinct = distinct (selector, tree) pairs among those.')


def make_cases(rng, n):
    cases = []
    feats = {}
    while len(cases) < n:
        kind, top = gen.gen_doc(rng)
        detached = rng.random() < 0.1
        probe = gen.build_doc(kind, top, detached)
        els = gen.elements(probe)
        import enc
        for _ in range(4):
            sel = gen.gen_list(rng, 0, feats)
            tops = [t for t in top if t[0] == 'e']
            if len(tops) >= 2 and rng.random() < 0.4:
                # siblings directly under the document object: sibling combinators apply, parent combinators do not
                i = rng.randrange(len(tops) - 1)
                a, b = tops[i][1], tops[rng.randrange(i + 1, len(tops))][1]
                sel = rng.choice([f'{a} + {b}', f'{a} ~ {b}', '* + *', ':not(* ~ *)', f'{a} ~ {b} > *', f':has(~ {b})', f'{a}:has(+ {b})',
                                  f'{a} + {b} *', f':is({a}, {b}) ~ *', f'* > {b}', f'* {b}', f':not(* > {b})'])
            elif els and rng.random() < 0.3:
                a = gen.gen_attr_sel_for(rng, els)
                sel = rng.choice([a, a, rng.choice(gen.TAGS) + a, f':not({a})', f':is({a}, {sel})', f'{a} > *', f':has(> {a})'])
            queries = [('select', [], 0)]
            if els:
                queries.append(('select', enc.path_of(rng.choice(els)), 0))
                queries.append(('match', enc.path_of(rng.choice(els)), 0))
                queries.append(('match', enc.path_of(rng.choice(els)), 0))
            cases.append({'kind': kind, 'tree': top, 'detached': detached, 'selector': sel, 'queries': queries})
    return cases[:n]


def run(chk):
    return common_match.run(chk, PID, SOURCES, make_cases, 2400, 120000, RULE,
                            'SoupVerif.Properties.C01 (model ≡ specification) / correspondence PY select ≡ Model select')


def replay(chk, path):
    return common_match.replay(chk, path, PID)
