"""C01: select() returns exactly the elements CSS designates."""
import gen
from props import common_match

PID = 'C01'
SOURCES = ['SoupVerif/Properties/C01.lean', 'SoupVerif/Model/Match.lean', 'SoupVerif/Model/Tree.lean',
           'SoupVerif/Model/Regex.lean', 'SoupVerif/Model/Api.lean']
RULE = ('documents: random trees over a 7-tag / 4-id / 3-class / 4-attribute vocabulary, built through the bs4 API as '
        'html (no namespaces), html5 (XHTML namespace), xhtml and xml, with and without interleaved text / comment / '
        'CDATA / PI nodes, several top-level nodes, detached fragments; selectors: random ASTs of the C01 grammar '
        '(type, universal, id, class, every attribute operator and flag, four combinators, lists, '
        ':not/:is/:where/:matches/:has nested, structural pseudo-classes) rendered to text, 30% of them containing an attribute selector derived from an attribute value present in the document (whole / prefix / suffix / piece / word / dash-prefix, case mangled, i/s flags); every case is run through the IR-level tie (PY-compiled IR -> matcher model) and the end-to-end tie (selector text -> parser model -> matcher model); queries: select from the '
        'top, select from an inner element, match on elements. In addition n/3 cases on documents with REPEATED CONTENT: 1-3 subtrees of a random tree are repeated elsewhere in the same document (under another parent, at another depth, at top level, inside themselves, in the same parent at another position; exact copies, copies wrapped in a fresh element, near-copies differing in one deep attribute / text node), so that distinct elements with equal name, attributes and content (== and equal hash for bs4) have different ancestors and siblings; 75% of their selectors are read off an actual path of the document (a chosen element, some of its ancestors, sometimes a preceding sibling, each described by its own type / id / class / attribute, joined by the combinators that hold: descendant, child, +, ~), used plain, as subject:not(path), :not(path), :is/:where/:matches(path), anchor:has(rest of path), :is(prefix) rest, path *, or in a list with a random selector; the rest are random ASTs. A case is non-trivial when some query returns a '
        'non-empty result; distinct = distinct (selector, tree) pairs among those.')


def make_cases(rng, n, stats=None):
    stats = {} if stats is None else stats
    cases = []
    feats = {}
    while len(cases) < n:
        kind, top = gen.gen_doc(rng)
        detached = rng.random() < 0.1
        probe = gen.build_doc(kind, top, detached)
        els = gen.elements(probe)
        import enc
        for _ in range(4):
            sel = gen.gen_list(rng, 0, feats)
            tops = [t for t in top if t[0] == 'e']
            if len(tops) >= 2 and rng.random() < 0.4:
                # siblings directly under the document object: sibling combinators apply, parent combinators do not
                i = rng.randrange(len(tops) - 1)
                a, b = tops[i][1], tops[rng.randrange(i + 1, len(tops))][1]
                sel = rng.choice([f'{a} + {b}', f'{a} ~ {b}', '* + *', ':not(* ~ *)', f'{a} ~ {b} > *', f':has(~ {b})', f'{a}:has(+ {b})',
                                  f'{a} + {b} *', f':is({a}, {b}) ~ *', f'* > {b}', f'* {b}', f':not(* > {b})'])
            elif els and rng.random() < 0.3:
                a = gen.gen_attr_sel_for(rng, els)
                sel = rng.choice([a, a, rng.choice(gen.TAGS) + a, f':not({a})', f':is({a}, {sel})', f'{a} > *', f':has(> {a})'])
            queries = [('select', [], 0)]
            if els:
                queries.append(('select', enc.path_of(rng.choice(els)), 0))
                queries.append(('match', enc.path_of(rng.choice(els)), 0))
                queries.append(('match', enc.path_of(rng.choice(els)), 0))
            cases.append({'kind': kind, 'tree': top, 'detached': detached, 'selector': sel, 'queries': queries})
    cases = cases[:n]
    # repeated content: drawn from a generator of its own (seeded from `rng` after the cases above, which are unchanged)
    import random
    cases += make_repeat_cases(random.Random(rng.getrandbits(64)), n // 3, stats)
    return cases


def make_repeat_cases(rng, n, stats):
    """Documents in which the same subtree occurs at several places (under different ancestors, at different depths,
    at top level, inside itself, after different siblings; exact copies and near-copies), probed with selectors read
    off actual paths of the document (descendant / child / sibling chains, plain, negated, inside :is/:where/:has) and
    with random selectors.  Two distinct elements with equal name, attributes and content are indistinguishable to
    bs4's == and hash; CSS designates elements, so each must be judged by its own ancestors and siblings."""
    import enc
    cases = []
    feats = {}
    stats.update({'documents': 0, 'cases': 0, 'path_selectors': 0, 'random_selectors': 0, 'grafts': {},
                  'documents_with_equal_elements_in_different_parents': 0})
    while len(cases) < n:
        small = rng.random() < 0.6
        kind, top = gen.gen_doc(rng, max_depth=rng.choice([2, 3]), fan=rng.choice([2, 3])) if small else gen.gen_doc(rng)
        top, gs = gen.graft_copies(rng, top)
        for k, v in gs.items():
            stats['grafts'][k] = stats['grafts'].get(k, 0) + v
        detached = rng.random() < 0.1
        probe = gen.build_doc(kind, top, detached)
        els = gen.elements(probe)
        stats['documents'] += 1
        # measured on the built document, with bs4's own notion of equality: two elements that are == and hash alike
        # but have different parents
        seen = {}
        for e in els:
            if e.contents:
                seen.setdefault(e, set()).add(id(e.parent))
        if any(len(v) > 1 for v in seen.values()):
            stats['documents_with_equal_elements_in_different_parents'] += 1
        chains = gen.elem_chains(top[:1 + next(i for i, t in enumerate(top) if t[0] == 'e')] if detached else top)
        for _ in range(6):
            if rng.random() < 0.75:
                sel = gen.gen_path_sel(rng, top, chains, feats)
                stats['path_selectors'] += 1
            else:
                sel = gen.gen_list(rng, 0, feats)
                stats['random_selectors'] += 1
            queries = [('select', [], 0)]
            if els:
                queries.append(('select', enc.path_of(rng.choice(els)), 0))
                queries.append(('match', enc.path_of(rng.choice(els)), 0))
                queries.append(('match', enc.path_of(rng.choice(els)), 0))
            cases.append({'kind': kind, 'tree': top, 'detached': detached, 'selector': sel, 'queries': queries})
    stats['cases'] = n
    return cases[:n]


def run(chk):
    stats = {}
    chk.coverage['repeated_content'] = stats

    def mk(rng, n):
        return make_cases(rng, n, stats)
    return common_match.run(chk, PID, SOURCES, mk, 2400, 120000, RULE,
                            'SoupVerif.Properties.C01 (model ≡ specification) / correspondence PY select ≡ Model select')


def replay(chk, path):
    return common_match.replay(chk, path, PID)
