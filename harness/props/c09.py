"""C09: compiled meaning depends only on the token sequence, not on its spelling."""
import json
import random
import warnings

import soupsieve as sv
from soupsieve import css_parser as cp

import framework
import gen
import parsecorr
import spell

warnings.simplefilter('ignore', FutureWarning)
PID = 'C09'
SOURCES = ['SoupVerif/Properties/C09.lean', 'SoupVerif/Lemmas/Spelling.lean', 'SoupVerif/Spec/Spelling.lean',
           'SoupVerif/Model/Parser.lean']
RULE = ('selectors are generated as sequences of lexical items (spell.g_selector: the whole grammar) and rendered once in '
        'canonical spelling and k times in random spellings: every optional gap gets one of 15 whitespace/comment fillers '
        '(none, spaces, newline+indent, CRLF, FF, comments with and without adjacent spaces, comment containing "* /"), every '
        'descendant combinator one of 11 mandatory-whitespace fillers, every identifier / string code point one of the escape '
        'forms (literal, backslash-char, hex with terminator, 6-digit hex, upper-case hex, escaped newline inside strings), '
        'values as "..." / \'...\' / bare identifier, keywords in random case. Checked: (1) the property on PY: all spellings '
        'compile to == selector structures and select the same elements of a probe document; (2) PY ≡ Lean parser model on '
        'every spelling. Non-trivial = the canonical spelling compiles and the respelling differs textually from it.')


def probe_docs(rng):
    docs = []
    for _ in range(3):
        kind, top = gen.gen_state_doc(rng) if rng.random() < 0.5 else gen.gen_doc(rng)
        docs.append(gen.build_doc(kind, top))
    return docs


def run(chk):
    proof_ok = framework.lean_pipeline(chk, SOURCES)
    driver_ok = proof_ok or chk.build(['svdriver'])[0]
    rng = random.Random(chk.seed)
    quick = chk.tier == 'quick'
    n_sel = 900 if quick else 40000
    k = 4
    py_bad, cases, nontriv = [], [], 0
    docs = probe_docs(rng)
    compiled_ok = 0
    for _ in range(n_sel):
        items = spell.g_selector(rng) if rng.random() < 0.8 else [('gap',)] + spell.g_compound(rng, 2) + [('gap',)]
        base = spell.render(items, rng, 0)
        if len(base) > 200:
            continue
        try:
            c0 = cp.CSSParser(base).process_selectors()
        except Exception:
            cases.append((base, None, 0))
            continue
        compiled_ok += 1
        cases.append((base, None, 0))
        for _ in range(k):
            alt = spell.render(items, rng, 1)
            if alt != base:
                nontriv += 1
            cases.append((alt, None, 0))
            try:
                c1 = cp.CSSParser(alt).process_selectors()
            except Exception as e:
                py_bad.append({'canonical': base, 'respelled': alt, 'failure': f'{type(e).__name__}: {str(e).splitlines()[0]}'})
                continue
            if c1 != c0:
                py_bad.append({'canonical': base, 'respelled': alt, 'failure': 'compiled structures differ'})
                continue
            if rng.random() < 0.15:
                d = rng.choice(docs)
                a = [id(e) for e in sv.compile(base).select(d)]
                b = [id(e) for e in sv.compile(alt).select(d)]
                if a != b:
                    py_bad.append({'canonical': base, 'respelled': alt, 'failure': 'select results differ'})
    corr_bad = []
    if driver_ok:
        for start in range(0, len(cases), 20000):
            for c, py, lean, diff in parsecorr.run(cases[start:start + 20000]):
                if diff:
                    corr_bad.append({'pattern': c[0], 'difference': diff})
    chk.samples = [{'canonical': cases[i][0], 'respelled': cases[i + 1][0]} for i in range(0, min(len(cases) - 1, 15), 5)]
    chk.coverage.update({'token_sequences': n_sel, 'canonical_compiled': compiled_ok, 'spellings_per_sequence': k,
                         'patterns_compared_with_model': len(cases), 'spelling_violations': len(py_bad),
                         'py_vs_model_mismatches': len(corr_bad)})
    for i, b in enumerate(py_bad[:5]):
        chk.violation(f'py{i}', {'what': 'two spellings of one token sequence compile differently', **b}, concrete=True)
    if not py_bad:
        for i, b in enumerate(corr_bad[:4]):
            chk.violation(f'corr{i}', {'correspondence': 'CSSParser.process_selectors ≡ Parser.compile', **b}, concrete=False)
    if not proof_ok and not (py_bad or corr_bad):
        chk.violation('proof', {'what': 'proof obligation no longer checks; no pair of spellings found that compiles differently',
                                'theorem_or_correspondence': 'SoupVerif.Properties.C09', 'detail': chk.notes.get('proof_broken')}, concrete=False)
    return chk.finish(rule=RULE, evaluations=len(cases), distinct=nontriv)


def replay(chk, path):
    data = json.load(open(path))
    try:
        a = cp.CSSParser(data['canonical']).process_selectors()
        b = cp.CSSParser(data['respelled']).process_selectors()
        ok = a == b
    except Exception as e:
        ok = False
    print(json.dumps({'equal': ok}))
    if not ok:
        print(f'VIOLATION property={PID} replay={path}')
        return 1
    return 0
