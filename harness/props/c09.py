"""C09: compiled meaning depends only on the token sequence, not on its spelling."""
import json
import random
import warnings

import soupsieve as sv
from soupsieve import css_parser as cp

import framework
import gen
import parsecorr
import spell

warnings.simplefilter('ignore', FutureWarning)
PID = 'C09'
SOURCES = ['SoupVerif/Properties/C09.lean', 'SoupVerif/Lemmas/Spelling.lean', 'SoupVerif/Spec/Spelling.lean',
           'SoupVerif/Model/Parser.lean',
           'SoupVerif/Properties/C09GenHandlers.lean', 'SoupVerif/Generated/PyHandlers.lean', 'SoupVerif/Model/HandlersDyn.lean']
RULE = ('selectors are generated as sequences of lexical items (spell.g_selector: the whole grammar) and rendered once in '
        'canonical spelling and k times in random spellings: every optional gap gets one of 15 whitespace/comment fillers '
        '(none, spaces, newline+indent, CRLF, FF, comments with and without adjacent spaces, comment containing "* /"), every '
        'descendant combinator one of 11 mandatory-whitespace fillers, every identifier / string code point one of the escape '
        'forms (literal, backslash-char, hex with terminator, 6-digit hex, upper-case hex, escaped newline inside strings), '
        'values as "..." / \'...\' / bare identifier, keywords in random case. Checked: (1) the property on PY: all spellings '
        'compile to == selector structures and select the same elements of a probe document; (2) PY ≡ Lean parser model on '
        'every spelling. Non-trivial = the canonical spelling compiles and the respelling differs textually from it. '
        '(3) Custom pseudo-class names are identifiers and pseudo-class names too: tables custom={name: definition} (1-3 names from '
        'spell.CUSTOM_NAMES: ASCII letters of both cases, hex-digit letters, digits, non-ASCII, characters that need an escape, the '
        'bare "--"; definitions over the whole grammar or document-shaped, later definitions referring to earlier names) with '
        'patterns that refer to the names (alone, after a type selector, inside :not/:is/:where/:has, in front of any '
        'pseudo-class of a generated selector). Keys of the table and references are spelled by spell.render_name: leading "--" '
        'literal, every other code point literal / backslash-char / hex escape in all forms, every ASCII letter in random case '
        'BEFORE it is escaped (so hex escapes of capitals and of small letters both occur on either side). The canonical table + '
        'pattern and k respellings (only the keys, only the references and definitions, or everything) must compile to == '
        'structures and select the same elements; plus, for every name of the pool, a matrix of m key spellings x m reference '
        'spellings (a reference in one spelling must find the definition registered under another spelling). All of them also go '
        'through PY = Lean parser model.')


def probe_docs(rng):
    docs = []
    for _ in range(3):
        kind, top = gen.gen_state_doc(rng) if rng.random() < 0.5 else gen.gen_doc(rng)
        docs.append(gen.build_doc(kind, top))
    return docs


def compile_fresh(pattern, custom=None):
    """Parse without the compile cache; the custom table goes through process_custom like in sv.compile."""
    table = cp.process_custom(sv.ct.CustomSelectors(custom)) if custom is not None else None
    return cp.CSSParser(pattern, custom=table).process_selectors()


def same_selection(rng, docs, base, ck, alt, ak):
    d = rng.choice(docs)
    a = [id(e) for e in sv.compile(base, custom=ck).select(d)]
    b = [id(e) for e in sv.compile(alt, custom=ak).select(d)]
    return a == b, len(a)


KF_DASHES = 'custom-name-escaped-leading-dashes'


def custom_name_spellings(chk, rng, docs, cases, py_bad, quick):
    """Sub-check (3) of RULE: spellings of custom pseudo-class names, as keys of `custom=` and as references."""
    stats = {}
    cov = {'tables': 0, 'canonical_compiled': 0, 'respellings': 0, 'respellings_textually_different': 0,
           'matrix_names': 0, 'matrix_pairs': 0, 'selections_compared': 0, 'selections_nonempty': 0}

    def compare(base, ck, alt, ak, c0, what, p_select):
        cases.append((alt, ak, 0))
        cov['respellings'] += 1
        if alt != base or ak != ck:
            cov['respellings_textually_different'] += 1
        rec = {'canonical': base, 'custom_canonical': ck, 'respelled': alt, 'custom_respelled': ak, 'respelled_part': what}
        try:
            c1 = compile_fresh(alt, ak)
        except Exception as e:
            py_bad.append({**rec, 'failure': f'{type(e).__name__}: {str(e).splitlines()[0]}'})
            return
        if c1 != c0:
            py_bad.append({**rec, 'failure': 'compiled structures differ'})
            return
        if rng.random() < p_select:
            same, n = same_selection(rng, docs, base, ck, alt, ak)
            cov['selections_compared'] += 1
            cov['selections_nonempty'] += 1 if n else 0
            if not same:
                py_bad.append({**rec, 'failure': 'select results differ'})

    # (a) every name of the pool: m spellings of the key x m spellings of the reference
    m = 4 if quick else 12
    for nm in spell.CUSTOM_NAMES:
        d = spell.render(spell.g_doc_def(rng), rng, 0)
        ck, base = {spell.render_name(rng, nm, 0): d}, spell.render_name(rng, nm, 0)
        cases.append((base, ck, 0))
        try:
            c0 = compile_fresh(base, ck)
        except Exception:
            continue
        cov['matrix_names'] += 1
        keys = [spell.render_name(rng, nm, 1, stats) for _ in range(m)]
        refs = [spell.render_name(rng, nm, 1, stats) for _ in range(m)]
        for kx in keys:
            for rx in refs:
                cov['matrix_pairs'] += 1
                compare(base, ck, rx, {kx: d}, c0, 'key and reference', 0.2)
    # (b) random tables and patterns
    n_tab = 260 if quick else 12000
    k = 4
    for _ in range(n_tab):
        table, pat = spell.g_custom_case(rng)
        ck = {spell.render_name(rng, nm, 0): spell.render(d, rng, 0) for nm, d in table}
        base = spell.render(pat, rng, 0)
        if len(base) > 200 or any(len(v) > 200 for v in ck.values()):
            continue
        cov['tables'] += 1
        cases.append((base, ck, 0))
        try:
            c0 = compile_fresh(base, ck)
        except Exception:
            continue
        cov['canonical_compiled'] += 1
        for _ in range(k):
            what = rng.choice(['keys', 'references and definitions', 'everything'])
            if what == 'keys':
                ak = {spell.render_name(rng, nm, 1, stats): spell.render(d, rng, 0) for nm, d in table}
                alt = base
            elif what == 'references and definitions':
                ak = {spell.render_name(rng, nm, 0): spell.render(d, rng, 1, stats) for nm, d in table}
                alt = spell.render(pat, rng, 1, stats)
            else:
                ak = {spell.render_name(rng, nm, 1, stats): spell.render(d, rng, 1, stats) for nm, d in table}
                alt = spell.render(pat, rng, 1, stats)
            compare(base, ck, alt, ak, c0, what, 0.5)
    cov['escaped_letters_in_names'] = dict(sorted(stats.items()))
    # (c) observation, not judged: the generator keeps the two leading dashes literal.  CSS reads ':\2d-a' as the same
    # <dashed-ident> as ':--a'; the library recognises a custom name by the literal text ':--' (PAT_PSEUDO_CLASS_CUSTOM
    # look-ahead, RE_CUSTOM for keys), so a spelling with an escaped leading dash is rejected on either side.
    tried, equal, example = 0, 0, None
    for nm in spell.CUSTOM_NAMES[:8]:
        canon = spell.render_name(rng, nm, 0)
        for dashes in ('\\2d -', '-\\2d ', '\\--', '-\\-'):
            odd = ':' + dashes + canon[3:]
            for alt, ak in ((odd, {canon: 'p'}), (canon, {odd: 'p'})):
                tried += 1
                try:
                    equal += compile_fresh(alt, ak) == compile_fresh(canon, {canon: 'p'})
                except Exception as e:
                    example = example or {'pattern': alt, 'custom': ak, 'outcome': f'{type(e).__name__}: {str(e).splitlines()[0]}'}
    chk.notes['custom_name_escaped_leading_dashes'] = {'spellings_tried': tried, 'compiled_equal_to_literal_dashes': equal,
                                                       'first_rejected': example, 'judged': True}
    if equal < tried:
        kf = chk.is_known(KF_DASHES)
        if kf:
            chk.known_finding(KF_DASHES, kf['text'] + f' [{tried - equal} of {tried} such spellings of this run]')
        else:
            chk.violation('dashes0', {'what': 'a custom pseudo-class name whose leading dashes are written as CSS escapes is not '
                                              'read as the same name', **(example or {})}, concrete=True)
    chk.coverage['custom_names'] = cov


def run(chk):
    proof_ok = framework.lean_pipeline(chk, SOURCES)
    driver_ok = proof_ok or chk.build(['svdriver'])[0]
    rng = random.Random(chk.seed)
    quick = chk.tier == 'quick'
    n_sel = 900 if quick else 40000
    k = 4
    py_bad, cases, nontriv = [], [], 0
    docs = probe_docs(rng)
    compiled_ok = 0
    for _ in range(n_sel):
        items = spell.g_selector(rng) if rng.random() < 0.8 else [('gap',)] + spell.g_compound(rng, 2) + [('gap',)]
        base = spell.render(items, rng, 0)
        if len(base) > 200:
            continue
        try:
            c0 = cp.CSSParser(base).process_selectors()
        except Exception:
            cases.append((base, None, 0))
            continue
        compiled_ok += 1
        cases.append((base, None, 0))
        for _ in range(k):
            alt = spell.render(items, rng, 1)
            if alt != base:
                nontriv += 1
            cases.append((alt, None, 0))
            try:
                c1 = cp.CSSParser(alt).process_selectors()
            except Exception as e:
                py_bad.append({'canonical': base, 'respelled': alt, 'failure': f'{type(e).__name__}: {str(e).splitlines()[0]}'})
                continue
            if c1 != c0:
                py_bad.append({'canonical': base, 'respelled': alt, 'failure': 'compiled structures differ'})
                continue
            if rng.random() < 0.15:
                d = rng.choice(docs)
                a = [id(e) for e in sv.compile(base).select(d)]
                b = [id(e) for e in sv.compile(alt).select(d)]
                if a != b:
                    py_bad.append({'canonical': base, 'respelled': alt, 'failure': 'select results differ'})
    custom_name_spellings(chk, rng, docs, cases, py_bad, quick)
    corr_bad = []
    if driver_ok:
        for start in range(0, len(cases), 20000):
            for c, py, lean, diff in parsecorr.run(cases[start:start + 20000]):
                if diff:
                    corr_bad.append({'pattern': c[0], 'custom': c[1], 'difference': diff})
    chk.samples = [{'canonical': cases[i][0], 'respelled': cases[i + 1][0]} for i in range(0, min(len(cases) - 1, 15), 5)]
    chk.coverage.update({'token_sequences': n_sel, 'canonical_compiled': compiled_ok, 'spellings_per_sequence': k,
                         'patterns_compared_with_model': len(cases), 'spelling_violations': len(py_bad),
                         'py_vs_model_mismatches': len(corr_bad)})
    for i, b in enumerate(py_bad[:5]):
        chk.violation(f'py{i}', {'what': 'two spellings of one token sequence compile differently', **b}, concrete=True)
    if not py_bad:
        for i, b in enumerate(corr_bad[:4]):
            chk.violation(f'corr{i}', {'correspondence': 'CSSParser.process_selectors ≡ Parser.compile', **b}, concrete=False)
    if not proof_ok and not (py_bad or corr_bad):
        chk.violation('proof', {'what': 'proof obligation no longer checks; no pair of spellings found that compiles differently',
                                'theorem_or_correspondence': 'SoupVerif.Properties.C09', 'detail': chk.notes.get('proof_broken')}, concrete=False)
    return chk.finish(rule=RULE, evaluations=len(cases), distinct=nontriv)


def replay(chk, path):
    data = json.load(open(path))
    detail = None
    try:
        a = compile_fresh(data['canonical'], data.get('custom_canonical'))
        b = compile_fresh(data['respelled'], data.get('custom_respelled'))
        ok = a == b
    except Exception as e:
        ok = False
        detail = f'{type(e).__name__}: {str(e).splitlines()[0]}'
    print(json.dumps({'equal': ok, 'exception': detail}))
    if not ok:
        print(f'VIOLATION property={PID} replay={path}')
        return 1
    return 0
