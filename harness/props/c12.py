"""C12: namespace selectors compare namespace URIs through the supplied prefix map."""
import json
import random
import re
from collections import Counter
import warnings

import bs4
import soupsieve as sv

import enc
import gen
from props import common_match

warnings.simplefilter('ignore')
PID = 'C12'
SOURCES = ['SoupVerif/Properties/C12.lean', 'SoupVerif/Lemmas/Names.lean', 'SoupVerif/Model/Match.lean',
           'SoupVerif/Properties/C12GenAttr.lean', 'SoupVerif/Generated/PyAttrName.lean', 'SoupVerif/Model/AttrNameDyn.lean']
RULE = ('XML documents (lxml-xml) with default, prefixed, redeclared and undeclared namespaces on elements and attributes, '
        'HTML5 documents (html5lib) with inline SVG/MathML and xlink attributes, html.parser documents (no namespace '
        'support); prefix maps equal to, different from and colliding with the document\'s own prefixes, with and without a '
        'default entry, and with prefixes mapped to the EMPTY string (= no namespace: n|E as |E, [n|a] as [|a]); every selector form: ns|E, *|E, |E, E, ns|*, [ns|a], [*|a], [|a], [a], unmapped prefixes; the same forms '
        'composed: compounds, combinators, selector lists, :is()/:where()/:not()/:has(), child-position tests in the same compound '
        '(ns|E:nth-child(an+b) / :nth-last-child(an+b), with and without "of S", :first-/:last-/:only-child; siblings in other '
        'namespaces, maps with a default entry), and reached through custom '
        'pseudo-classes (custom={":--x": "ns|E"}, nested definitions; patterns whose only prefixes live in the custom '
        'definitions and the reverse); one pattern evaluated under several prefix maps back to back (no purge). Checked '
        'on PY against an independent reading of the rule from the element\'s namespace URI / the attribute key\'s namespace '
        '(the property), and PY = Lean matcher model. Non-trivial = non-empty result.')

U1, U2, U3 = 'urn:one', 'urn:two', gen.SVG
NAMES = ['a', 'b', 'item']
ATTRS = ['x', 'href', 'id']
VALUES = ['1', '2', '1', '2', '12', '21', '1 2', '2-1']
OPS = ['=', '=', '=', '^=', '$=', '*=', '~=', '|=', '!=']


def xml_doc(r):
    def el(depth, inherited):
        scope = dict(inherited)
        decl = ''
        if r.random() < 0.35:
            p = r.choice(['p', 'q', 'svg'])
            scope[p] = r.choice([U1, U2, U3])
            decl += f' xmlns:{p}="{scope[p]}"'
        if r.random() < 0.2:
            scope[''] = r.choice([U1, U2, ''])
            decl += f' xmlns="{scope[""]}"'
        pref = r.choice([''] + [k for k in scope if k])
        if r.random() < 0.06:
            pref = 'u'          # never declared: the (recovering) parser keeps the element, without a namespace
        name = r.choice(NAMES)
        qn = f'{pref}:{name}' if pref else name
        attrs = ''
        seen = set()
        last = None
        for _ in range(r.choice([0, 1, 1, 2, 2, 3, 4])):
            # the same local name may occur several times on one element: without a namespace and in different ones
            a = last if last and r.random() < 0.5 else r.choice(ATTRS)
            last = a
            ap = r.choice([''] * 2 + [k for k in scope if k]) if r.random() >= 0.05 else 'u'
            expanded = (scope.get(ap) if ap and ap != 'u' else None, a)    # an undeclared prefix is dropped by the parser
            if expanded in seen:
                continue
            seen.add(expanded)
            attrs += f' {ap + ":" if ap else ""}{a}="{r.choice(VALUES)}"'
        kids = ''.join(el(depth + 1, scope) for _ in range(r.randint(2 if depth == 0 else 0, 3))) if depth < 3 else ''
        return f'<{qn}{decl}{attrs}>{kids}</{qn}>'
    return '<?xml version="1.0"?>' + el(0, {})


def html5_doc(r):
    inner = ''.join(r.choice(['<svg><a xlink:href="1" href="2" id="s"><circle x="1"/></a></svg>', '<math><mi id="m" x="2">x</mi></math>',
                              '<p id="p" x="1"><a href="2">t</a></p>', '<div><item x="1"></item></div>']) for _ in range(r.randint(1, 4)))
    return f'<html><body>{inner}</body></html>'


def expect(sel_form, els, nsmap, supports):
    kind = sel_form[0]

    def uri(e):
        return (e.namespace or '') if supports else gen.XHTML
    if kind == 'type':
        _, pfx, name = sel_form
        out = []
        for e in els:
            if name != '*' and e.name != name:
                continue
            if pfx is None:
                ok = ('' not in nsmap) or nsmap[''] == uri(e)
            elif pfx == '':
                ok = uri(e) == ''
            elif pfx == '*':
                ok = True
            else:
                ok = pfx in nsmap and nsmap[pfx] == uri(e)
            if ok:
                out.append(id(e))
        return out
    _, pfx, name = sel_form
    out = []
    for e in els:
        # a top-level attribute selector carries an implied universal selector, which a default namespace narrows
        if '' in nsmap and nsmap[''] != uri(e):
            continue
        hit = False
        for k in e.attrs:
            kns = getattr(k, 'namespace', None)
            kname = getattr(k, 'name', None)
            if pfx in (None, '') or (pfx != '*' and nsmap.get(pfx) == ''):
                # `[a]`, `[|a]`, and a prefix mapped to the empty string (= "no namespace", as for `n|E`): the whole key
                hit = hit or str(k) == name
            elif pfx == '*':
                hit = hit or (kns is None and str(k) == name) or (kns is not None and kname == name)
            else:
                hit = hit or (pfx in nsmap and kns is not None and kns == nsmap[pfx] and kname == name)
        if hit:
            out.append(id(e))
    return out


def esc(name):
    """Names are letters, digits and (html.parser keeps `xlink:href` as one name) a colon."""
    return name.replace(':', '\\:')


def render(sel_form):
    kind, pfx, name = sel_form
    p = '' if pfx is None else pfx + '|'
    name = esc(name)
    return f'{p}{name}' if kind == 'type' else f'[{p}{name}]'


# ---------------------------------------------------------------------------------------------------------------------
# Composed selectors.  A small selector AST, a renderer and an evaluator that reads the property directly off the tree
# (element local name + namespace URI, attribute key local name + namespace URI, parent / sibling links).
#   compound  ('cp', type-form-or-None, [item, ...])
#   item      ('attr', pfx, name) | ('is'|'where'|'not', [complex, ...]) | ('has', comb, compound) | ('custom', ':--name')
#             | ('nth', last, a, b, of-list-or-None, 'an+b text')    :nth-child(an+b [of S]) / :nth-last-child(an+b [of S])
#             | ('nthkw', 'first-child'|'last-child'|'only-child')
#   complex   [compound, comb, compound, ...]            selector list = [complex, ...]
# Custom pseudo-classes are one more way to spell a selector list: `customs` maps ':--name' -> selector list, and the
# definition obeys the same prefix map as the pattern that uses it.
COMBS = [' ', ' > ', ' + ', ' ~ ']
PFXS = [None, None, '', '*', 'p', 'q', 'svg', 'z', 'xlink', 'h']
TYPE_NAMES = NAMES + ['*', '*', 'circle', 'mi', 'p', 'svg']
ATTR_NAMES = ATTRS + ['p', 'q']        # 'p', 'q': local names of the xmlns:p / xmlns:q declaration attributes


DEFAULT_POOL = {'pfx': PFXS, 'type': TYPE_NAMES, 'attr': ATTR_NAMES, 'val': VALUES}


XMLNS = 'http://www.w3.org/2000/xmlns/'


def doc_pool(r, els, nsmap):
    """Draw mostly from what the document contains and the map knows: an unmapped prefix or an absent name matches
    nothing, which is worth testing but makes a composed selector vacuous."""
    mapped = [k for k in nsmap if k]
    tn = sorted({e.name for e in els})
    plain = [(k, v) for e in els for k, v in e.attrs.items() if getattr(k, 'namespace', None) != XMLNS and str(k) != 'xmlns' and isinstance(v, str)]
    an = sorted({getattr(k, 'name', None) or str(k) for k, _ in plain})
    vals = sorted({v for _, v in plain})
    return {'pfx': [None, None, '', '*'] + mapped * 3 + [r.choice(['p', 'q', 'svg', 'z', 'xlink', 'h'])],
            'type': tn * 2 + ['*'] * (1 + len(tn) // 2) + [r.choice(TYPE_NAMES)],
            'attr': an * 2 + [r.choice(ATTR_NAMES)],
            'val': vals * 2 + [r.choice(VALUES)],
            'els': els + [e for e in els if repeated_local_name(e)] * 3, 'ns': nsmap}


def repeated_local_name(e):
    """Does the element carry one local attribute name more than once (in different namespaces / none)?"""
    local = [getattr(k, 'name', None) or str(k) for k in e.attrs if getattr(k, 'namespace', None) != XMLNS]
    return len(set(local)) < len(local)


def prefix_for(r, pool, uri):
    """A way to write 'in namespace `uri`' (None: no namespace) under the pool's map."""
    ways = [k for k, v in pool['ns'].items() if k and v == (uri or '')] * 3 + ['*']      # a prefix mapped to '' says "no namespace"
    if not uri:
        ways += ['', '']
    return r.choice(ways)


def gen_attr(r, pfx, pool=DEFAULT_POOL, witness=None):
    own = [k for k in witness.attrs if getattr(k, 'namespace', None) != XMLNS] if witness is not None else []
    if own and r.random() < 0.8:
        # describe an attribute the witness element has (namespace declarations aside)
        local = [getattr(k, 'name', None) or str(k) for k in own]
        # a local name the element carries more than once (in different namespaces / none) is the interesting one
        k = r.choice([k for k, n in zip(own, local) for _ in range(4 if local.count(n) > 1 else 1)])
        kns, v = getattr(k, 'namespace', None), witness.attrs[k]
        v = v if isinstance(v, str) else ' '.join(v)
        name = getattr(k, 'name', None) if kns is not None else str(k)
        if pfx is not None or kns is not None:
            pfx = prefix_for(r, pool, kns) if r.random() < 0.85 else pfx
        if r.random() < 0.4 or not v.strip():
            return ('attr', pfx, name)
        op = r.choice(OPS)
        val = {'=': v, '!=': v, '^=': v[:r.randint(1, len(v))], '$=': v[-r.randint(1, len(v)):], '*=': v[len(v) // 2:][:1],
               '~=': v.split()[0], '|=': v.split('-')[0]}[op]
        return ('attr', pfx, name, op, val if r.random() < 0.85 else r.choice(pool['val']))
    if r.random() < 0.5:
        return ('attr', pfx, r.choice(pool['attr']))
    return ('attr', pfx, r.choice(pool['attr']), r.choice(OPS), r.choice(pool['val'] + ['', '-', '1', '2']))


def render_attr(it):
    p = '' if it[1] is None else it[1] + '|'
    if len(it) == 3:
        return f'[{p}{esc(it[2])}]'
    q = '"' if len(it[4]) % 2 else "'"
    return f'[{p}{esc(it[2])}{it[3]}{q}{it[4]}{q}]'


def value_test(op, val, v):
    """CSS attribute operators on one attribute value (`!=` is handled by the caller: it negates `=` on the element)."""
    if op == '=':
        return v == val
    if op == '^=':
        return val != '' and v.startswith(val)
    if op == '$=':
        return val != '' and v.endswith(val)
    if op == '*=':
        return val != '' and val in v
    if op == '~=':
        return val != '' and not any(c in val for c in ' \t\n\f\r') and val in [w for w in re.split('[ \t\n\f\r]+', v) if w]
    if op == '|=':
        return v == val or v.startswith(val + '-')
    raise ValueError(op)


def element_siblings(e):
    """The element children of the element's parent, in document order (the root: the elements at the top of the document)."""
    return [c for c in e.parent.contents if isinstance(c, bs4.Tag)] if e.parent is not None else [e]


def anb_text(r, a, b):
    """One of the ways CSS writes the arithmetic progression a*n + b (n = 0, 1, 2, ...)."""
    if a == 2 and b == 1 and r.random() < 0.4:
        return r.choice(['odd', 'ODD', 'odd'])
    if a == 2 and b == 0 and r.random() < 0.4:
        return r.choice(['even', 'Even', 'even'])
    if a == 0:
        return r.choice([f'{b}', f'{b}', f'+{b}' if b >= 0 else f'{b}', f'0n{b:+d}'])
    an = {1: r.choice(['n', '+n', '1n']), -1: r.choice(['-n', '-1n'])}.get(a, f'{a}n')
    if b == 0:
        return r.choice([an, an, an + '+0'])
    sign, mag = ('+' if b > 0 else '-'), abs(b)
    return an + r.choice([f'{sign}{mag}', f'{sign}{mag}', f' {sign} {mag}', f'{sign} {mag}'])


def anb_hits(a, b, pos):
    """Is pos = a*n + b for some n >= 0?"""
    d = pos - b
    return d == 0 if a == 0 else (d % a == 0 and d // a >= 0)


def gen_nth(r, depth, customs, bare, pool=DEFAULT_POOL, witness=None):
    """A child-position test.  With a witness element, mostly one that holds at the witness's real position among ALL the
    element children of its parent (whatever their namespaces)."""
    if r.random() < 0.12:
        return ('nthkw', r.choice(['first-child', 'last-child', 'only-child']))
    last = r.random() < 0.4
    if witness is not None and r.random() < 0.8:
        sibs = element_siblings(witness)
        if last:
            sibs = sibs[::-1]
        pos = next(i for i, x in enumerate(sibs) if x is witness) + 1
    else:
        pos = r.choice([1, 1, 2, 2, 3, 4])
    a = r.choice([0, 0, 0, 0, 1, 2, 2, 3, -1, -1, -2])
    b = pos - a * r.choice([0, 0, 1, 2])
    of = None
    if depth > 0 and r.random() < 0.25:
        of = [gen_complex(r, 0, customs, bare, pool) for _ in range(r.choice([1, 1, 2]))]
    return ('nth', last, a, b, of, anb_text(r, a, b))


def gen_compound(r, depth, customs, bare, pool=DEFAULT_POOL):
    # half of the compounds describe an element that exists (name, namespace as the map spells it, attributes)
    w = r.choice(pool['els']) if pool.get('els') and r.random() < 0.5 else None

    def pfx():
        return None if bare else r.choice(pool['pfx'])
    t = None
    if r.random() < 0.55:
        if w is not None:
            t = ('type', None if bare or r.random() < 0.2 else prefix_for(r, pool, w.namespace), r.choice([w.name, w.name, '*']))
        else:
            t = ('type', pfx(), r.choice(pool['type']))
    items = []
    for _ in range(r.choice([0, 0, 1, 1, 2]) if t else r.choice([1, 1, 1, 2])):
        x = r.random()
        if customs and x < 0.3:
            items.append(('custom', r.choice(customs)))
        elif depth > 0 and x < 0.5:
            items.append((r.choice(['is', 'not', 'not', 'where']), [gen_complex(r, depth - 1, customs, bare, pool) for _ in range(r.choice([1, 1, 2]))]))
        elif depth > 0 and x < 0.58:
            items.append(('has', r.choice(COMBS), gen_compound(r, depth - 1, customs, bare, pool)))
        elif x >= 0.86:
            # a namespace test combined with a child-position test in one compound
            items.append(gen_nth(r, depth, customs, bare, pool, w))
        else:
            items.append(gen_attr(r, pfx(), pool, w))
    return ('cp', t, items)


def gen_complex(r, depth, customs, bare, pool=DEFAULT_POOL):
    cx = [gen_compound(r, depth, customs, bare, pool)]
    while len(cx) < 5 and r.random() < 0.22:
        cx += [r.choice(COMBS), gen_compound(r, depth, customs, bare, pool)]
    return cx


def gen_composed(r, pool):
    """-> (selector list AST, {':--name': selector list AST}, where the prefixes live)."""
    pfxs = pool['pfx']
    if pool.get('els') and r.random() < 0.24:
        # a chain read off an actual ancestor path: 3-5 compounds, mostly WITHOUT a type selector — under a map with a default
        # entry every one of them carries an implied universal that must be in the default namespace, however far left it is
        w = r.choice(pool['els'])
        chain = [w] + [a for a in w.parents if isinstance(a, bs4.Tag) and not isinstance(a, bs4.BeautifulSoup)][:r.choice([2, 2, 3, 4])]
        if len(chain) >= 3:
            cx = []
            for x in reversed(chain):
                t = None if r.random() < 0.75 else ('type', None, r.choice([x.name, '*']))
                items = [gen_attr(r, None, pool, x)] if (t is None or r.random() < 0.5) else []
                if cx:
                    cx.append(' ' if r.random() < 0.6 else ' > ')
                cx.append(('cp', t, items))
            lst = [cx]
            if r.random() < 0.3:
                lst.insert(r.choice([0, 1]), gen_complex(r, 0, [], True, pool))
            return lst, {}, 'ns-chain'
    if pool.get('els') and r.random() < 0.14:
        # `ns|E:nth-child(an+b)`: an element that exists, named through the map (or not at all), at its real position among ALL its
        # parent's element children - whatever namespaces the siblings are in and whatever the map's default entry says
        w = r.choice(pool['els'])
        x = r.random()
        t = None if x < 0.15 else ('type', None if x < 0.3 else prefix_for(r, pool, w.namespace), r.choice([w.name, w.name, '*']))
        items = [gen_nth(r, r.choice([0, 0, 1]), [], False, pool, w)]
        if r.random() < 0.25:
            items.insert(r.choice([0, 1]), r.choice([gen_attr(r, r.choice(pfxs), pool, w), gen_nth(r, 0, [], False, pool, w)]))
        cx = [('cp', t, items)]
        par = w.parent
        if isinstance(par, bs4.Tag) and not isinstance(par, bs4.BeautifulSoup) and r.random() < 0.3:
            cx = [('cp', ('type', prefix_for(r, pool, par.namespace), r.choice([par.name, '*'])), []), ' > '] + cx
        elif r.random() < 0.15:
            cx += [r.choice(COMBS), gen_compound(r, 0, [], False, pool)]
        lst = [cx]
        if r.random() < 0.2:
            lst.insert(r.choice([0, 1]), gen_complex(r, 0, [], False, pool))
        return lst, {}, 'ns-nth'
    where = r.choice(['custom-only', 'custom-only', 'pattern-only', 'both', 'both', 'no-custom', 'no-custom'])
    customs = {}
    if where != 'no-custom':
        for i in range(r.choice([1, 1, 2, 3])):
            # a definition may use the ones defined before it
            customs[f':--c{i}'] = [gen_complex(r, r.choice([0, 0, 1]), list(customs), where == 'pattern-only', pool) for _ in range(r.choice([1, 1, 2]))]
    names = list(customs)
    if where == 'no-custom' and r.random() < 0.6:
        # one attribute test, its negation, or two of them on one element
        w = r.choice(pool['els']) if pool.get('els') and r.random() < 0.7 else None
        a = gen_attr(r, r.choice(pfxs + ['*', '*']), pool, w)
        t = r.choice([None, None, ('type', r.choice(pfxs), r.choice(pool['type']))])
        shape = r.randrange(4)
        if shape < 2:
            lst = [[('cp', t, [a])]]
        elif shape == 2:
            lst = [[('cp', t, [('not', [[('cp', None, [a])]])])]]
        else:
            lst = [[('cp', t, [a, r.choice([gen_attr(r, r.choice(pfxs), pool, w), ('not', [[('cp', None, [gen_attr(r, a[1], pool, w)])]])])])]]
    elif where == 'custom-only' and r.random() < 0.5:
        # the pattern is little more than the custom pseudo-class
        c = ('custom', names[-1])
        t = r.choice([None, None, ('type', None, r.choice(pool['type']))])
        shape = r.randrange(5)
        if shape == 0:
            lst = [[('cp', t, [c])]]
        elif shape == 1:
            lst = [[('cp', ('type', None, r.choice(pool['type'])), []), r.choice(COMBS), ('cp', t, [c])]]
        elif shape == 2:
            lst = [[('cp', t, [c]), r.choice(COMBS), gen_compound(r, 0, names, True, pool)]]
        elif shape == 3:
            lst = [[('cp', t, [(r.choice(['not', 'is', 'where']), [[('cp', None, [c])]])])]]
        else:
            lst = [[('cp', t, [('has', r.choice(COMBS), ('cp', None, [c]))])]]
    else:
        lst = [gen_complex(r, r.choice([0, 1, 1, 2]), names, where == 'custom-only', pool) for _ in range(r.choice([1, 1, 1, 2]))]
        if names and not any(n in render_list(lst) for n in names):
            lst[0][-1][2].append(('custom', r.choice(names)))
    return lst, customs, where


def render_compound(cp):
    _, t, items = cp
    out = render(t) if t else ''
    for it in items:
        if it[0] == 'attr':
            out += render_attr(it)
        elif it[0] == 'custom':
            out += it[1]
        elif it[0] == 'nthkw':
            out += ':' + it[1]
        elif it[0] == 'nth':
            out += f':nth-{"last-" if it[1] else ""}child({it[5]}{" of " + render_list(it[4]) if it[4] is not None else ""})'
        elif it[0] == 'has':
            out += f':has({it[1].strip()} {render_compound(it[2])})' if it[1].strip() else f':has({render_compound(it[2])})'
        else:
            out += f':{it[0]}({render_list(it[1])})'
    return out


def render_list(lst):
    return ', '.join(''.join(x if isinstance(x, str) else render_compound(x) for x in cx) for cx in lst)


def uses_prefix(lst):
    """Does this selector list itself (custom definitions not followed) write a namespace prefix?"""
    def cp_uses(cp):
        _, t, items = cp
        if t and t[1] is not None:
            return True
        for it in items:
            if it[0] == 'attr' and it[1] is not None:
                return True
            if it[0] == 'has' and cp_uses(it[2]):
                return True
            if it[0] in ('is', 'not', 'where') and uses_prefix(it[1]):
                return True
            if it[0] == 'nth' and it[4] is not None and uses_prefix(it[4]):
                return True
        return False
    return any(cp_uses(x) for cx in lst for x in cx if not isinstance(x, str))


class TreeOracle:
    """The property, read off the tree.  `fold`: HTML5 documents compare names ASCII case-insensitively."""

    def __init__(self, els, nsmap, customs, fold=False):
        self.els, self.ns, self.customs, self.fold = els, nsmap, customs, fold
        ids = {id(e) for e in els}
        self.parent = {id(e): (e.parent if id(e.parent) in ids else None) for e in els}
        self.kids = {id(e): [c for c in e.contents if isinstance(c, bs4.Tag)] for e in els}

    def name_eq(self, a, b):
        return a.lower() == b.lower() if self.fold else a == b

    @staticmethod
    def uri(e):
        return e.namespace or ''

    def in_default(self, e):
        return '' not in self.ns or self.ns[''] == self.uri(e)

    def type_(self, e, pfx, name):
        if name != '*' and not self.name_eq(e.name, name):
            return False
        if pfx is None:
            return self.in_default(e)
        if pfx == '':
            return self.uri(e) == ''
        if pfx == '*':
            return True
        return pfx in self.ns and self.ns[pfx] == self.uri(e)

    def attr(self, e, pfx, name, op=None, val=None):
        """Some attribute with that local name in the designated namespace(s) exists / has a matching value."""
        if op == '!=':
            return not self.attr(e, pfx, name, '=', val)
        for k, v in e.attrs.items():
            kns, kname = getattr(k, 'namespace', None), getattr(k, 'name', None)
            if pfx in (None, '') or (pfx != '*' and self.ns.get(pfx) == ''):
                # a prefix mapped to '' designates "no namespace": `[n|a]` reads as `[|a]` / `[a]`, as `n|E` reads as `|E`
                hit = self.name_eq(str(k), name)
            elif pfx == '*':
                hit = self.name_eq(str(k), name) if kns is None else self.name_eq(kname, name)
            else:
                hit = pfx in self.ns and kns is not None and kns == self.ns[pfx] and self.name_eq(kname, name)
            if hit and (op is None or value_test(op, val, v if isinstance(v, str) else ' '.join(v))):
                return True
        return False

    def before(self, e):
        p = self.parent[id(e)]
        sibs = self.kids[id(p)] if p is not None else []
        i = next((i for i, s in enumerate(sibs) if s is e), 0)
        return sibs[:i]

    def after(self, e):
        p = self.parent[id(e)]
        sibs = self.kids[id(p)] if p is not None else []
        i = next((i for i, s in enumerate(sibs) if s is e), len(sibs))
        return sibs[i + 1:]

    def descendants(self, e):
        out = []
        for c in self.kids[id(e)]:
            out.append(c)
            out.extend(self.descendants(c))
        return out

    def compound(self, e, cp, top):
        _, t, items = cp
        if t is None:
            # only a compound written at the top level of the pattern carries an implied universal selector
            if top and not self.in_default(e):
                return False
        elif not self.type_(e, t[1], t[2]):
            return False
        return all(self.item(e, it) for it in items)

    def item(self, e, it):
        k = it[0]
        if k == 'attr':
            return self.attr(e, *it[1:])
        if k == 'custom':
            return self.any_of(e, self.customs[it[1]], False)
        if k == 'nthkw':
            sibs = element_siblings(e)
            return {'first-child': sibs[0] is e, 'last-child': sibs[-1] is e, 'only-child': len(sibs) == 1}[it[1]]
        if k == 'nth':
            # position among the parent's element children - ALL of them when no `of S` is written (namespaces play no part in
            # counting, and neither does the map's default entry), those that match S otherwise (S is a nested selector list)
            _, last, a, b, of = it[:5]
            sibs = element_siblings(e)
            if of is not None:
                if not self.any_of(e, of, False):
                    return False
                sibs = [x for x in sibs if self.any_of(x, of, False)]
            if last:
                sibs = sibs[::-1]
            return anb_hits(a, b, next(i for i, x in enumerate(sibs) if x is e) + 1)
        if k == 'not':
            return not self.any_of(e, it[1], False)
        if k == 'has':
            comb = it[1].strip()
            rel = (self.descendants(e) if comb == '' else self.kids[id(e)] if comb == '>' else self.after(e)[:1] if comb == '+' else self.after(e))
            return any(self.compound(x, it[2], False) for x in rel)
        return self.any_of(e, it[1], False)

    def any_of(self, e, lst, top):
        return any(self.complex(e, cx, top) for cx in lst)

    def complex(self, e, cx, top):
        if not self.compound(e, cx[-1], top):
            return False
        if len(cx) == 1:
            return True
        comb, rest = cx[-2].strip(), cx[:-2]
        if comb == '>':
            cand = [self.parent[id(e)]]
        elif comb == '':
            cand, p = [], self.parent[id(e)]
            while p is not None:
                cand.append(p)
                p = self.parent[id(p)]
        elif comb == '+':
            cand = self.before(e)[-1:]
        else:
            cand = self.before(e)
        return any(c is not None and self.complex(c, rest, top) for c in cand)

    def select(self, lst):
        return [id(e) for e in self.els if self.any_of(e, lst, True)]


def vary_map(r, nsmap):
    """A neighbouring prefix map: one prefix re-bound, dropped or added, or the default entry toggled."""
    m = dict(nsmap)
    x = r.random()
    keys = [k for k in m if k]
    if x < 0.3 and keys:
        m[r.choice(keys)] = r.choice([U1, U2, U3, gen.XLINK, gen.XHTML, ''])
    elif x < 0.5 and keys:
        del m[r.choice(keys)]
    elif x < 0.75:
        m[r.choice(['p', 'q', 'svg', 'z', 'xlink', 'h'])] = r.choice([U1, U2, U3, gen.XLINK, gen.XHTML, ''])
    elif '' in m:
        del m['']
    else:
        m[''] = r.choice([U1, U2, gen.XHTML, U3])
    return m


def rule_check(soup, els, xml, sel, custom, maps, ast, stats=None):
    """Evaluate one pattern on the real library under the prefix maps of `maps` one after the other (the compile cache
    is not purged in between) and compare each answer with the tree oracle.  -> list of failure records."""
    bad = []
    for step, nsmap in enumerate(maps):
        try:
            got = [id(e) for e in sv.select(sel, soup, namespaces=nsmap, custom=custom or None)]
        except Exception as e:
            bad.append({'step': step, 'namespaces': nsmap, 'exception': repr(e)})
            continue
        if ast[0] == 'form':
            want = expect(ast[1], els, nsmap, True) if xml else None
        else:
            want = TreeOracle(els, nsmap, ast[2], fold=not xml).select(ast[1])
        if want and stats is not None:
            stats['rule_instances_nonempty'] += 1
        if want is not None and got != want:
            pos = {id(e): n for n, e in enumerate(els)}
            bad.append({'step': step, 'namespaces': nsmap, 'got': [pos.get(g) for g in got], 'want': [pos[w] for w in want]})
    return bad


def make_cases_factory(state):
    def make_cases(rng, n):
        cases = []
        while len(cases) < n:
            x = rng.random()
            if x < 0.6:
                markup, parser = xml_doc(rng), 'xml'
            elif x < 0.85:
                markup, parser = html5_doc(rng), 'html5lib'
            else:
                markup, parser = html5_doc(rng), 'html.parser'
            try:
                soup = bs4.BeautifulSoup(markup, parser)
            except Exception:
                continue
            els = gen.elements(soup)
            root = next((c for c in soup.contents if isinstance(c, bs4.Tag)), None)
            supports = bool(soup._is_xml) or (root is not None and root.namespace == gen.XHTML)
            xml = bool(soup._is_xml)
            doc_uris = sorted({e.namespace for e in els if e.namespace} | {k.namespace for e in els for k in e.attrs if getattr(k, 'namespace', None)})
            state['documents'] += 1
            state['documents_repeated_local'] += any(repeated_local_name(e) for e in els)
            for _ in range(5):
                composed = rng.random() < 0.45
                # composed selectors: the map mostly speaks about namespaces that occur in the document
                uris = [U1, U2, U3, gen.XLINK, gen.XHTML] + (doc_uris * 2 if composed else [])
                nsmap = {}
                for p in rng.sample(['p', 'q', 'svg', 'z', 'xlink', 'h'], rng.randint(1 if composed and rng.random() < 0.9 else 0, 3)):
                    # a prefix may be mapped to the EMPTY string: it then designates "no namespace" (`n|E` = `|E`, `[n|a]` = `[|a]`)
                    nsmap[p] = '' if rng.random() < 0.18 else rng.choice(uris)
                empties = [k for k, v in nsmap.items() if k and v == '']
                state['maps_with_prefix_mapped_to_empty'] += bool(empties)
                if rng.random() < (0.4 if composed else 0.25):
                    nsmap[''] = rng.choice(uris[:3] + uris[4:])
                custom = {}
                if composed:
                    # composed selector: compounds, combinators, lists, :is/:not/:where/:has, custom pseudo-classes
                    lst, customs, where = gen_composed(rng, doc_pool(rng, els, nsmap))
                    sel = render_list(lst)
                    custom = {k: render_list(v) for k, v in customs.items()}
                    ast = ('composed', lst, customs)
                    oracle_applies = supports          # names are compared exactly in XML, case-folded in HTML5
                    state['composed'] += 1
                    state['where_' + where] += 1
                    state['attr_value_tests'] += any(q in t for t in [sel] + list(custom.values()) for q in ('="', "='"))
                    if any(q in t for t in [sel] + list(custom.values()) for q in (':nth-child(', ':nth-last-child(')):
                        state['child_position_tests'] += 1
                        if '' in nsmap and any((e.namespace or '') != nsmap[''] for e in els):
                            state['child_position_tests_default_entry_foreign_elements'] += 1
                    if customs and not uses_prefix(lst) and any(uses_prefix(v) for v in customs.values()) and any(k in sel for k in customs):
                        state['prefix_only_via_custom'] += 1
                        if '' not in nsmap:
                            state['prefix_only_via_custom_no_default'] += 1
                else:
                    pfx = rng.choice([None, '', '*', 'p', 'q', 'svg', 'z', 'xlink', 'h'])
                    if empties and rng.random() < 0.5:
                        pfx = rng.choice(empties)
                        state['forms_with_prefix_mapped_to_empty'] += 1
                    form = (rng.choice(['type', 'type', 'attr']), pfx, rng.choice(NAMES + ATTRS + ['*', 'circle', 'mi', 'p']))
                    if form[0] == 'attr' and form[2] == '*':
                        continue
                    if form[0] == 'attr' and rng.random() < 0.3:
                        # the attribute NAME in another letter case: exact in XML, ASCII-folded elsewhere (whole key and local name)
                        form = (form[0], form[1], gen.swapcase_some(rng, form[2]))
                    sel = render(form)
                    if xml and root is not None and root.namespace != gen.XHTML and rng.random() < 0.4:
                        # HTML-only pseudo-classes never match in plain XML, so these decorations change nothing
                        sel += rng.choice([':not(:checked)', ':not(:link)', ':not(:disabled, :required)', ':is(*|*, :enabled)', ':not(:read-write)',
                                           ':not(:default):not(:indeterminate)'])
                    ast = ('form', form)
                    # the independent reading applies to documents with namespace support and exact (XML) names
                    oracle_applies = supports and xml
                maps = [nsmap]
                if oracle_applies and rng.random() < 0.3:
                    # the same pattern under neighbouring maps, back to back, and the first map again
                    maps += [vary_map(rng, nsmap) for _ in range(rng.choice([1, 1, 2]))] + [nsmap]
                    state['map_sequences'] += 1
                state['checks'] += len(maps) if oracle_applies else 1
                if oracle_applies:
                    for b in rule_check(soup, els, xml, sel, custom, maps, ast, state):
                        state['bad'].append({'selector': sel, 'custom': custom, 'markup': markup, 'parser': parser, 'maps': maps,
                                             'ast': ast, **b})
                else:
                    try:
                        sv.select(sel, soup, namespaces=nsmap, custom=custom or None)
                    except Exception as e:
                        state['bad'].append({'selector': sel, 'custom': custom, 'namespaces': nsmap, 'markup': markup, 'parser': parser,
                                             'exception': repr(e)})
                # the same question asked from inside the tree: the call target may itself be a foreign (non-XHTML) element
                qs = [('select', [], 0)]
                foreign = [e for e in els if e.namespace not in (None, gen.XHTML)]
                for e in rng.sample(els, min(2, len(els))) + rng.sample(foreign, min(2, len(foreign))):
                    qs.append(('select', enc.path_of(e), 0))
                    qs.append(('match', enc.path_of(e), 0))
                    qs.append(('closest', enc.path_of(e), 0))
                case = {'markup': markup, 'parser': parser, 'selector': sel, 'ns': nsmap, 'queries': qs}
                if custom:
                    case['custom'] = custom
                cases.append(case)
        return cases[:n]
    return make_cases


def run(chk):
    state = Counter()
    state['bad'] = []
    orig = chk.finish

    def finish(**kw):
        chk.coverage.update({'rule_instances': state['checks'], 'rule_violations': len(state['bad']),
                             'rule_instances_with_nonempty_answer': state['rule_instances_nonempty'],
                             'composed_selectors': state['composed'],
                             'composed_prefixes_live_in': {k[6:]: v for k, v in state.items() if k.startswith('where_')},
                             'patterns_whose_only_prefixes_are_in_custom_definitions': state['prefix_only_via_custom'],
                             'of_which_map_without_default_entry': state['prefix_only_via_custom_no_default'],
                             'prefix_map_sequences_without_purge': state['map_sequences'],
                             'composed_selectors_with_attribute_value_tests': state['attr_value_tests'],
                             'composed_selectors_with_nth_child_or_nth_last_child': state['child_position_tests'],
                             'of_which_map_with_default_entry_and_elements_outside_it': state['child_position_tests_default_entry_foreign_elements'],
                             'documents': state['documents'],
                             'prefix_maps_with_a_prefix_mapped_to_the_empty_string': state['maps_with_prefix_mapped_to_empty'],
                             'single_forms_written_with_such_a_prefix': state['forms_with_prefix_mapped_to_empty'],
                             'documents_with_one_local_attribute_name_in_several_namespaces_on_one_element': state['documents_repeated_local']})
        for i, b in enumerate(state['bad'][:5]):
            chk.violation(f'rule{i}', {'what': 'namespace rule violated on the real code', **b}, concrete=True)
        return orig(**kw)
    chk.finish = finish
    return common_match.run(chk, PID, SOURCES, make_cases_factory(state), 3000, 60000, RULE,
                            'SoupVerif.Properties.C12 / correspondence PY select ≡ Model select on namespaced trees')


def replay(chk, path):
    data = json.load(open(path))
    if 'case' in data:
        return common_match.replay(chk, path, PID)
    # a rule violation: re-evaluate the real library against the tree oracle
    soup = bs4.BeautifulSoup(data['markup'], data['parser'])
    if 'ast' not in data:
        sv.select(data['selector'], soup, namespaces=data['namespaces'], custom=data.get('custom') or None)
        return 0
    bad = rule_check(soup, gen.elements(soup), bool(soup._is_xml), data['selector'], data.get('custom'), data['maps'], data['ast'])
    print(json.dumps(bad, default=repr))
    if bad:
        print(f'VIOLATION property={PID} replay={path}')
        return 1
    return 0
