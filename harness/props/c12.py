"""C12: namespace selectors compare namespace URIs through the supplied prefix map."""
import json
import random
import warnings

import bs4
import soupsieve as sv

import enc
import gen
from props import common_match

warnings.simplefilter('ignore')
PID = 'C12'
SOURCES = ['SoupVerif/Properties/C12.lean', 'SoupVerif/Lemmas/Names.lean', 'SoupVerif/Model/Match.lean']
RULE = ('XML documents (lxml-xml) with default, prefixed, redeclared and undeclared namespaces on elements and attributes, '
        'HTML5 documents (html5lib) with inline SVG/MathML and xlink attributes, html.parser documents (no namespace '
        'support); prefix maps equal to, different from and colliding with the document\'s own prefixes, with and without a '
        'default entry; every selector form: ns|E, *|E, |E, E, ns|*, [ns|a], [*|a], [|a], [a], unmapped prefixes. Checked '
        'on PY against an independent reading of the rule from the element\'s namespace URI / the attribute key\'s namespace '
        '(the property), and PY = Lean matcher model. Non-trivial = non-empty result.')

U1, U2, U3 = 'urn:one', 'urn:two', gen.SVG
NAMES = ['a', 'b', 'item']
ATTRS = ['x', 'href', 'id']


def xml_doc(r):
    def el(depth, inherited):
        scope = dict(inherited)
        decl = ''
        if r.random() < 0.35:
            p = r.choice(['p', 'q', 'svg'])
            scope[p] = r.choice([U1, U2, U3])
            decl += f' xmlns:{p}="{scope[p]}"'
        if r.random() < 0.2:
            scope[''] = r.choice([U1, U2, ''])
            decl += f' xmlns="{scope[""]}"'
        pref = r.choice([''] + [k for k in scope if k])
        name = r.choice(NAMES)
        qn = f'{pref}:{name}' if pref else name
        attrs = ''
        for a in r.sample(ATTRS, r.randint(0, 2)):
            ap = r.choice([''] * 2 + [k for k in scope if k])
            attrs += f' {ap + ":" if ap else ""}{a}="{r.choice(["1", "2"])}"'
        kids = ''.join(el(depth + 1, scope) for _ in range(r.randint(0, 3))) if depth < 3 else ''
        return f'<{qn}{decl}{attrs}>{kids}</{qn}>'
    return '<?xml version="1.0"?>' + el(0, {})


def html5_doc(r):
    inner = ''.join(r.choice(['<svg><a xlink:href="1" href="2" id="s"><circle x="1"/></a></svg>', '<math><mi id="m" x="2">x</mi></math>',
                              '<p id="p" x="1"><a href="2">t</a></p>', '<div><item x="1"></item></div>']) for _ in range(r.randint(1, 4)))
    return f'<html><body>{inner}</body></html>'


def expect(sel_form, els, nsmap, supports):
    kind = sel_form[0]

    def uri(e):
        return (e.namespace or '') if supports else gen.XHTML
    if kind == 'type':
        _, pfx, name = sel_form
        out = []
        for e in els:
            if name != '*' and e.name != name:
                continue
            if pfx is None:
                ok = ('' not in nsmap) or nsmap[''] == uri(e)
            elif pfx == '':
                ok = uri(e) == ''
            elif pfx == '*':
                ok = True
            else:
                ok = pfx in nsmap and nsmap[pfx] == uri(e)
            if ok:
                out.append(id(e))
        return out
    _, pfx, name = sel_form
    out = []
    for e in els:
        # a top-level attribute selector carries an implied universal selector, which a default namespace narrows
        if '' in nsmap and nsmap[''] != uri(e):
            continue
        hit = False
        for k in e.attrs:
            kns = getattr(k, 'namespace', None)
            kname = getattr(k, 'name', None)
            if pfx in (None, ''):
                hit = hit or str(k) == name
            elif pfx == '*':
                hit = hit or (kns is None and str(k) == name) or (kns is not None and kname == name)
            else:
                hit = hit or (pfx in nsmap and kns is not None and kns == nsmap[pfx] and kname == name)
        if hit:
            out.append(id(e))
    return out


def render(sel_form):
    kind, pfx, name = sel_form
    p = '' if pfx is None else pfx + '|'
    return f'{p}{name}' if kind == 'type' else f'[{p}{name}]'


def make_cases_factory(state):
    def make_cases(rng, n):
        cases = []
        while len(cases) < n:
            x = rng.random()
            if x < 0.6:
                markup, parser = xml_doc(rng), 'xml'
            elif x < 0.85:
                markup, parser = html5_doc(rng), 'html5lib'
            else:
                markup, parser = html5_doc(rng), 'html.parser'
            try:
                soup = bs4.BeautifulSoup(markup, parser)
            except Exception:
                continue
            els = gen.elements(soup)
            root = next((c for c in soup.contents if isinstance(c, bs4.Tag)), None)
            supports = bool(soup._is_xml) or (root is not None and root.namespace == gen.XHTML)
            xml = bool(soup._is_xml)
            for _ in range(5):
                nsmap = {}
                for p in rng.sample(['p', 'q', 'svg', 'z', 'xlink', 'h'], rng.randint(0, 3)):
                    nsmap[p] = rng.choice([U1, U2, U3, gen.XLINK, gen.XHTML])
                if rng.random() < 0.25:
                    nsmap[''] = rng.choice([U1, U2, gen.XHTML, U3])
                pfx = rng.choice([None, '', '*', 'p', 'q', 'svg', 'z', 'xlink', 'h'])
                form = (rng.choice(['type', 'type', 'attr']), pfx, rng.choice(NAMES + ATTRS + ['*', 'circle', 'mi', 'p']))
                if form[0] == 'attr' and form[2] == '*':
                    continue
                sel = render(form)
                if xml and root is not None and root.namespace != gen.XHTML and rng.random() < 0.4:
                    # HTML-only pseudo-classes never match in plain XML, so these decorations change nothing
                    sel += rng.choice([':not(:checked)', ':not(:link)', ':not(:disabled, :required)', ':is(*|*, :enabled)', ':not(:read-write)',
                                       ':not(:default):not(:indeterminate)'])
                state['checks'] += 1
                try:
                    got = [id(e) for e in sv.select(sel, soup, namespaces=nsmap)]
                    # the independent reading applies to documents with namespace support and exact (XML) names;
                    # in HTML5 documents names fold, so compare names case-insensitively there
                    if supports and xml:
                        want = expect(form, els, nsmap, supports)
                        if got != want:
                            state['bad'].append({'selector': sel, 'namespaces': nsmap, 'markup': markup, 'parser': parser,
                                                 'got': len(got), 'want': len(want)})
                except Exception as e:
                    state['bad'].append({'selector': sel, 'namespaces': nsmap, 'markup': markup, 'parser': parser, 'exception': repr(e)})
                # the same question asked from inside the tree: the call target may itself be a foreign (non-XHTML) element
                qs = [('select', [], 0)]
                foreign = [e for e in els if e.namespace not in (None, gen.XHTML)]
                for e in rng.sample(els, min(2, len(els))) + rng.sample(foreign, min(2, len(foreign))):
                    qs.append(('select', enc.path_of(e), 0))
                    qs.append(('match', enc.path_of(e), 0))
                    qs.append(('closest', enc.path_of(e), 0))
                cases.append({'markup': markup, 'parser': parser, 'selector': sel, 'ns': nsmap, 'queries': qs})
        return cases[:n]
    return make_cases


def run(chk):
    state = {'checks': 0, 'bad': []}
    orig = chk.finish

    def finish(**kw):
        chk.coverage.update({'rule_instances': state['checks'], 'rule_violations': len(state['bad'])})
        for i, b in enumerate(state['bad'][:5]):
            chk.violation(f'rule{i}', {'what': 'namespace rule violated on the real code', **b}, concrete=True)
        return orig(**kw)
    chk.finish = finish
    return common_match.run(chk, PID, SOURCES, make_cases_factory(state), 1500, 60000, RULE,
                            'SoupVerif.Properties.C12 / correspondence PY select ≡ Model select on namespaced trees')


def replay(chk, path):
    return common_match.replay(chk, path, PID)
