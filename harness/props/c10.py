"""C10: escape() output always parses back to the original identifier."""
import itertools
import json
import random
import re

import bs4
import soupsieve as sv
from soupsieve import css_parser as cp

import driver
import enc
import framework

PID = 'C10'
SOURCES = ['SoupVerif/Properties/C10.lean', 'SoupVerif/Lemmas/Escape.lean', 'SoupVerif/Model/Escape.lean',
           'SoupVerif/Properties/C10Gen.lean', 'SoupVerif/Generated/PyStrings.lean', 'SoupVerif/Model/PyStrings.lean']
RULE = ('strings: every single code point of the tier\'s range in four positions (alone, after "-", after "a", before "1"), all '
        'pairs/triples over a critical alphabet (NUL, controls, DEL, C1, space, digits, hex letters, "-", "_", backslash, '
        'quotes, brackets, CR/LF/FF, surrogates, astral), random strings; each checked: (1) the property on PY itself: '
        'compile("#"+escape(s)), "."+…, "[a="+…+"]" give id/class/value s with NUL→U+FFFD, and the surrounding selector '
        'is unchanged (prefix/suffix tokens intact); (2) PY escape = Lean Escape.escape; (3) PY IDENTIFIER regex match and '
        'css_unescape = Lean scanIdent / cssUnescape on escape outputs and on hostile strings. Non-trivial = s contains a '
        'code point that escape() must transform.')

CRIT = ['\x00', '\x01', '\x1f', '\x7f', '\x80', '\x9f', ' ', '0', '9', 'a', 'f', 'g', 'A', 'F', '-', '_', '\\', '"', "'", ']', '[',
        '\n', '\r', '\f', '\t', '#', '.', ':', ',', '>', '/', '*', '(', ')', '\ud800', '\udfff', '\U0001f600', '\U0010ffff', 'é', '中']
IDENT_RE = re.compile(cp.IDENTIFIER, re.I | re.X | re.U)
KF_KEY = 'escape-empty-string'


def expect(s):
    return s.replace('\x00', '�')


def prop_on_py(s):
    """The property itself on the real code. Returns a description of the failure or None."""
    e = sv.escape(s)
    want = expect(s)
    try:
        c = cp.CSSParser('#' + e).process_selectors()
        if len(c) != 1 or c[0].ids != (want,) or c[0].classes or c[0].attributes or c[0].selectors or c[0].relation:
            return f'#escape(s) compiled to ids={c[0].ids!r}'
        c = cp.CSSParser('b.' + e + ' > i').process_selectors()
        if len(c) != 1 or c[0].tag.name != 'i' or c[0].relation[0].classes != (want,) or c[0].relation[0].tag.name != 'b' \
                or c[0].relation[0].rel_type != '>':
            return 'b.escape(s) > i compiled to another structure'
        c = cp.CSSParser('[a=' + e + '], p').process_selectors()
        if len(c) != 2 or c[1].tag.name != 'p' or c[0].attributes[0].attribute != 'a' or \
                c[0].attributes[0].pattern.pattern != '^%s\\Z' % re.escape(want):
            return '[a=escape(s)], p compiled to another structure'
    except Exception as ex:
        return f'{type(ex).__name__}: {str(ex).splitlines()[0]}'
    return None


def run(chk):
    proof_ok = framework.lean_pipeline(chk, SOURCES)
    driver_ok = proof_ok or chk.build(['svdriver'])[0]
    rng = random.Random(chk.seed)
    quick = chk.tier == 'quick'
    strings = []
    cps = list(range(0, 0x3000)) + list(range(0xd7f0, 0xe010)) + list(range(0xfff0, 0x10010)) + [0x10ffff, 0x1f600, 0xe0001]
    if not quick:
        cps = list(range(0, 0x110000))
    step = 1
    for i in cps[::step]:
        ch = chr(i)
        strings += [ch, '-' + ch, 'a' + ch, ch + '1']
    for n in (2, 3) if quick else (2, 3):
        pool = CRIT if n == 2 else CRIT[:22]
        for t in itertools.product(pool, repeat=n):
            strings.append(''.join(t))
    for _ in range(3000 if quick else 200000):
        strings.append(''.join(rng.choice(CRIT + ['b', 'c', '1', '2']) for _ in range(rng.randint(1, 10))))
    strings = [s for s in strings if s != '']
    py_bad, nontriv = [], 0
    esc_lines, scan_lines, un_lines = [], [], []
    hostile = []
    for s in strings:
        e = sv.escape(s)
        if e != s:
            nontriv += 1
        bad = prop_on_py(s)
        if bad:
            py_bad.append({'s': [ord(c) for c in s], 'escape': e, 'failure': bad})
        esc_lines.append(f'(8 {enc.s(s)})')
    # the empty string: the recorded finding
    try:
        cp.CSSParser('#' + sv.escape('')).process_selectors()
        empty_ok = True
    except Exception:
        empty_ok = False
    if not empty_ok:
        kf = chk.is_known(KF_KEY)
        if kf:
            chk.known_finding(KF_KEY, kf['text'])
        else:
            py_bad.append({'s': [], 'failure': "'#' + escape('') is a syntax error"})
    # scanner / unescape correspondence on escape outputs followed by delimiters, and on hostile text
    tails = ['', ']', ' x', '\n', ')', ',a', 'a', '-', '\\', '1']
    sample = strings if not quick else rng.sample(strings, 8000)
    subj = []
    for s in sample:
        subj.append(sv.escape(s) + rng.choice(tails))
    alpha = ['\\', '1', 'a', 'f', 'g', ' ', '\n', '\r', '\f', '/', '*', '-', '_', '\x80', '"', 'A', '0']
    for _ in range(6000 if quick else 300000):
        subj.append(''.join(rng.choice(alpha) for _ in range(rng.randint(1, 9))))
    corr_bad = []
    if driver_ok:
        for s, r in zip(strings, driver.run(esc_lines)):
            got = ''.join(chr(c) for c in enc.parse_sx(r))
            if got != sv.escape(s):
                corr_bad.append({'what': 'escape', 's': [ord(c) for c in s], 'py': sv.escape(s), 'model': got})
        for t, r in zip(subj, driver.run([f'(9 {enc.s(t)})' for t in subj])):
            m = IDENT_RE.match(t)
            py = None if m is None else (m.group(0), t[m.end():])
            lr = enc.parse_sx(r)
            lean = None if lr == [] else (''.join(map(chr, lr[0])), ''.join(map(chr, lr[1])))
            if py != lean:
                corr_bad.append({'what': 'IDENTIFIER.match vs scanIdent', 'text': [ord(c) for c in t], 'py': py, 'model': lean})
        for t, r in zip(subj, driver.run([f'(10 {enc.s(t)})' for t in subj])):
            lr = enc.parse_sx(r)
            try:
                py = cp.css_unescape(t)
                raised = False
            except ValueError:
                py, raised = None, True
            if bool(lr[0]) != raised or (not raised and ''.join(map(chr, lr[1])) != py):
                corr_bad.append({'what': 'css_unescape vs cssUnescape', 'text': [ord(c) for c in t], 'py': py, 'py_raised': raised,
                                 'model': lr})
    chk.samples = [{'s': repr(s), 'escape': sv.escape(s)} for s in ['-', '-1', '1a', 'a b', '\x00', '\x80', '\ud800', 'a\\b']]
    chk.coverage.update({'strings': len(strings), 'property_failures_on_py': len(py_bad), 'scanner_subjects': len(subj),
                         'py_vs_model_mismatches': len(corr_bad), 'code_points_single': len(cps)})
    for i, b in enumerate(py_bad[:5]):
        chk.violation(f'py{i}', {'what': 'escape() round trip fails on the implementation', **b}, concrete=True)
    if not py_bad:
        for i, b in enumerate(corr_bad[:4]):
            chk.violation(f'corr{i}', {'correspondence': 'escape / IDENTIFIER / css_unescape ≡ Lean Escape model', **b}, concrete=False)
    if not proof_ok and not (py_bad or corr_bad):
        chk.violation('proof', {'what': 'proof obligation no longer checks; the round-trip sweep found no failing input',
                                'theorem_or_correspondence': 'SoupVerif.Properties.C10', 'detail': chk.notes.get('proof_broken')}, concrete=False)
    return chk.finish(rule=RULE, evaluations=len(strings) + 2 * len(subj), distinct=nontriv)


def replay(chk, path):
    data = json.load(open(path))
    s = ''.join(chr(c) for c in data.get('s', []))
    bad = prop_on_py(s) if s else None
    print(json.dumps({'s': data.get('s'), 'failure': bad}))
    if bad:
        print(f'VIOLATION property={PID} replay={path}')
        return 1
    return 0
