"""C07: selector parsing time is polynomially bounded in the input length."""
import json
import math
import random
import re
import sys
import time
import warnings

import soupsieve as sv
from soupsieve import css_parser as cp

import driver
import enc
import framework

sys.path.insert(0, framework.ROOT + '/gen')
import gen_regexes  # noqa: E402

warnings.simplefilter('ignore')
PID = 'C07'
SOURCES = ['SoupVerif/Properties/C07Parse.lean', 'SoupVerif/Spec/ParseCost.lean', 'SoupVerif/Properties/C07.lean', 'SoupVerif/Spec/RegexCost.lean', 'SoupVerif/Lemmas/RegexCost.lean',
           'SoupVerif/Lemmas/RegexCost/Ends.lean', 'SoupVerif/Lemmas/RegexCost/First.lean', 'SoupVerif/Lemmas/RegexCost/Excl.lean',
           'SoupVerif/Lemmas/RegexCost/Det.lean', 'SoupVerif/Lemmas/RegexCost/Bounds.lean', 'SoupVerif/Generated/Regexes.lean',
           'SoupVerif/Model/Regex.lean']
RULE = ('(1) every compiled regular expression of the source is re-extracted and the theorem all_safe (StarSafe for each) and the '
        'polynomial work bound are re-checked; (2) engine correspondence: for every extracted regex, on strings built from its own '
        'alphabet (characters of its literals and class boundaries, plus neutral ones), CPython re.match(s, i).end() must equal the '
        'head of the Lean engine\'s runs; (3) pump families: truncated / unterminated prefixes of quoted values, value lists, '
        'comments, escapes, whitespace runs, nested brackets, each repeated n times for doubling n, and custom-selector tables whose definitions refer to one another two or three times per level (every definition must be compiled once: sub-parse count <= 4 x entries): the real compile() time and '
        'the model\'s work count must grow polynomially (log-log slope below 3.2, and no single compile above the time budget). '
        '(4) when the StarSafe obligation fails (always in the thorough tier): the model names the expressions it rejects and a '
        '(prefix, unit) whose number of backtracking paths grows geometrically with the repetition count; the real compiled '
        'expression and compile() are then timed on that input for growing n. '
        'Non-trivial (2) = the regex matches a non-empty prefix.')

PUMPS = {
    'dq': lambda n: '[a="' + 'a' * n,
    'sq': lambda n: "[a='" + 'a' * n,
    'dq_esc': lambda n: '[a="' + '\\a' * n,
    'lang': lambda n: ':lang(' + ','.join(['aa'] * n),
    'lang_q': lambda n: ':lang(' + ','.join(['"a"'] * n),
    'hex': lambda n: '[' + '\\abcdef' * n + '=x',
    'hex2': lambda n: '#' + '\\abcdef' * n + '!',
    'escws': lambda n: ':lang(' + '\\31 ,' * n,
    'bscr': lambda n: '[a="' + '\\\r' * n,
    'idents': lambda n: '[a=' + 'ab' * n + '!',
    'contains': lambda n: ':-soup-contains(' + ','.join(['"a"'] * n),
    'comments': lambda n: 'a' + '/**/' * n + '!',
    'comment_open': lambda n: 'a ' + '/*' * n,
    'stars': lambda n: 'a/*' + '*' * n,
    'ws': lambda n: 'a' + ' ' * n + '!',
    'wsgt': lambda n: 'a' + ' /**/ ' * n + '>',
    'nthof': lambda n: ':nth-child(2n+1' + ' /**/' * n + ' of',
    'attrws': lambda n: '[a' + ' ' * n + '=b' + ' ' * n + 'i' + ' ' * n,
    'dashes': lambda n: '#' + '-' * n + '!',
    'nest': lambda n: ':is(' * min(n, 150),
    'colon': lambda n: ':' * n,
    'digits': lambda n: ':nth-child(' + '9' * n,
    'mixed': lambda n: ('a ,' + ' ' * 3) * n + '!',
}
DOC_PUMPS = {
    'num': lambda n: '1' * n + 'x', 'num_dot': lambda n: '1.' * n, 'date': lambda n: '9' * n + '-01-0', 'lang_strip': lambda n: 'a' + '-*' * n + 'x',
    'lang_strip2': lambda n: '-*-' + '*-' * n + 'x', 'ws_class': lambda n: ' ' * n + 'a',
}


def alphabet(p):
    chars = set('a b1-_\\"\'\n\r/*:()[],=')
    for c in p.pattern:
        chars.add(c)
    return sorted(chars)


def slope(ns, ys):
    pts = [(math.log(n), math.log(max(y, 1e-7))) for n, y in zip(ns, ys)]
    (x0, y0), (x1, y1) = pts[-3], pts[-1]
    return (y1 - y0) / (x1 - x0)


PREFIXES = ['', '[', '[a', '[a=', '[a="', "[a='", ':', ':is(', ':is(a', ':lang(', ':lang(a', ':nth-child(', ':nth-child(2n', '#', '.', 'a', 'a ',
            ':-soup-contains(', ':-soup-contains("a"', ':dir(', '/*', '"', "'", '\\', 'a,', 'a >', '1', '-']


def ambiguity_search(pats, budget, deadline):
    """Model-guided search for a concrete slow input when the StarSafe obligation fails: ask the model which
    regenerated expressions it rejects, find (prefix, unit) for which the model's number of backtracking paths on
    prefix + unit*n grows geometrically in n, then time the REAL compiled expression (and compile()) on growing n."""
    verdicts = driver.run([f'(18 {enc.s(origin)})' for _, origin, _ in pats])
    unsafe = [(origin, p) for (_, origin, p), v in zip(pats, verdicts) if enc.parse_sx(v) != [1, 1] and enc.parse_sx(v) != [1, 0]]
    found, tried = [], 0
    for origin, p in unsafe:
        if len(found) >= 3 or time.time() > deadline:
            break
        a1 = alphabet(p)
        a2 = ([c for c in a1 if not c.isalnum()] + ['a'])[:16]
        units = a1 + [x + y for x in a2 for y in a2 if x != y]
        paths = {}
        cands = []
        for pre in PREFIXES:
            if time.time() > deadline or cands:
                break
            reqs = [(pre, u, n) for u in units for n in (3, 6, 9)]
            try:
                resp = driver.run([f'(15 {enc.s(origin)} {enc.s(pre + u * n)} 0)' for pre_, u, n in reqs], timeout=120)
            except Exception:       # a batch the model itself cannot finish in time: move on
                continue
            tried += len(reqs)
            for (pre_, u, n), r in zip(reqs, resp):
                r_ = enc.parse_sx(r)
                # (successful backtracking paths, sub-match attempts of the exhaustive search)
                paths[(pre, u, n)] = (r_[1], r_[2]) if isinstance(r_, list) and len(r_) == 3 else (0, 0)
            for u in units:
                for k in (0, 1):
                    p3, p6, p9 = paths[(pre, u, 3)][k], paths[(pre, u, 6)][k], paths[(pre, u, 9)][k]
                    # geometric growth: the ratio over three more repetitions does not shrink and is large
                    if p3 > 0 and p9 >= 5 * p6 and p9 * p3 >= 0.9 * p6 * p6:
                        cands.append((p9 ** (1.0 / max(len(u), 1)), pre, u))
                        break
        cands.sort(reverse=True)
        for _, pre, u in cands[:3]:
            hit = None
            for tail in ('\x00', '!', ''):
                n = 10
                while n <= 64 and time.time() < deadline:
                    subj = pre + u * n + tail
                    t0 = time.perf_counter()
                    p.match(subj)
                    dt = time.perf_counter() - t0
                    if dt > budget:
                        hit = {'regex': origin, 'subject': subj, 'length': len(subj), 'seconds': round(dt, 2),
                               'model_paths_n3_n6_n9': [paths[(pre, u, 3)], paths[(pre, u, 6)], paths[(pre, u, 9)]]}
                        break
                    if dt < 0.02 and n >= 40:
                        break
                    n += 2
                if hit:
                    break
            if hit:
                # the same text through compile(), embedded as it is and inside a few contexts
                for ctx in ('%s', 'a%sb', ':is(a%s', '[a%s=', 'div%sp'):
                    text = ctx % (u * (len(hit['subject']) // max(len(u), 1)))
                    dt = framework.run_limited(lambda: cp.CSSParser(hit['subject'] if ctx == '%s' else text).process_selectors(), 3 * budget)
                    dt = 3 * budget if dt is None else dt
                    if dt > budget:
                        hit['compile_input'] = hit['subject'] if ctx == '%s' else text
                        hit['compile_seconds'] = round(dt, 2)
                        break
                msel = __import__('re').match(r"compile\('(\[a.*\])'\) pattern$", origin)
                if msel:
                    # a template of an attribute selector: the same value on a one-element document through select()
                    import bs4
                    doc = bs4.BeautifulSoup('<p></p>', 'html.parser')
                    doc.p['a'] = hit['subject']
                    dt = framework.run_limited(lambda: sv.select(msel.group(1), doc), 3 * budget)
                    hit['select_call'] = f"select({msel.group(1)!r}, <p a={hit['subject']!r}>)"
                    hit['select_seconds'] = round(3 * budget if dt is None else dt, 2)
                found.append(hit)
                break
    return found, [o for o, _ in unsafe], tried


def run(chk):
    proof_ok = framework.lean_pipeline(chk, SOURCES)
    driver_ok = proof_ok or chk.build(['svdriver'])[0]
    rng = random.Random(chk.seed)
    quick = chk.tier == 'quick'
    pats, _tokens = gen_regexes.collect()
    # (2) engine correspondence
    lines, exp = [], []
    nontriv = 0
    for name, origin, p in pats:
        al = alphabet(p)
        for _ in range(40 if quick else 600):
            s = ''.join(rng.choice(al) for _ in range(rng.randint(0, 10)))
            if rng.random() < 0.5:
                # seed with a fragment that is likely to match
                s = rng.choice(['a', '#a', '.a', ':not(', '[a=b]', ' > ', '"x"', '\\31 ', '2n+1', 'even', '/*c*/', '12:30', '2020-01-01', '-*-*', ' ,', '1.5e3']) + s
            i = rng.randint(0, min(2, len(s)))
            m = p.match(s, i)
            lines.append(f'(15 {enc.s(origin)} {enc.s(s)} {i})')
            exp.append((origin, s, i, None if m is None else m.end()))
            if m is not None and m.end() > i:
                nontriv += 1
    corr_bad = []
    if driver_ok:
        for (origin, s, i, e), resp in zip(exp, driver.run(lines)):
            r_ = enc.parse_sx(resp)
            got = r_[0][0] if isinstance(r_, list) and r_ and r_[0] else None
            if not isinstance(r_, list) or got != e:
                corr_bad.append({'regex': origin, 'subject': s, 'pos': i, 'py_end': e, 'model': r_})
    # (3) pump families on the real compile()
    budget = 2.0
    slow = []
    growth = {}
    sizes = [16, 32, 64, 128, 256] if quick else [16, 32, 64, 128, 256, 512, 1024]
    for fam, f in PUMPS.items():
        ts = []
        for n in sizes:
            s = f(n)
            if ts and ts[-1] > 0.002:
                # the previous size was not instantaneous: a super-polynomial family may need hours at this size, inside the
                # regex engine where nothing can interrupt it — measure in a child that can be killed
                dt = framework.run_limited(lambda: cp.CSSParser(s).process_selectors(), 3 * budget)
                dt = 3 * budget if dt is None else dt
            else:
                t0 = time.perf_counter()
                try:
                    cp.CSSParser(s).process_selectors()
                except (sv.SelectorSyntaxError, NotImplementedError):
                    pass
                except RecursionError:
                    pass
                dt = time.perf_counter() - t0
            ts.append(dt)
            if dt > budget:
                slow.append({'family': fam, 'n': n, 'seconds': round(dt, 3), 'pattern_prefix': s[:60], 'length': len(s)})
                break
        if len(ts) >= 3:
            growth[fam] = round(slope(sizes[:len(ts)], ts), 2)
            if growth[fam] > 3.2 and ts[-1] > 0.05:
                slow.append({'family': fam, 'loglog_slope': growth[fam], 'times': [round(t, 4) for t in ts], 'pattern_prefix': f(8)})
    # (3b) custom selector tables whose definitions refer to one another: each definition is compiled once
    parses = {}
    orig_ps = cp.CSSParser.process_selectors
    counter = [0]

    def counting(self, *a, **k):
        counter[0] += 1
        return orig_ps(self, *a, **k)
    # 'custom_fib' / 'custom_ladder': definitions SHARED between definitions (a DAG, not a chain): s_i uses s_{i+1} and s_{i+2};
    # two selectors per level both use both selectors of the next level.  Compiled once each only if what a nested compile
    # produces is kept for its siblings.
    for fam, width in (('custom_chain2', 2), ('custom_chain3', 3), ('custom_fan', 0), ('custom_fib', -1), ('custom_ladder', -2)):
        ts = []
        for n in ([4, 8, 12, 16, 20, 24] if quick else [4, 8, 12, 16, 20, 24, 32, 48]):
            if width == -1:
                table = {f':--s{i}': f'p, :--s{i + 1}, :--s{i + 2}' for i in range(n)}
                table[f':--s{n}'] = 'p'
                table[f':--s{n + 1}'] = 'i'
            elif width == -2:
                table = {':--s0': ':--a0 :--b0'}
                for i in range(n):
                    table[f':--a{i}'] = f':--a{i + 1} > :--b{i + 1}'
                    table[f':--b{i}'] = f':--b{i + 1}, :--a{i + 1}'
                table[f':--a{n}'] = 'p'
                table[f':--b{n}'] = 'i'
            elif width:
                table = {f':--s{i}': f':--s{i + 1}' * width for i in range(n)}
                table[f':--s{n}'] = 'p'
            else:
                table = {':--s0': ':--s1' * n + ', ' + ', '.join([':--s1'] * n), ':--s1': ':is(:--s2, :--s2) :--s2', ':--s2': 'p'}
            total = sum(len(k) + len(v) for k, v in table.items())
            counter[0] = 0
            cp.CSSParser.process_selectors = counting
            t0 = time.perf_counter()
            try:
                sv.compile(':--s0' + ' ' * n, custom=table)        # trailing blanks: a fresh cache key for every run
            except (sv.SelectorSyntaxError, NotImplementedError, RecursionError):
                pass
            finally:
                cp.CSSParser.process_selectors = orig_ps
            dt = time.perf_counter() - t0
            ts.append(dt)
            parses.setdefault(fam, []).append(counter[0])
            if dt > budget or counter[0] > 4 * (len(table) + 1):
                slow.append({'family': fam, 'n': n, 'seconds': round(dt, 3), 'sub_parses': counter[0], 'custom_entries': len(table),
                             'total_text_length': total, 'pattern': ':--s0' + ' ' * n, 'custom': table})
                break
        growth[fam] = [round(t, 4) for t in ts]
    from soupsieve import css_match as cm
    for fam, f in DOC_PUMPS.items():
        ts = []
        for n in sizes:
            s = f(n)

            def doc_work():
                for ty in ('number', 'date', 'week', 'time', 'month', 'datetime-local'):
                    cm.Inputs.parse_value(ty, s)
                cm.CSSMatch.extended_language_filter(None, s, 'a-b')
                cm.RE_NOT_WS.findall(s)
            if ts and ts[-1] > 0.002:
                dt = framework.run_limited(doc_work, 3 * budget)
                dt = 3 * budget if dt is None else dt
            else:
                t0 = time.perf_counter()
                doc_work()
                dt = time.perf_counter() - t0
            ts.append(dt)
            if dt > budget:
                slow.append({'family': 'doc:' + fam, 'n': n, 'seconds': round(dt, 3)})
                break
        if len(ts) >= 3:
            growth['doc:' + fam] = round(slope(sizes[:len(ts)], ts), 2)
    # model work on pumps (polynomial by theorem; measured as a regression on the statement)
    work_growth = {}
    if driver_ok:
        wl = []
        for fam in ('dq', 'lang', 'hex2', 'comments', 'wsgt'):
            tok = {'dq': 'css_tokens[attribute]', 'lang': 'css_tokens[pseudo_lang]', 'hex2': 'css_tokens[id]', 'comments': 'css_tokens[combine]',
                   'wsgt': 'css_tokens[combine]'}[fam]
            for n in (8, 16, 32):
                s = PUMPS[fam](n)
                off = 1 if fam in ('comments', 'wsgt') else 0
                wl.append((fam, n, f'(15 {enc.s(tok)} {enc.s(s)} {off})'))
        for (fam, n, _), resp in zip(wl, driver.run([w[2] for w in wl])):
            r_ = enc.parse_sx(resp)
            work_growth.setdefault(fam, []).append(r_[2] if isinstance(r_, list) and len(r_) == 3 else None)
        for fam, ws in work_growth.items():
            if None not in ws and ws[0] > 0 and ws[2] / max(ws[1], 1) > 9:
                slow.append({'family': 'model-work:' + fam, 'work': ws})
    # (3c) iterations of the parse loop: the model's count (service 19, `ParseCost.compileSteps`, bounded by
    #      |pattern| + sum(|definition| + 1) + 1 by theorem `compile_steps_le`) = calls of next(iselector) in the real parser
    step_bad = []
    if driver_ok:
        ATOMS = ['div', 'p', '*', '.a', '#b', '.a\\20 b', '[x]', '[x=y]', "[x='a b' i]", '[x~="q"]', '[ns|x^=a]', ':root', ':empty',
                 ':first-child', ':nth-child(2n+1)', ':nth-child(odd of p)', ':nth-last-of-type(-n+3)', ':is(', ':not(', ':has(', ':where(',
                 ':has(> ', ')', ')', ', ', ' > ', ' + ', ' ~ ', ' ', ':lang(en, "de-*")', ':contains("a", b)', ':-soup-contains-own(x)',
                 ':dir(ltr)', ':--x', ':--y', ':--z', ':checked', ':link', '&', 'ns|p', '|p', '*|*', ':paused', ':host(', '::before', '@x',
                 ':nth-child(2 of .a, :--y)', '\\', '[', '.', ':', '"', '/* c */', '\t', ':NOT(', ':Is(', '\x00', 'é']
        DEFS = ['p', 'a.b', ':--y', ':--y :--y', ':--z > :--z', ':is(a, :--z)', 'div:not(:--y, p)', ':--x', 'p,', ':nth-child(2 of :--z)', ' a ', '']
        count = [0]
        orig_iter = cp.CSSParser.selector_iter

        def counting_iter(self, pattern):
            it = orig_iter(self, pattern)
            while True:
                count[0] += 1
                try:
                    v = next(it)
                except StopIteration:
                    return
                yield v
        scases = []
        for _ in range(1500 if quick else 30000):
            pat = ''.join(rng.choice(ATOMS) for _ in range(rng.randint(0, 9)))
            cu = {nm: rng.choice(DEFS) for nm in (':--x', ':--y', ':--z') if rng.random() < 0.6}
            scases.append((pat, cu))
        for nlev in (2, 4, 8):      # doubling chains: every definition used twice
            cu = {f':--s{i}': f':--s{i + 1} :--s{i + 1}' for i in range(nlev)}
            cu[f':--s{nlev}'] = 'p'
            scases.append((':--s0', cu))
        resp = driver.run([f'(19 {enc.s(p_)} ({" ".join(f"({enc.s(k)} {enc.s(v)})" for k, v in c_.items())}))' for p_, c_ in scases])
        cp.CSSParser.selector_iter = counting_iter
        try:
            for (p_, c_), r in zip(scases, resp):
                count[0] = 0
                try:
                    table = cp.process_custom(sv.ct.CustomSelectors(c_))
                except Exception:
                    table = None
                if table is not None:
                    try:
                        cp.CSSParser(p_, custom=table, flags=0).process_selectors()
                    except Exception:
                        pass
                m_ = enc.parse_sx(r)
                bound = len(p_) + sum(len(v) + 1 for v in c_.values()) + 1
                if not isinstance(m_, list) or m_[0] != count[0] or count[0] > bound:
                    step_bad.append({'pattern': p_, 'custom': c_, 'model_steps': m_[0] if isinstance(m_, list) else m_, 'real_steps': count[0],
                                     'proved_bound': bound})
        finally:
            cp.CSSParser.selector_iter = orig_iter
        chk.coverage['parse_loop_step_cases'] = len(scases)
        chk.coverage['parse_loop_step_mismatches'] = len(step_bad)
        for b in step_bad:
            if b['real_steps'] > b['proved_bound']:
                slow.append({'family': 'parse-loop-iterations', **b})
    # (4) when the obligation fails (or in the thorough tier): model-guided search for a concrete slow input
    unsafe_names = []
    if driver_ok and (not proof_ok or not quick) and not slow:
        amb, unsafe_names, tried = ambiguity_search(pats, budget, time.time() + (240 if quick else 900))
        chk.coverage['ambiguity_search'] = {'rejected_by_model': unsafe_names, 'model_requests': tried, 'slow_inputs_found': len(amb)}
        for a in amb:
            slow.append({'family': 'ambiguity:' + a['regex'], **a})
    chk.samples = [{'regex': exp[0][0], 'subject': exp[0][1], 'py_end': exp[0][3]}, {'pump': PUMPS['dq'](8)}, {'growth': growth}]
    chk.coverage.update({'regexes': len(pats), 'engine_cases': len(lines), 'engine_mismatches': len(corr_bad), 'pump_families': len(PUMPS) + len(DOC_PUMPS),
                         'pump_sizes': sizes, 'custom_table_sub_parses': parses, 'loglog_slopes': growth, 'model_work': work_growth, 'slow_inputs': len(slow)})
    for i, b in enumerate(slow[:5]):
        chk.violation(f'slow{i}', {'what': 'super-polynomial or over-budget parsing time', **b}, concrete=True)
    for i, b in enumerate(corr_bad[:3]):
        chk.violation(f'corr{i}', {'correspondence': 'CPython re.match ≡ Lean Rx.runs head (the regex engine model)', **b}, concrete=False)
    if not slow:
        for i, b in enumerate(step_bad[:3]):
            chk.violation(f'steps{i}', {'correspondence': 'iterations of the real parse loop ≡ ParseCost.compileSteps (the quantity bounded by theorem)', **b},
                          concrete=False)
    if not proof_ok and not (slow or corr_bad or step_bad):
        chk.violation('proof', {'what': 'the StarSafe / polynomial-work obligation no longer checks for the regenerated expressions; the '
                                        'pump search found no input with super-polynomial time',
                                'theorem_or_correspondence': 'SoupVerif.C07.all_safe / tokenize_poly', 'detail': chk.notes.get('proof_broken')}, concrete=False)
    return chk.finish(rule=RULE, evaluations=len(lines) + len(PUMPS) * len(sizes), distinct=nontriv)


def replay(chk, path):
    data = json.load(open(path))
    if 'family' in data and data['family'] in PUMPS:
        n = data.get('n', 256)
        t0 = time.perf_counter()
        try:
            cp.CSSParser(PUMPS[data['family']](n)).process_selectors()
        except Exception:
            pass
        dt = time.perf_counter() - t0
        print(json.dumps({'seconds': dt}))
        if dt > 2.0:
            print(f'VIOLATION property={PID} replay={path}')
            return 1
    if 'regex' in data and 'subject' in data:
        pats, _ = gen_regexes.collect()
        p = next((p for _, origin, p in pats if origin == data['regex']), None)
        if p is not None:
            t0 = time.perf_counter()
            p.match(data['subject'])
            dt = time.perf_counter() - t0
            print(json.dumps({'regex_seconds': dt}))
            if dt > 2.0:
                print(f'VIOLATION property={PID} replay={path}')
                return 1
    if 'custom' in data and 'pattern' in data:
        t0 = time.perf_counter()
        try:
            sv.compile(data['pattern'] + ' ', custom=data['custom'])
        except Exception:
            pass
        dt = time.perf_counter() - t0
        print(json.dumps({'seconds': dt}))
        if dt > 2.0:
            print(f'VIOLATION property={PID} replay={path}')
            return 1
    return 0
