"""Shared driver for the properties whose tie is "PY select/match ≡ Lean matcher model"."""
import glob
import json
import os
import random
from collections import Counter

import framework
import matchcorr


def load_corpus(pid):
    out = []
    for f in sorted(glob.glob(os.path.join(framework.ROOT, 'corpus', pid, '*.json'))):
        c = json.load(open(f))
        for case in (c if isinstance(c, list) else [c]):
            case['queries'] = [tuple(q) for q in case['queries']]
            case['_corpus'] = os.path.basename(f)
            out.append(case)
    return out


def feature_counts(selector):
    feats = []
    for tok in [':not(', ':is(', ':where(', ':matches(', ':has(', ':root', ':empty', 'first-child', 'last-child',
                'only-child', 'of-type', ':nth-', ' > ', ' + ', ' ~ ', ', ', '[', '#', '.', '^=', '$=', '*=', '~=',
                '|=', '!=', ' i]', ' s]', ':lang(', ':dir(', 'contains', '|', ':checked', ':default', ':disabled',
                ':enabled', ':indeterminate', ':required', ':optional', ':read-', ':in-range', ':out-of-range',
                ':placeholder-shown', ':link', ':defined', ':scope', '&']:
        if tok in selector:
            feats.append(tok.strip())
    return feats


def run(chk, pid, sources, make_cases, n_quick, n_thorough, rule, theorem_hint, judge=None, extra_targets=()):
    """make_cases(rng, n) -> list of cases.  judge(rec) -> (is_property_violation, description)
    decides whether a PY≠Model disagreement is a failure of the property itself (default: yes,
    because the model is proved equal to the property's specification)."""
    proof_ok = framework.lean_pipeline(chk, sources, extra_targets)
    driver_ok = proof_ok
    if not proof_ok:
        ok, _ = chk.build(['svdriver'])
        driver_ok = ok
    n = n_quick if chk.tier == 'quick' else n_thorough
    rng = random.Random(chk.seed)
    cases = load_corpus(pid) + make_cases(rng, n)
    disagreements = []
    evaluations = 0
    nontrivial = set()
    feats = Counter()
    kinds = Counter()
    outcome = Counter()
    if driver_ok:
        for start in range(0, len(cases), 2000):
            recs = matchcorr.run_cases(cases[start:start + 2000])
            for rec in recs:
                evaluations += 1
                case = rec['case']
                kinds[case.get('kind', case.get('parser', '?'))] += 1
                outcome[rec['py'][0]] += 1
                for f in feature_counts(case['selector']):
                    feats[f] += 1
                if rec['py'][0] == 'compile-exc':
                    continue
                if rec['py'][0] == 'ok' and any(r not in ([], 0) for r in rec['py'][1]):
                    nontrivial.add((case['selector'], json.dumps(case.get('tree', case.get('markup')), sort_keys=True)))
                if not rec['agree']:
                    disagreements.append(rec)
                if len(chk.samples) < 6 and rec['py'][0] == 'ok' and any(r not in ([], 0) for r in rec['py'][1]):
                    chk.samples.append({'selector': case['selector'], 'kind': case.get('kind', case.get('parser')),
                                        'queries': [list(q) for q in case['queries']][:3], 'py': rec['py'][1][:3]})
    chk.coverage.update({
        'correspondence_cases': evaluations,
        'corpus_cases': len([c for c in cases if '_corpus' in c]),
        'selector_features_hit': dict(feats.most_common()),
        'document_kinds': dict(kinds),
        'py_outcomes': dict(outcome),
        'disagreements': len(disagreements),
    })
    # ---- verdict
    reported = 0
    for rec in disagreements:
        case = {k: v for k, v in rec['case'].items() if not k.startswith('_')}
        is_violation, desc = (judge(rec) if judge else (True, 'PY result differs from the specification the model is proved equal to'))
        kf = chk.is_known(json.dumps([case.get('selector'), case.get('tree', case.get('markup'))], sort_keys=True))
        if kf:
            chk.known_finding(kf['key'], kf['text'])
            continue
        if reported < 5:
            if rec.get('e2e_differs') and rec['py'][0] == 'ok' and rec['py'][1] == rec['lean']:
                desc += (' [selector TEXT -> parser model -> matcher model disagrees while the matcher model run on the '
                         'IR Python compiled agrees: the text is compiled to a different IR]')
            chk.violation(f'case{reported}', {'what': desc, 'case': case, 'py': rec['py'], 'model': rec['lean'],
                                              'model_end_to_end': rec.get('lean_e2e'),
                                              'replay_with': f'bin/check {pid} --replay <this file>'},
                          concrete=is_violation)
        reported += 1
    if not proof_ok and not disagreements:
        chk.violation('proof', {'what': 'proof obligation no longer checks; the search over the corpus and the generated '
                                        'cases found no input on which the implementation violates the property',
                                'theorem_or_correspondence': theorem_hint, 'detail': chk.notes.get('proof_broken')},
                      concrete=False)
    if not driver_ok and proof_ok is False:
        chk.notes['driver'] = 'driver did not build; correspondence could not run'
    return chk.finish(rule=rule, evaluations=evaluations, distinct=len(nontrivial))


def replay(chk, path, pid):
    data = json.load(open(path))
    case = data['case']
    case['queries'] = [tuple(q) for q in case['queries']]
    ok, _ = chk.build(['svdriver'])
    recs = matchcorr.run_cases([case])
    rec = recs[0]
    print(json.dumps({'py': rec['py'], 'model': rec['lean'], 'model_end_to_end': rec.get('lean_e2e'), 'agree': rec['agree']}, default=repr))
    if not rec['agree']:
        print(f'VIOLATION property={pid} replay={path}')
        return 1
    return 0
