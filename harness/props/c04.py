"""C04: answers do not depend on query history; matching never mutates the tree."""
import copy
import json
import random
import warnings

import bs4
import soupsieve as sv
from soupsieve import css_match as cm

import driver
import enc
import framework
import gen
import matchcorr
from props import c05

warnings.simplefilter('ignore')
PID = 'C04'
SOURCES = ['SoupVerif/Properties/C04.lean', 'SoupVerif/Model/Memo.lean', 'SoupVerif/Lemmas/Memo.lean', 'SoupVerif/Model/Match.lean']
RULE = ('documents with forms (first-submit rule), radio groups (same name across forms / outside forms, checked members, '
        'upper-case attribute names), lang attributes and content-language <meta> (present, absent, empty), iframes, in html / '
        'html5 / xhtml / xml. Histories: (a) one matcher object (one CSSMatch, i.e. one API call\'s memo tables) asked about every '
        'element in random orders, with repeats, vs a fresh matcher per question (the property); (b) sequences of 2-25 mixed '
        'select / match / filter / closest / select_one calls on one document vs the same call on a pristine deep copy; (c) '
        'the document\'s serialisation, every attrs dict and every node identity before and after; (d) the three memoised '
        'functions driven directly through random query lists: PY object = Lean Memo.run = Lean pure answers. Non-trivial = '
        'a history in which at least one memo table is hit (a repeated form / group / root).')

SELECTORS = [':default', ':indeterminate', ':lang(en)', ':lang("")', ':lang("de-*")', ':checked', ':disabled', ':enabled',
             'input:indeterminate', 'form :default', ':not(:default)', ':is(:indeterminate, :default)', 'p:lang(en)', ':dir(ltr)',
             ':root', 'div input', ':has(:default)', ':has(> :indeterminate)', 'button', ':read-write', ':in-range',
             ':placeholder-shown', 'input[type=radio]:not([checked])']


def snapshot(top):
    nodes = []
    stack = [top]
    while stack:
        n = stack.pop()
        nodes.append((id(n), dict(n.attrs) if isinstance(n, bs4.Tag) else str(n)))
        if isinstance(n, bs4.Tag):
            stack.extend(n.contents)
    return top.decode(), nodes


def doc(r):
    kind, top = gen.gen_state_doc(r)
    # meta content-language in some heads
    if top and top[0][1] == 'html' and r.random() < 0.5:
        head = top[0][5][0]
        head[5].append(('e', 'meta', None, None, [('http-equiv', r.choice(['content-language', 'Content-Language'])),
                                                  ('content', r.choice(['en', 'de', '']))], []))
    return kind, top


def run(chk):
    proof_ok = framework.lean_pipeline(chk, SOURCES)
    driver_ok = proof_ok or chk.build(['svdriver'])[0]
    rng = random.Random(chk.seed)
    quick = chk.tier == 'quick'
    n_docs = 250 if quick else 8000
    bad = []
    hits = 0
    evaluations = 0
    memo_lines, memo_py = [], []
    from props import c05
    NS = {'svg': gen.SVG, 'h': gen.XHTML}
    for _ in range(n_docs):
        # 15 %: namespace-aware trees with foreign elements, queried with a prefix map and selectors that put an HTML-only
        # pseudo-class next to a prefixed name (state swapped in for HTML-only lists must be swapped back for the next element)
        leak = rng.random() < 0.15
        if leak:
            kind, top_spec = c05.doc_for(rng, rng.choice(['xml', 'xml', 'xhtml', 'html5']), True)
        else:
            kind, top_spec = doc(rng)
        ns = NS if leak else None
        pool = [c05.mixed(rng) for _ in range(6)] if leak else SELECTORS
        top = gen.build_doc(kind, top_spec)
        els = gen.elements(top)
        if not els:
            continue
        before = snapshot(top)
        # (a) one matcher object, many questions
        for sel in rng.sample(pool, 4):
            c = sv.compile(sel, ns)
            scope = rng.choice([top] + els[:2])
            m = cm.CSSMatch(c.selectors, scope, ns, 0)
            order = [rng.choice(els) for _ in range(min(40, 2 * len(els)))]
            seen = set()
            for e in order:
                evaluations += 1
                got = m.match(e)
                fresh = cm.CSSMatch(c.selectors, scope, ns, 0).match(e)
                if id(e) in seen:
                    hits += 1
                seen.add(id(e))
                if got != fresh:
                    bad.append({'what': 'answer depends on earlier questions to the same matcher', 'selector': sel, 'kind': kind,
                                'tree': top_spec, 'ns': ns, 'scope': enc.path_of(scope), 'history': [enc.path_of(x) for x in order[:order.index(e) + 1]],
                                'with_history': got, 'alone': fresh})
                    break
            # select (shared memo) vs per-element match with the same scope
            full = [id(x) for x in c.select(top)]
            alone = [id(x) for x in els if cm.CSSMatch(c.selectors, top, ns, 0).match(x)]
            if full != alone:
                bad.append({'what': 'select() differs from asking about each element alone', 'selector': sel, 'kind': kind, 'tree': top_spec, 'ns': ns})
        # (b) call sequences vs a pristine copy
        pristine = copy.deepcopy(top)
        pels = gen.elements(pristine)
        for _ in range(rng.randint(2, 25) if not quick else rng.randint(2, 8)):
            sel = rng.choice(pool)
            i = rng.randrange(len(els))
            op = rng.choice(['select', 'match', 'filter', 'closest', 'select_one'])
            evaluations += 1

            def call(t_top, t_el):
                tgt = t_top if op in ('select', 'select_one', 'filter') and rng_choice else t_el
                r_ = getattr(sv, op)(sel, tgt, ns)
                if isinstance(r_, list):
                    return [enc.path_of(x) for x in r_]
                return enc.path_of(r_) if isinstance(r_, bs4.Tag) else r_
            rng_choice = rng.random() < 0.5
            a = call(top, els[i])
            b = call(pristine, pels[i])
            if a != b:
                bad.append({'what': 'answer differs from the same call on a pristine copy', 'selector': sel, 'op': op, 'kind': kind, 'tree': top_spec, 'ns': ns})
        after = snapshot(top)
        if after != before:
            bad.append({'what': 'the document changed (serialisation, attribute dicts or node identities)', 'kind': kind, 'tree': top_spec})
        # (d) memoised functions directly
        if driver_ok and rng.random() < (0.5 if quick else 0.3):
            scope = top
            m = cm.CSSMatch(sv.compile('*').selectors, scope, None, 0)
            qs, answers = [], []
            for _ in range(rng.randint(3, 14)):
                e = rng.choice(els)
                k = rng.choice([0, 1, 2])
                try:
                    if k == 0:
                        ans = m.match_default(e)
                        langs = []
                    elif k == 1:
                        # the built-in only asks about unchecked radios (its guard); keep to that domain
                        if not sv.match('input[type=radio][name]:not([name=""]):not([checked])', e):
                            continue
                        ans = m.match_indeterminate(e)
                        langs = []
                    else:
                        langs = [rng.choice(['en', 'de', '', '*', 'de-*'])]
                        ans = m.match_lang(e, (sv.ct.SelectorLang(langs),))
                except Exception as ex:
                    bad.append({'what': f'memoised function raised {ex!r}', 'kind': kind, 'tree': top_spec})
                    break
                qs.append(f'({k} {enc.path(enc.path_of(e))} ({" ".join(enc.s(x) for x in langs)}))')
                answers.append(1 if ans else 0)
            if qs:
                memo_lines.append(f'(14 {enc.bidi_env(top)} {enc.doc(top)} () {enc.path([])} ({" ".join(qs)}))')
                memo_py.append((answers, kind, top_spec, qs))
    corr_bad = []
    if driver_ok and memo_lines:
        for (answers, kind, top_spec, qs), resp in zip(memo_py, driver.run(memo_lines)):
            r_ = enc.parse_sx(resp)
            if not isinstance(r_, list) or len(r_) != 2:
                corr_bad.append({'what': 'driver error', 'resp': r_})
                continue
            if r_[0] != answers or r_[1] != answers:
                corr_bad.append({'what': 'memoised functions: PY object vs Lean Memo.run vs Lean pure', 'py': answers, 'model_memo': r_[0],
                                 'model_pure': r_[1], 'kind': kind, 'tree': top_spec, 'queries': qs})
    chk.samples = [{'selectors': SELECTORS[:5]}, {'memo_query_lists': len(memo_lines)}]
    chk.coverage.update({'documents': n_docs, 'questions': evaluations, 'repeated_questions': hits, 'history_violations': len(bad),
                         'memo_query_lists': len(memo_lines), 'memo_mismatches': len(corr_bad)})
    for i, b in enumerate(bad[:5]):
        chk.violation(f'hist{i}', b, concrete=True)
    for i, b in enumerate(corr_bad[:3]):
        py_pure_differs = b.get('py') != b.get('model_pure')
        chk.violation(f'memo{i}', {'correspondence': 'CSSMatch memo tables ≡ Memo.run ≡ pure answers', **b}, concrete=py_pure_differs)
    if not proof_ok and not (bad or corr_bad):
        chk.violation('proof', {'what': 'proof obligation no longer checks; no history found on which an answer changes',
                                'theorem_or_correspondence': 'SoupVerif.Properties.C04', 'detail': chk.notes.get('proof_broken')}, concrete=False)
    return chk.finish(rule=RULE, evaluations=evaluations + len(memo_lines), distinct=hits)


def replay(chk, path):
    data = json.load(open(path))
    if 'history' in data:
        top = gen.build_doc(data['kind'], matchcorr._untuple(data['tree']))
        ns = data.get('ns')
        c = sv.compile(data['selector'], ns)
        scope = enc.node_at(top, data['scope'])
        m = cm.CSSMatch(c.selectors, scope, ns, 0)
        got = None
        for p in data['history']:
            e = enc.node_at(top, p)
            got = m.match(e)
        alone = cm.CSSMatch(c.selectors, scope, ns, 0).match(e)
        print(json.dumps({'with_history': got, 'alone': alone}))
        if got != alone:
            print(f'VIOLATION property={PID} replay={path}')
            return 1
    elif str(data.get('what', '')).startswith('select() differs'):
        top = gen.build_doc(data['kind'], matchcorr._untuple(data['tree']))
        ns = data.get('ns')
        c = sv.compile(data['selector'], ns)
        els = gen.elements(top)
        full = [enc.path_of(x) for x in c.select(top)]
        alone = [enc.path_of(x) for x in els if cm.CSSMatch(c.selectors, top, ns, 0).match(x)]
        print(json.dumps({'select': full, 'each_alone': alone}))
        if full != alone:
            print(f'VIOLATION property={PID} replay={path}')
            return 1
    return 0
