"""C18: date, time and number values are validated and ordered as HTML prescribes."""
import calendar
import datetime
import json
import random

import soupsieve as sv
from soupsieve import css_match as cm

import driver
import enc
import framework
import gen
import matchcorr

PID = 'C18'
SOURCES = ['SoupVerif/Properties/C18.lean', 'SoupVerif/Spec/Calendar.lean', 'SoupVerif/Lemmas/Calendar.lean',
           'SoupVerif/Model/Inputs.lean', 'SoupVerif/Model/Match.lean',
           'SoupVerif/Generated/PyInputs.lean', 'SoupVerif/Model/PyExpr.lean', 'SoupVerif/Model/PyProg.lean', 'SoupVerif/Properties/C18Gen.lean']
RULE = ('strings of each of the six HTML types: every (year, week in {0,1,52,53,54}) and every (year, month, day in '
        '{0,1,28..32}) for the tier\'s year range plus boundary years (1, 999, 1000, 9999, 10000, 100000, 400-multiples), '
        'all hh:mm near the limits, decimal strings with signs / fractions / exponents, shape mutations (wrong digit '
        'counts, extra characters, trailing newline, non-ASCII digits); checked three ways: PY parse_value vs an '
        'independent calendar oracle (datetime/calendar for years 1..9999, closed forms beyond), PY vs the Lean model, and '
        'ordering (PY tuple/float comparison vs model ltP); plus documents with input elements against '
        ':in-range/:out-of-range through the matcher model. Non-trivial = the oracle says the string is valid.')

KF_KEY = 'week53-when-dec31-in-week1'


def iso_weeks(y):
    if 1 <= y <= 9999:
        return datetime.date(y, 12, 28).isocalendar()[1]
    # proleptic Gregorian repeats every 400 years
    return iso_weeks((y - 1) % 400 + 2001 - 400 * 0) if False else datetime.date((y - 1) % 400 + 1601, 12, 28).isocalendar()[1]


def dec31_weekday(y):
    yy = y if 1 <= y <= 9999 else (y - 1) % 400 + 1601
    return datetime.date(yy, 12, 31).isoweekday()


def days_in_month(y, m):
    yy = y if 1 <= y <= 9999 else (y - 1) % 400 + 1601
    return calendar.monthrange(yy, m)[1]


def ascii_digits(s):
    return s != '' and all('0' <= c <= '9' for c in s)


def oracle(itype, s):
    """Independent validity + value oracle: returns a tuple / float or None."""
    if itype == 'date':
        parts = s.split('-')
        if len(parts) != 3:
            return None
        y, m, d = parts
        if not (ascii_digits(y) and len(y) >= 4 and ascii_digits(m) and len(m) == 2 and ascii_digits(d) and len(d) == 2):
            return None
        y, m, d = int(y), int(m), int(d)
        if y < 1 or not 1 <= m <= 12 or not 1 <= d <= days_in_month(y, m):
            return None
        return (y, m, d)
    if itype == 'month':
        parts = s.split('-')
        if len(parts) != 2:
            return None
        y, m = parts
        if not (ascii_digits(y) and len(y) >= 4 and ascii_digits(m) and len(m) == 2):
            return None
        y, m = int(y), int(m)
        if y < 1 or not 1 <= m <= 12:
            return None
        return (y, m)
    if itype == 'week':
        parts = s.split('-W')
        if len(parts) != 2:
            return None
        y, w = parts
        if not (ascii_digits(y) and len(y) >= 4 and ascii_digits(w) and len(w) == 2):
            return None
        y, w = int(y), int(w)
        if y < 1 or not 1 <= w <= iso_weeks(y):
            return None
        return (y, w)
    if itype == 'time':
        # HTML "valid time string": HH:MM, optionally :SS, optionally .s / .ss / .sss
        parts = s.split(':')
        if len(parts) not in (2, 3):
            return None
        h, m = parts[0], parts[1]
        if not (ascii_digits(h) and len(h) == 2 and ascii_digits(m) and len(m) == 2):
            return None
        h, m = int(h), int(m)
        if h > 23 or m > 59:
            return None
        if len(parts) == 2:
            return (h, m)
        sec, dot, frac = parts[2].partition('.')
        if not (ascii_digits(sec) and len(sec) == 2 and int(sec) <= 59):
            return None
        if dot and not (ascii_digits(frac) and 1 <= len(frac) <= 3):
            return None
        return (h, m, int(sec), int((frac + '00')[:3]) if dot else 0)
    if itype == 'datetime-local':
        # HTML "valid local date and time string": date, then 'T' or one space, then time
        parts = s.split('T') if 'T' in s else s.split(' ')
        if len(parts) != 2:
            return None
        d = oracle('date', parts[0])
        t = oracle('time', parts[1])
        if d is None or t is None:
            return None
        return d + t
    if itype in ('number', 'range'):
        t = s[1:] if s.startswith('-') else s
        mant, _, ex = t.partition('e') if 'e' in t else t.partition('E')
        if ('e' in t or 'E' in t):
            e2 = ex[1:] if ex[:1] in '+-' else ex
            if not ascii_digits(e2):
                return None
        ip, dot, fp = mant.partition('.')
        if dot:
            if not ascii_digits(fp) or (ip != '' and not ascii_digits(ip)):
                return None
        elif not ascii_digits(ip):
            return None
        return (float(s),)
    return None


def is_known_week53(itype, s, py):
    """The recorded finding: week 53 accepted when 31 December lies in week 1 of the next year."""
    if itype != 'week' or py is None:
        return False
    y, w = py
    return w == 53 and iso_weeks(y) == 52 and dec31_weekday(y) <= 3


KF_SECONDS = 'time-with-seconds-or-space-separator'


def is_known_seconds(itype, s, py, exp):
    """The recorded finding: HTML also allows ':SS' / ':SS.sss' in time strings and a space instead of 'T' in local
    date-time strings; the library treats those strings as invalid (never as a different value)."""
    if itype not in ('time', 'datetime-local') or py is not None or exp is None:
        return False
    t = s.split('T')[-1].split(' ')[-1]
    return t.count(':') == 2 or (itype == 'datetime-local' and 'T' not in s and ' ' in s)


def gen_strings(rng, quick):
    out = [('time', x) for x in ('10:00:00', '10:00:30', '23:59:59', '10:00:60', '10:00:00.5', '10:00:00.123', '10:00:00.1234',
                                 '10:00:', '10:00:0', '24:00:00', '10:60:00')]
    out += [('datetime-local', x) for x in ('2020-01-01T10:00:00', '2020-01-01 10:00', '2020-01-01 10:00:30.25', '2020-01-01  10:00',
                                             '2020-02-30 10:00', '2020-01-01T10:00:61')]
    years = [1, 2, 3, 4, 5, 99, 100, 400, 999, 1000, 1001, 1582, 1600, 1700, 1900, 1979, 1980, 1999, 2000, 2004, 2015,
             2019, 2020, 2026, 2400, 9998, 9999, 10000, 10001, 12345, 100000, 0]
    years += list(range(1990, 2040) if quick else range(1, 4200))
    years += [rng.randint(1, 9999) for _ in range(60 if quick else 3000)]
    years += [rng.randint(10000, 10 ** 7) for _ in range(20 if quick else 500)]
    for y in years:
        ys = f'{y:04d}'
        for w in (0, 1, 52, 53, 54):
            out.append(('week', f'{ys}-W{w:02d}'))
        for m in ((2, 12) if quick else (1, 2, 4, 12, 0, 13)):
            for d in (0, 1, 28, 29, 30, 31, 32):
                out.append(('date', f'{ys}-{m:02d}-{d:02d}'))
        if quick and y in (1, 4, 100, 400, 1999, 2000, 2024, 12345):       # every month's last days, for a few years
            for m in range(0, 14):
                for d in (30, 31, 32):
                    out.append(('date', f'{ys}-{m:02d}-{d:02d}'))
        out.append(('month', f'{ys}-{rng.randint(0, 13):02d}'))
        out.append(('datetime-local', f'{ys}-{rng.randint(1, 12):02d}-{rng.randint(1, 31):02d}T{rng.randint(0, 24):02d}:{rng.randint(0, 60):02d}'))
    for h in range(0, 26):
        for m in (0, 1, 30, 59, 60, 61, 99):
            out.append(('time', f'{h:02d}:{m:02d}'))
    nums = ['0', '1', '-1', '1.5', '-1.5', '.5', '-.5', '5.', '1e5', '1E5', '1e+5', '1e-5', '.5e1', '-2.5e+3', '1e', 'e5',
            '1.e5', '1e5.0', '+1', '--1', '1-', '00012', '12.000', '1e0', '0.000', '-0', '1 ', ' 1', '1\n', '٣', '1٣', 'inf',
            'nan', '0x10', '1_0', '', '-', '.', '1..2', '1.2.3', '1e1e1']
    for _ in range(200 if quick else 5000):
        ip = str(rng.randint(0, 10 ** rng.randint(0, 7)))
        fp = '' if rng.random() < 0.4 else '.' + str(rng.randint(0, 10 ** rng.randint(1, 6))).zfill(rng.randint(1, 3))
        ex = '' if rng.random() < 0.7 else rng.choice('eE') + rng.choice(['', '+', '-']) + str(rng.randint(0, 20))
        nums.append(rng.choice(['', '-']) + ip + fp + ex)
    for n in nums:
        out.append((rng.choice(['number', 'range']), n))
    # shape mutations of valid strings
    base = [('date', '2024-02-29'), ('month', '2024-02'), ('week', '2020-W53'), ('time', '23:59'),
            ('datetime-local', '2024-02-29T23:59'), ('number', '12.5')]
    for ty, s in base:
        for i in range(len(s) + 1):
            for ins in ['', '0', ' ', '\n', '-', 'x', '٣', 'T', ':', 'W', 'w']:
                out.append((ty, s[:i] + ins + s[i:]))
                if i < len(s):
                    out.append((ty, s[:i] + ins + s[i + 1:]))
        out.append((ty, '0' + s))
        out.append((ty, s.lower()))
    out += [(t, s) for t in ('text', 'Date', '', 'datetime') for s in ('2020-01-01', '5')]
    return out


def lean_value(resp):
    r = enc.parse_sx(resp)
    if r == []:
        return None
    if r[0] == 0:
        return tuple(r[1])
    neg, mant, ex = r[1], r[2], r[3]
    return (float(f'{"-" if neg else ""}{mant}e{ex}'),)


def range_docs(rng, n):
    cases = []
    samples = {'date': ['2020-01-01', '2020-12-31', '2019-02-29', '2024-02-29', '0999-01-01', '10000-01-01', 'x', ''],
               'month': ['2020-01', '2020-12', '2020-13', '0001-01'],
               'week': ['2020-W01', '2020-W53', '2021-W53', '2015-W53', '2020-W00', '0999-W01'],
               'time': ['00:00', '08:30', '12:00', '23:59', '24:00', '22:00'],
               'datetime-local': ['2020-01-01T00:00', '2020-06-15T12:30', '2020-06-15T24:00'],
               'number': ['0', '5', '-5', '2.5', '1e1', '10', 'x', '5.'],
               'range': ['0', '5', '10', '7.5']}
    for _ in range(n):
        kids = []
        for _ in range(rng.randint(1, 5)):
            ty = rng.choice(list(samples) + ['text', 'DATE', 'Number'])
            pool = samples.get(ty.lower(), samples['number'])
            attrs = []
            if rng.random() < 0.9:
                attrs.append(('type', ty))
            for a in ('min', 'max', 'value'):
                if rng.random() < 0.65:
                    attrs.append((a, rng.choice(pool)))
            rng.shuffle(attrs)
            kids.append(('e', rng.choice(['input', 'input', 'input', 'select', 'INPUT']), None, None, attrs, []))
        top = [('e', 'form', None, None, [], kids)]
        sel = rng.choice([':in-range', ':out-of-range', 'input:not(:out-of-range)', ':in-range, :out-of-range',
                          ':not(:in-range)'])
        cases.append({'kind': rng.choice(['html', 'html5', 'xhtml', 'xml']), 'tree': top, 'selector': sel,
                      'queries': [('select', [], 0)]})
    return cases


RANGE_TYPES = ('date', 'month', 'week', 'time', 'datetime-local', 'number', 'range')


def range_expect(attrs):
    """What HTML (and the property) say about one <input> of an HTML document, from its attributes alone:
    'in' / 'out' / None (neither).  Validity comes from the independent calendar oracle; comparison is the
    tuple / numeric order; for time a min greater than max is a range that wraps around midnight."""
    d = {}
    for k, v in attrs:
        d.setdefault(k.lower(), v)
    ty = d.get('type', '').lower() if 'type' in d else None
    if ty not in RANGE_TYPES:
        return None
    mn = oracle(ty, d['min']) if 'min' in d else None
    mx = oracle(ty, d['max']) if 'max' in d else None
    if mn is None and mx is None:
        return None
    val = oracle(ty, d['value']) if 'value' in d else None
    if val is None:
        return 'in'                      # an invalid or missing value is never out of range
    if ty == 'time' and mn is not None and mx is not None and mn > mx:
        return 'out' if (val < mn and val > mx) else 'in'
    if mn is not None and val < mn:
        return 'out'
    if mx is not None and val > mx:
        return 'out'
    return 'in'


def range_oracle_sweep(rng, n):
    """Documents of range-typed inputs (a third of them time inputs with min > max) checked against `range_expect`
    on the real library: select(':in-range') / select(':out-of-range') must be exactly the expected controls."""
    import bs4
    import soupsieve as sv
    pools = {'date': ['2020-01-01', '2020-12-31', '2019-02-29', '2024-02-29', '2020-06-15', 'x', '', '2020-01-01\n'],
             'month': ['2020-01', '2020-12', '2020-13', '2021-06', '0001-01'],
             'week': ['2020-W01', '2020-W52', '2021-W10', '2020-W00', '2015-W20'],
             'time': ['00:00', '08:30', '12:00', '23:59', '24:00', '22:00', '03:15', '21:59', '08:31', ''],
             'datetime-local': ['2020-01-01T00:00', '2020-06-15T12:30', '2020-06-15T24:00', '2021-01-01T00:00'],
             'number': ['0', '5', '-5', '2.5', '1e1', '10', 'x', '5.', '.5', '-0'],
             'range': ['0', '5', '10', '7.5', '-1']}
    bad, nctl, nwrap, nout = [], 0, 0, 0
    for _ in range(n):
        ctrls = []
        for _ in range(rng.randint(1, 6)):
            ty = rng.choice(list(pools) + ['time'] * 3)
            pool = pools[ty]
            attrs = [('type', rng.choice([ty, ty, ty.upper(), ty.capitalize()]))]
            if ty == 'time' and rng.random() < 0.6:
                a, b = sorted(rng.sample(['00:00', '03:15', '08:30', '12:00', '21:59', '22:00', '23:59'], 2))
                attrs += [('min', b), ('max', a), ('value', rng.choice(pool))]      # min > max: wraps around midnight
            else:
                for a in ('min', 'max', 'value'):
                    if rng.random() < 0.7:
                        attrs.append((a, rng.choice(pool)))
            rng.shuffle(attrs)
            ctrls.append(attrs)
        body = ''.join('<input id="c%d" %s>' % (i, ' '.join('%s="%s"' % (k, v.replace('\n', '&#10;')) for k, v in a))
                       for i, a in enumerate(ctrls))
        parser = rng.choice(['html.parser', 'lxml', 'html5lib'])
        soup = bs4.BeautifulSoup('<html><body><form>' + body + '</form></body></html>', parser)
        got_in = {e['id'] for e in sv.select(':in-range', soup)}
        got_out = {e['id'] for e in sv.select(':out-of-range', soup)}
        for i, a in enumerate(ctrls):
            exp = range_expect(a)
            nctl += 1
            d = dict((k, v) for k, v in a)
            if d['type'].lower() == 'time' and 'min' in d and 'max' in d and exp is not None and \
                    oracle('time', d['min']) and oracle('time', d['max']) and oracle('time', d['min']) > oracle('time', d['max']):
                nwrap += 1
            nout += exp == 'out'
            cid = 'c%d' % i
            got = 'out' if cid in got_out else 'in' if cid in got_in else None
            if (cid in got_in and cid in got_out) or got != exp:
                bad.append({'markup_input': dict(a), 'parser': parser, 'expected': exp, 'in_range': cid in got_in,
                            'out_of_range': cid in got_out})
    return bad, {'range_oracle_controls': nctl, 'range_oracle_time_wrap_controls': nwrap, 'range_oracle_expected_out': nout}


def run(chk):
    proof_ok = framework.lean_pipeline(chk, SOURCES)
    driver_ok = proof_ok or chk.build(['svdriver'])[0]
    rng = random.Random(chk.seed)
    quick = chk.tier == 'quick'
    strings = gen_strings(rng, quick)
    py_bad, known_hits, pyv = [], 0, []
    raised = False
    seconds_hits = 0
    valid = set()
    lines = []
    for ty, s in strings:
        exp = oracle(ty, s)
        try:
            py = cm.Inputs.parse_value(ty, s)
        except Exception as e:       # the library raising on a min / max / value string is a failure of the property
            py = None
            if len(py_bad) < 5:
                py_bad.append({'type': ty, 'value': s, 'py': 'raised ' + repr(e), 'oracle': exp})
            raised = True
        pyv.append(py)
        if exp is not None:
            valid.add((ty, s))
        if py != exp:
            if is_known_seconds(ty, s, py, exp):
                seconds_hits += 1
            elif is_known_week53(ty, s, py):
                known_hits += 1
            else:
                py_bad.append({'type': ty, 'value': s, 'py': py, 'oracle': exp})
        lines.append(f'(3 {enc.s(ty)} {enc.s(s)})')
    if seconds_hits:
        kf = chk.is_known(KF_SECONDS)
        if kf:
            chk.known_finding(KF_SECONDS, kf['text'] + f' [{seconds_hits} inputs of this run]')
        else:
            py_bad.append({'what': 'valid HTML time / local date-time strings with seconds or a space separator are rejected',
                           'count': seconds_hits})
    if known_hits:
        kf = chk.is_known(KF_KEY)
        if kf:
            chk.known_finding(KF_KEY, kf['text'] + f' [{known_hits} inputs of this run]')
        else:
            py_bad.append({'what': 'week 53 accepted where ISO 8601 has 52 weeks', 'count': known_hits})
    # ordering: pairs of valid values of one type
    byty = {}
    for (ty, s), v in zip(strings, pyv):
        if v is not None:
            byty.setdefault(ty, []).append((s, v))
    order_lines, order_exp = [], []
    for ty, vals in byty.items():
        for _ in range(min(len(vals) ** 2, 400 if quick else 6000)):
            (s1, v1), (s2, v2) = rng.choice(vals), rng.choice(vals)
            order_lines.append(f'(4 {enc.s(ty)} {enc.s(s1)} {enc.s(s2)})')
            order_exp.append((ty, s1, s2, v1 < v2))
    corr_bad, order_bad, doc_bad = [], [], []
    ndocs = 0
    if driver_ok:
        for (ty, s), py, resp in zip(strings, pyv, driver.run(lines)):
            lv = lean_value(resp)
            if lv != py:
                corr_bad.append({'type': ty, 'value': s, 'py': py, 'model': lv})
        for (ty, s1, s2, e), resp in zip(order_exp, driver.run(order_lines)):
            r = enc.parse_sx(resp)
            if r == [] or bool(r[0]) != e:
                order_bad.append({'type': ty, 'a': s1, 'b': s2, 'py_lt': e, 'model': r})
        cases = range_docs(rng, 500 if quick else 20000)
        ndocs = len(cases)
        try:
            for rec in matchcorr.run_cases(cases):
                if not rec['agree']:
                    doc_bad.append({'case': rec['case'], 'py': rec['py'], 'model': rec['lean']})
        except Exception:
            if not raised:       # parse_value already raised on a plain string (reported below): the sweeps cannot run
                raise
    try:
        range_bad, range_cov = range_oracle_sweep(random.Random(chk.seed ^ 0x18), 400 if quick else 12000)
    except Exception as e:
        if not raised:
            raise
        range_bad, range_cov = [], {'range_oracle_sweep': 'not run: ' + repr(e)}
    chk.coverage.update(range_cov)
    for i, bad in enumerate(range_bad[:4]):
        chk.violation(f'range{i}', {'what': ':in-range / :out-of-range differ from the HTML range rules (independent oracle: '
                                    'calendar validity, tuple/numeric order, time ranges wrapping midnight)', **bad}, concrete=True)
    chk.samples = [{'type': t, 'value': s, 'py': repr(v)} for (t, s), v in list(zip(strings, pyv))[:4]] + \
                  [{'type': t, 'value': s, 'py': repr(v)} for (t, s), v in zip(strings, pyv) if v is not None][:4]
    chk.coverage.update({'strings': len(strings), 'valid_strings': len(valid), 'py_vs_oracle_mismatches': len(py_bad),
                         'known_finding_inputs': known_hits, 'py_vs_model_mismatches': len(corr_bad),
                         'order_pairs': len(order_lines), 'order_mismatches': len(order_bad),
                         'range_documents': ndocs, 'document_mismatches': len(doc_bad)})
    for i, bad in enumerate(py_bad[:5]):
        chk.violation(f'py{i}', {'what': 'parse_value differs from the HTML validity rules (calendar oracle)', **bad}, concrete=True)
    for i, bad in enumerate(doc_bad[:3]):
        chk.violation(f'doc{i}', {'what': ':in-range/:out-of-range: PY differs from the model', **bad}, concrete=True)
    for i, bad in enumerate(order_bad[:3]):
        chk.violation(f'order{i}', {'what': 'ordering of two valid values: PY differs from the model', **bad}, concrete=True)
    if not py_bad:
        for i, bad in enumerate(corr_bad[:3]):
            chk.violation(f'corr{i}', {'what': 'PY differs from the Lean model; the calendar oracle agrees with PY',
                                       'correspondence': 'Inputs.parse_value ≡ Inputs.parseValue', **bad}, concrete=False)
    if not proof_ok and not (py_bad or corr_bad or order_bad or doc_bad or range_bad):
        chk.violation('proof', {'what': 'proof obligation no longer checks; the sweep found no failing input',
                                'theorem_or_correspondence': 'SoupVerif.Properties.C18', 'detail': chk.notes.get('proof_broken')}, concrete=False)
    return chk.finish(rule=RULE, evaluations=len(strings) + len(order_lines) + ndocs, distinct=len(valid))


def replay(chk, path):
    data = json.load(open(path))
    if 'markup_input' in data:
        import bs4
        import soupsieve as sv
        a = list(data['markup_input'].items())
        soup = bs4.BeautifulSoup('<html><body><form><input id="c" %s></form></body></html>' %
                                 ' '.join('%s="%s"' % (k, v.replace('\n', '&#10;')) for k, v in a), data.get('parser', 'html.parser'))
        el = soup.find(id='c')
        got_in, got_out = sv.match(':in-range', el), sv.match(':out-of-range', el)
        exp = range_expect(a)
        got = 'out' if got_out else 'in' if got_in else None
        print(json.dumps({'expected': exp, 'in_range': got_in, 'out_of_range': got_out}))
        if (got_in and got_out) or got != exp:
            print(f'VIOLATION property={PID} replay={path}')
            return 1
        return 0
    if 'type' in data and 'value' in data:
        exp = oracle(data['type'], data['value'])
        try:
            py = cm.Inputs.parse_value(data['type'], data['value'])
        except Exception as e:
            print(json.dumps({'py': 'raised ' + repr(e), 'oracle': exp}))
            print(f'VIOLATION property={PID} replay={path}')
            return 1
        print(json.dumps({'py': py, 'oracle': exp}))
        if py != exp and not is_known_week53(data['type'], data['value'], py) and not is_known_seconds(data['type'], data['value'], py, exp):
            print(f'VIOLATION property={PID} replay={path}')
            return 1
        return 0
    from props import common_match
    return common_match.replay(chk, path, PID)
