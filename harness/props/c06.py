"""C06: compile() accepts or rejects every string with a documented error only."""
import itertools
import re
import json
import random
import warnings

import soupsieve as sv
from soupsieve import css_parser as cp
from soupsieve import util

import framework
import parsecorr
import spell

warnings.simplefilter('ignore', FutureWarning)
PID = 'C06'
SOURCES = ['SoupVerif/Properties/C06.lean', 'SoupVerif/Lemmas/ParserProgress.lean', 'SoupVerif/Model/Parser.lean',
           'SoupVerif/Model/Regex.lean',
           'SoupVerif/Properties/C06Gen.lean', 'SoupVerif/Lemmas/CapsReal.lean', 'SoupVerif/Generated/PyStrings.lean', 'SoupVerif/Model/PyStrings.lean']
SOURCES += ['SoupVerif/Generated/PySmallFn.lean', 'SoupVerif/Model/SmallFnDyn.lean', 'SoupVerif/Properties/C06GenCustom.lean']   # process_custom translated from the source
SOURCES += ['SoupVerif/Generated/PyCombinators.lean', 'SoupVerif/Model/CombDyn.lean', 'SoupVerif/Properties/C06GenComb.lean']   # parse_combinator / parse_has_combinator translated from the source
SOURCES += ['SoupVerif/Generated/PyPseudoOpen.lean', 'SoupVerif/Properties/C06GenPseudoOpen.lean']   # parse_pseudo_open translated from the source
SOURCES += ['SoupVerif/Generated/PyPseudoCustom.lean', 'SoupVerif/Model/PseudoCustomProg.lean', 'SoupVerif/Properties/C06GenPseudoCustom.lean']   # parse_pseudo_class_custom translated from the source
RULE = ('patterns: every string of length <= k over a 38-symbol alphabet of CSS-significant characters (exhaustive), random '
        'valid selectors of the whole grammar in random spellings, every kind of truncation and single-character mutation of '
        'them, escapes at the code-point boundaries (0, D800, DFFF, 10FFFF, 110000, FFFFFF, with and without terminator), NUL, '
        'unterminated strings / comments / brackets; custom maps with valid, malformed, chained, cyclic and case-colliding '
        'names. Each: (1) PY outcome must be a compiled selector, SelectorSyntaxError, NotImplementedError, or KeyError for '
        'case-colliding custom names (the property itself); (2) PY outcome = Lean parser model outcome (same IR, or same '
        'raise site with the same line/column/context). Non-trivial = compiles, or fails at a site other than the '
        'catch-all "invalid character". (3) WHICH outcome: at-rules / pseudo-elements give NotImplementedError; a list of a '
        'non-forgiving context (top level, :not, :matches, :has, of S) with an empty slot (nothing / gap / dangling combinator, '
        'at any position) gives SelectorSyntaxError.')

ALPHA = ['a', 'A', '1', '-', '_', ' ', '\n', '#', '.', ':', '[', ']', '(', ')', '=', '"', "'", '\\', '*', '|', ',', '>', '+', '~',
         '/', '@', '&', '!', '^', '$', 'n', 'p', '\x00', 'é', '\r', '{', '}', '%']
ESC = ['\\0 ', '\\0', '\\d800 ', '\\dfff', '\\10ffff ', '\\110000', '\\110000 ', '\\ffffff', '\\FFFFFF a', '\\1234567', '\\', '\\\n',
       '\\\r\n', '\\g', '\\-', '\\31 23',
       # characters that mean something to Python's own string formatting, reachable in names only through escapes
       '\\{', '\\}', '\\7b ', '\\7d', '\\{0\\}', '\\{a\\}', '\\{\\}', '\\%s', '\\%', '\\%\\(x\\)s', '\\{0\\[5\\]\\}',
       # what may END a hex escape differs between identifiers and quoted strings (whitespace; a comment is only a comment
       # between tokens): escape + comment-shaped text, + each whitespace kind, + another escape
       '\\41/**/', '\\41/*b*/c', '\\00263A/**/', '\\41 /**/', '\\41/*', '\\41/', '\\41*/', '\\41\t/*x*/', '\\41\f', '\\41\r\n\\42',
       '\\41\\42', '\\41\n', 'a/**/b', '/*\\41*/']
ALLOWED = {'SelectorSyntaxError', 'NotImplementedError'}


def gen_patterns(rng, quick):
    out = []
    k = 2 if quick else 3
    for n in range(0, k + 1):
        for t in itertools.product(ALPHA, repeat=n):
            out.append(''.join(t))
    if quick:
        out += [''.join(rng.choice(ALPHA) for _ in range(3)) for _ in range(4000)]
    for _ in range(700 if quick else 30000):
        items = spell.g_selector(rng)
        s = spell.render(items, rng, rng.choice([0, 1, 1]))
        if len(s) > 160:
            continue
        out.append(s)
        # the four non-ASCII code points Python's re.IGNORECASE identifies with i / s / k, in place of those letters
        spots = [i for i, ch in enumerate(s) if ch in 'iIsSkK']
        if spots and rng.random() < 0.5:
            t = list(s)
            for i in rng.sample(spots, min(len(spots), rng.choice([1, 1, 2]))):
                t[i] = rng.choice(FOLD_TWINS[t[i].lower()])
            out.append(''.join(t))
        for _ in range(3):
            cut = rng.randint(0, len(s))
            out.append(s[:cut])
            out.append(s[cut:])
            i = rng.randint(0, max(0, len(s) - 1))
            out.append(s[:i] + rng.choice(ALPHA) + s[i + 1:])
            out.append(s[:i] + rng.choice(ALPHA + ESC) + s[i:])
    for e in ESC:
        for ctx in ['%s', '#%s', '.%s', '[%s]', '[a=%s]', '[a="%s"]', ":lang(%s)", ':-soup-contains("%s")', 'a%s', ':not(%s)', '%s|a',
                    ':--%s', '[a=%s', '"%s', ':%s', ':%s(', 'p:%s', ':%s(a)', '::%s', '@%s', ':not(:%s)', '[%s=a]', '%s|%s']:
            out.append(ctx.replace('%s', e))
    for tw in ('\u0130', '\u0131', '\u017f', '\u212a'):
        out += [f'[a=b {tw}]', f'[a="b"{tw}]', f'[a=b{tw}]', f':{tw}s(a)', f':nth-child(2n+1 {tw}f a)', f':nth-la{tw}t-child(2)', f':d{tw}r(ltr)',
                f':dir(r{tw}l)', f':lang({tw})', f'[{tw}=a {tw}]', f':nth-child({tw})', f':{tw}', f':not({tw})', f':-soup-conta{tw}ns(a)',
                f':hover{tw}', f':lin{tw}', f':chec{tw}ed']
    out += [':nth-child(' + '1' * 5000 + ')', ':nth-child(n+' + '1' * 4301 + ')', ':nth-last-of-type(' + '9' * 4300 + 'n - ' + '7' * 4400 + ')',
            '[a="' + 'a' * 50, ':lang(' + 'aa,' * 30, '/*' + 'x' * 40, ':is(' * 30, ')' * 5, ':nth-child(' + '9' * 400 + 'n)',
            'a' * 3000, ':nth-child(2n+' + '9' * 300 + ')']
    return out


FOLD_TWINS = {'i': ['\u0130', '\u0131'], 's': ['\u017f'], 'k': ['\u212a']}


def gen_customs(rng, quick):
    out = []
    names = [':--a', ':--b', ':--A', ':--\\61', ':--é', '--a', ':-a', ':--', ':--a b', ':--a\n', ':--1', ':--a\x00', 'x', '']
    defs = ['p', 'div > p', ':--a', ':--b', ':--b, :--a', 'p >', ':is(', '', ':--c', '\\110000', ':not(:--a)', ':--A p', '@x', '::y']
    defs += [':--A', ':--B', ':--A, :--b', 'p:--B', ':--\\41 ', ':is(:--A)']
    pats = [':--a', ':--b', 'p:--a', ':--a :--b', ':--A', ':--c', ':--\\61 ', ':is(:--a, :--b)', 'p', ':--B']
    for nm in names:
        for df in defs:
            out.append((pats[(len(nm) + len(df)) % len(pats)], {nm: df}))
            out.append((':--a', {nm: df}))
    for d1 in defs:
        for d2 in defs[::3]:
            out.append((':--a', {':--a': d1, ':--b': d2}))
    for _ in range(400 if quick else 20000):
        cm = {}
        for _ in range(rng.randint(1, 3)):
            cm[rng.choice(names)] = rng.choice(defs)
        pat = rng.choice([':--a', ':--b', 'p:--a', ':--a :--b', ':--A', ':--c', ':--\\61 ', ':is(:--a, :--b)', 'p'])
        out.append((pat, cm))
    return out


AT_NAMES = ['media', 'page', 'Page', 'import', 'font-face', 'supports', 'x', '-x', '--y', 'é', '\\6d edia', 'M\\65 dia', 'charset',
            'namespace', 'keyframes', 'a1', '_b', '\\@', 'layer']


def which_error(rng, quick):
    """The property names WHICH documented error: NotImplementedError for at-rules and pseudo-elements.  Every
    `@identifier` (any name, any spelling) where a compound selector may start, and every `::identifier`, must
    raise NotImplementedError, not SelectorSyntaxError."""
    import soupsieve as sv
    bad, n = [], 0
    forms = ['@%s', '@%s x', ' @%s', '/**/@%s {}', 'p, @%s', 'p > @%s x', ':is(@%s)', ':not(p, @%s)', 'p,\n@%s']
    pe_forms = ['::%s', 'p::%s', 'p, a::%s', ':is(p::%s)', 'p::%s(x)']
    names = list(AT_NAMES)
    if not quick:
        names += [''.join(rng.choice('abcxyzPMp-_') for _ in range(rng.randint(1, 6))) for _ in range(300)]
        names = [x for x in names if not x[0].isdigit() and not (x[0] == '-' and len(x) > 1 and x[1].isdigit()) and x != '-']
    for nm in names:
        for f, want_forms in ((forms, True), (pe_forms, True)):
            for form in f:
                if f is pe_forms and nm in ('\\@',):
                    continue
                pat = form % nm
                n += 1
                try:
                    sv.compile(pat)
                    got = 'compiled'
                except Exception as e:      # noqa: BLE001
                    got = type(e).__name__
                if got != 'NotImplementedError':
                    bad.append({'pattern': pat, 'exception': got, 'expected': 'NotImplementedError',
                                'kind': 'at-rule' if f is forms else 'pseudo-element'})
    return bad, n


NONFORGIVING = ['%s', ':not(%s)', ':matches(%s)', ':has(%s)', 'p:has(%s)', 'a :has(%s) > b', ':is(p, :has(%s))', ':not(:has(%s))',
                ':has(:not(%s))', ':nth-child(2 of %s)', ':where(:matches(%s))']
FULL_ALTS = ['p', 'a b', '.x > i', '#k ~ [a]', ':is(,)', '*']
REL_ALTS = ['> p', '+ a ~ b', '~ .x', '> :is(a, b)']
EMPTY_SLOTS = ['', ' ', '/**/', '\n', ' /* c */ ']
DANGLING = ['> ', '+', ' ~ ', 'p > ', 'a b + ', '.x~']


def gen_empty_slots(rng, quick):
    """Selector lists of the NON-forgiving contexts (top level, `:not()`, `:matches()`, `:has()`, `of S`) in which one slot is
    empty: nothing / white space / a comment, or only a dangling combinator -- at the first, a middle or the last position.
    CSS has no empty alternative outside the forgiving `:is()` / `:where()`; every such pattern must be rejected with
    SelectorSyntaxError (the relation "`:has(, A)` never compiles, as `:has(A, )`, `:not(, A)`, `, A` never do")."""
    out = []
    for ctx in NONFORGIVING:
        rel = ':has(%s)' in ctx
        for n in (1, 2, 3):
            for pos in range(n):
                for _ in range(3 if quick else 12):
                    slots = []
                    for i in range(n):
                        if i == pos:
                            e = rng.choice(EMPTY_SLOTS + EMPTY_SLOTS + DANGLING)
                            if not rel and n == 1 and not e.strip(' \n') and ctx == '%s':
                                e = rng.choice(DANGLING)      # the empty pattern itself is covered by the exhaustive part
                            slots.append(e)
                        else:
                            slots.append(rng.choice(FULL_ALTS + (REL_ALTS if rel else [])))
                    sep = rng.choice([',', ', ', ' , ', ',\n'])
                    out.append(ctx % sep.join(slots))
    return sorted(set(out))


def empty_slot_errors(pats):
    bad = []
    for pat in pats:
        try:
            sv.compile(pat)
            got = 'compiled'
        except Exception as e:      # noqa: BLE001
            got = type(e).__name__
        if got != 'SelectorSyntaxError':
            bad.append({'pattern': pat, 'exception': got, 'expected': 'SelectorSyntaxError', 'kind': 'empty alternative in a non-forgiving list'})
    return bad


def run(chk):
    proof_ok = framework.lean_pipeline(chk, SOURCES)
    driver_ok = proof_ok or chk.build(['svdriver'])[0]
    rng = random.Random(chk.seed)
    quick = chk.tier == 'quick'
    slot_pats = gen_empty_slots(random.Random(chk.seed ^ 0x51), quick)
    cases = ([(p, None, 0) for p in gen_patterns(rng, quick)] + [(p, None, 0) for p in slot_pats]
             + [(p, cm, 0) for p, cm in gen_customs(rng, quick)])
    py_bad, corr_bad = [], []
    from collections import Counter
    outcome = Counter()
    nontriv = set()
    for start in range(0, len(cases), 20000):
        chunk = cases[start:start + 20000]
        # numbers beyond CPython's int-conversion limit are outside the model: PY outcome only
        huge = [c for c in chunk if re.search(r'[0-9]{4301,}', c[0])]
        chunk = [c for c in chunk if not re.search(r'[0-9]{4301,}', c[0])]
        if driver_ok:
            results = parsecorr.run(chunk)
        else:
            results = [(c, parsecorr.py_compile(*c), None, None) for c in chunk]
        results += [(c, parsecorr.py_compile(*c), None, None) for c in huge]
        for c, py, lean, diff in results:
            if py[0] == 'ok':
                outcome['compiled'] += 1
                nontriv.add(c[0])
            else:
                outcome[f'{py[5]}:{py[1]}'] += 1
                if py[1] != 14:
                    nontriv.add(c[0])
                allowed = py[5] in ALLOWED or (py[5] == 'KeyError' and py[1] == 30 and c[1])
                if not allowed or py[1] in (-1, -2, 99):
                    py_bad.append({'pattern': c[0], 'custom': c[1], 'exception': py[5], 'site': py[1]})
            if diff and re.search(r'[0-9]{4301,}', c[0]):
                diff = None      # beyond CPython's int-conversion limit: outside the model (PY outcome is still checked above)
            if diff:
                corr_bad.append({'pattern': c[0], 'custom': c[1], 'difference': diff, 'py': py if py[0] == 'err' else 'ok',
                                 'model': lean[:3] if lean and lean[0] == 1 else 'ok'})
    chk.samples = [{'pattern': c[0], 'custom': c[1]} for c in cases[1200:1204]] + [{'pattern': c[0], 'custom': c[1]} for c in cases[-3:]]
    chk.coverage.update({'patterns': len(cases), 'py_outcomes': dict(outcome.most_common()), 'undocumented_exceptions': len(py_bad),
                         'py_vs_model_mismatches': len(corr_bad), 'exhaustive': True,
                         'exhaustive_scope': f'all strings of length <= {2 if quick else 3} over the 34-symbol alphabet'})
    we_bad, we_n = which_error(random.Random(chk.seed ^ 0x6), quick)
    chk.coverage['at_rule_and_pseudo_element_patterns'] = we_n
    for i, b in enumerate(we_bad[:3]):
        chk.violation(f'which{i}', {'what': 'an at-rule / pseudo-element is not reported with the documented NotImplementedError', **b},
                      concrete=True)
    es_bad = empty_slot_errors(slot_pats)
    chk.coverage['empty_slot_patterns'] = len(slot_pats)
    for i, b in enumerate(es_bad[:3]):
        chk.violation(f'slot{i}', {'what': 'a selector list outside :is()/:where() with an empty alternative compiled (or raised something other '
                                           'than SelectorSyntaxError)', **b}, concrete=True)
    py_bad = py_bad + we_bad + es_bad
    for i, b in enumerate([b for b in py_bad if 'expected' not in b][:5]):
        chk.violation(f'py{i}', {'what': 'compile() raised an exception that is not documented for this input', **b}, concrete=True)
    if not py_bad:
        for i, b in enumerate(corr_bad[:4]):
            chk.violation(f'corr{i}', {'correspondence': 'CSSParser.process_selectors ≡ Parser.compile', **b}, concrete=False)
    if not proof_ok and not (py_bad or corr_bad):
        chk.violation('proof', {'what': 'proof obligation no longer checks; no input found on which compile() raises an undocumented exception',
                                'theorem_or_correspondence': 'SoupVerif.Properties.C06', 'detail': chk.notes.get('proof_broken')}, concrete=False)
    return chk.finish(rule=RULE, evaluations=len(cases), distinct=len(nontriv))


def replay(chk, path):
    data = json.load(open(path))
    py = parsecorr.py_compile(data['pattern'], data.get('custom'), 0)
    print(json.dumps({'py': py if py[0] == 'err' else 'ok'}, default=repr))
    if data.get('expected'):
        got = py[5] if py[0] == 'err' else 'compiled'
        if got != data['expected']:
            print(f'VIOLATION property={PID} replay={path}')
            return 1
        return 0
    if py[0] == 'err' and not (py[5] in ALLOWED or (py[5] == 'KeyError' and data.get('custom'))):
        print(f'VIOLATION property={PID} replay={path}')
        return 1
    return 0
