"""C05: selector lists and logical pseudo-classes form a Boolean algebra."""
import random
import warnings

import soupsieve as sv

import enc
import gen
import spell
from props import common_match

warnings.simplefilter('ignore', FutureWarning)
PID = 'C05'
SOURCES = ['SoupVerif/Properties/C05.lean', 'SoupVerif/Lemmas/MatchAlgebra.lean', 'SoupVerif/Model/Match.lean']
RULE = ('pairs of selectors (A, B) drawn from the whole grammar (spell.g_complex: types with namespaces, ids, classes, '
        'attributes, every simple / functional / state / HTML-only pseudo-class, :dir, :lang, contains, nth, custom '
        'aliases) on documents with forms, iframes and foreign-namespace content built as html, html5, xhtml and xml; the '
        'Boolean laws are evaluated on PY\'s own results (union, complement, intersection, :where/:matches = :is, '
        'monotonicity) and every selector involved is also compared PY vs the Lean matcher model. Non-trivial = the '
        'union is non-empty and differs from at least one side.')

NS = {'svg': gen.SVG, 'h': gen.XHTML}
CUSTOM = {':--c1': 'div > *', ':--c2': ':is(input, button):enabled'}


def doc_for(r, kind_override=None, foreign=False):
    if r.random() < 0.6:
        kind, top = gen.gen_state_doc(r)
    else:
        kind, top = gen.gen_doc(r)
    kind = kind_override or kind
    # sprinkle foreign-namespace elements
    if (foreign or r.random() < 0.4) and top and top[-1][0] == 'e':
        top[-1][5].append(('e', 'svg', None, gen.SVG, [], [('e', 'circle', None, gen.SVG, [], [])]))
        # more foreign elements at other places: per-call state must not leak from one element to the next
        for _ in range(r.choice([0, 1, 2])):
            holder = top[-1]
            for _ in range(r.randint(0, 2)):
                sub = [k for k in holder[5] if k[0] == 'e' and k[3] != gen.SVG]
                if not sub:
                    break
                holder = r.choice(sub)
            holder[5].insert(r.randint(0, len(holder[5])), ('e', r.choice(['circle', 'svg', 'a']), None, gen.SVG,
                                                            [('class', ['c1'])] if r.random() < 0.3 else [], []))
    return kind, top


STATE = [':checked', ':default', ':disabled', ':enabled', ':indeterminate', ':optional', ':required', ':read-only',
         ':read-write', ':in-range', ':out-of-range', ':placeholder-shown', ':link', ':any-link', ':defined', ':scope',
         ':dir(ltr)', ':dir(rtl)', ':lang(en)', ':lang("de-*")', ':-soup-contains("a")', ':-soup-contains-own("b")',
         ':hover', ':focus', ':root', ':empty', ':--c1', ':--c2', 'svg|circle', 'svg|*', 'h|div', '*|p', '|p']
STATE_TAGS = ['input', 'button', 'select', 'option', 'textarea', 'fieldset', 'form', 'div', 'p', 'span', 'a', 'iframe', 'html',
              'body', 'legend', 'optgroup', 'progress', 'bdi']


def state_simple(r, depth, feats):
    return r.choice(STATE)


FEATS = {'nth': True, 'extra': [state_simple]}


def light(r, names=None):
    """Short selectors that usually match something: [tag][one or two simple selectors]."""
    pool = list(names) if names and r.random() < 0.9 else STATE_TAGS + gen.TAGS
    t = r.choice(pool + ['', '*'] * (len(pool) // 8 + 1))
    parts = []
    for _ in range(r.choice([0, 0, 1, 1, 2]) if t else r.choice([1, 1, 2])):
        x = r.random()
        if x < 0.45:
            parts.append(r.choice([p for p in STATE if '|' not in p]))
        elif x < 0.6:
            parts.append('.' + r.choice(gen.CLASSES))
        elif x < 0.7:
            parts.append(r.choice(['[type]', '[type=radio]', '[type="text" i]', '[name]', '[disabled]', '[dir]', '[id]',
                                   '[class~=c1]', '[title]', '[href]', '[lang|=en]']))
        elif x < 0.85:
            parts.append(r.choice(gen.STRUCT + [':nth-child(odd)', ':nth-child(2)', ':nth-last-child(-n+2)', ':nth-of-type(1)']))
        else:
            parts.append(r.choice([':not(div)', ':not([type])', ':is(input, button)', ':has(> input)', ':has(+ *)',
                                   ':not(:disabled)', ':is(:checked, :required)', ':where(p, span)']))
    s = t + ''.join(parts)
    if r.random() < 0.15:
        s = r.choice(['svg|circle', 'svg|*', 'h|div', '*|p', '|p', '*|*'])
    if r.random() < 0.1:
        s = mixed(r)
    if r.random() < 0.25:
        s = r.choice(pool) + r.choice([' ', ' > ', ' ~ ', ' + ']) + s
    return s


def mixed(r):
    if True:
        # an HTML-only pseudo-class evaluated before / beside a namespace-prefixed name
        st = r.choice([':checked', ':disabled', ':required', ':link', ':default', ':enabled', ':read-write'])
        nsn = r.choice(['svg|circle', 'svg|*', 'h|div', 'svg|a', 'h|*'])
        s = r.choice([f':not({st}):is({nsn})', f'{st}, {nsn}', f'{nsn}:not({st})', f':is({st}, {nsn})', f'{nsn}, {st}',
                      f':not({st}) > {nsn}', f':has(> {nsn}):not({st})', f':not({nsn}):not({st})'])
    return s


def sel_text(r, names=None):
    x = r.random()
    if x < 0.7:
        return light(r, names)
    if x < 0.9:
        return gen.gen_complex(r, 2, FEATS)
    for _ in range(20):
        s = spell.render(spell.g_complex(r, 2), r, 0)
        if len(s) < 70:
            break
    return s


def laws(r, top, ns, names=None):
    """Evaluate the laws on PY. Returns (list of law violations, selectors used, nontrivial)."""
    out = []
    used = []
    for _ in range(40):
        a, b = sel_text(r, names), sel_text(r, names)
        try:
            sv.compile(a, ns, custom=CUSTOM)
            sv.compile(b, ns, custom=CUSTOM)
        except Exception:
            continue
        break
    else:
        return [], [], False
    x = r.choice(['div', 'input', '*', 'p'])

    def S(sel):
        used.append(sel)
        return sv.select(sel, top, namespaces=ns, custom=CUSTOM)

    def ids(l):
        return [id(e) for e in l]
    allels = gen.elements(top)
    order = {id(e): i for i, e in enumerate(allels)}
    sa, sb = S(a), S(b)
    union = sorted(set(ids(sa)) | set(ids(sb)), key=lambda i: order[i])
    universe = set(ids(S('*')))      # what the (implied) universal selector ranges over: a default namespace narrows it
    checks = [
        ('A, B = A ∪ B (document order)', ids(S(f'{a}, {b}')), union),
        (':is(A, B) = :is(A) ∪ :is(B)', set(ids(S(f':is({a}, {b})'))), set(ids(S(f':is({a})'))) | set(ids(S(f':is({b})')))),
        (':not(A) = complement of :is(A)', set(ids(S(f':not({a})'))), universe - set(ids(S(f':is({a})')))),
        (':not(A, B) = complement of :is(A, B)', set(ids(S(f':not({a}, {b})'))), universe - set(ids(S(f':is({a}, {b})')))),
        ('X:is(A) = X ∩ :is(A)', set(ids(S(f'{x}:is({a})'))), set(ids(S(x))) & set(ids(S(f':is({a})')))),
        (':where(A) = :is(A)', ids(S(f':where({a})')), ids(S(f':is({a})'))),
        (':matches(A) = :is(A)', ids(S(f':matches({a})')), ids(S(f':is({a})'))),
        ('monotone: A ⊆ A, B', set(ids(sa)) <= set(ids(S(f'{a}, {b}'))), True),
    ]
    if '' not in ns:
        checks.append((':is(A, B) = A, B (no default namespace)', ids(S(f':is({a}, {b})')), ids(S(f'{a}, {b}'))))
    for name, got, exp in checks:
        if got != exp:
            out.append({'law': name, 'A': a, 'B': b, 'X': x})
    nontrivial = bool(union) and (set(ids(sa)) != set(union) or set(ids(sb)) != set(union))
    return out, used, nontrivial


def make_cases_factory(state):
    def make_cases(rng, n):
        cases = []
        while len(cases) < n:
            kind, top = doc_for(rng)
            ns = rng.choice([{}, NS, NS, {'': gen.XHTML, 'svg': gen.SVG}, {'': gen.SVG, 'h': gen.XHTML}, {'': 'urn:none', 'svg': gen.SVG}])
            soup = gen.build_doc(kind, top)
            try:
                names = sorted({e.name for e in gen.elements(soup)})
                bad, used, nontrivial = laws(rng, soup, ns, names)
            except Exception as e:
                state['exceptions'].append({'kind': kind, 'tree': top, 'error': repr(e)})
                continue
            state['laws'] += 1
            state['nontrivial'] += nontrivial
            for b in bad:
                b.update({'kind': kind, 'tree': top, 'ns': ns})
                state['law_bad'].append(b)
            for sel in used[:6]:
                cases.append({'kind': kind, 'tree': top, 'selector': sel, 'ns': ns, 'custom': CUSTOM,
                              'queries': [('select', [], 0)]})
        return cases[:n]
    return make_cases


def run(chk):
    state = {'laws': 0, 'nontrivial': 0, 'law_bad': [], 'exceptions': []}
    orig_finish = chk.finish

    def finish(**kw):
        chk.coverage.update({'law_instances': state['laws'], 'law_nontrivial': state['nontrivial'],
                             'law_violations': len(state['law_bad']), 'py_exceptions': len(state['exceptions'])})
        for i, b in enumerate(state['law_bad'][:5]):
            chk.violation(f'law{i}', {'what': 'Boolean law fails on PY results', **b}, concrete=True)
        for i, b in enumerate(state['exceptions'][:2]):
            chk.violation(f'exc{i}', {'what': 'PY raised while evaluating a law', **b}, concrete=True)
        kw['distinct'] = max(kw.get('distinct', 0), state['nontrivial'])
        return orig_finish(**kw)
    chk.finish = finish
    return common_match.run(chk, PID, SOURCES, make_cases_factory(state), 1800, 90000, RULE,
                            'SoupVerif.Properties.C05 / correspondence PY select ≡ Model select (full grammar)')


def replay(chk, path):
    import json
    data = json.load(open(path))
    if 'law' in data:
        top = gen.build_doc(data['kind'], __import__('matchcorr')._untuple(data['tree']))
        ns = data['ns']
        print(json.dumps({k: data[k] for k in ('law', 'A', 'B', 'X')}))
        a, b, x = data['A'], data['B'], data['X']
        f = lambda s: [id(e) for e in sv.select(s, top, namespaces=ns, custom=CUSTOM)]
        order = {id(e): i for i, e in enumerate(gen.elements(top))}
        ok = f(f'{a}, {b}') == sorted(set(f(a)) | set(f(b)), key=lambda i: order[i]) and \
            set(f(f':not({a})')) == set(f('*')) - set(f(f':is({a})')) and set(f(f'{x}:is({a})')) == set(f(x)) & set(f(f':is({a})'))
        if not ok:
            print(f'VIOLATION property={PID} replay={path}')
            return 1
        return 0
    return common_match.replay(chk, path, PID)
