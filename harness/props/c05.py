"""C05: selector lists and logical pseudo-classes form a Boolean algebra."""
import random
import warnings

import soupsieve as sv

import enc
import gen
import spell
from props import common_match

warnings.simplefilter('ignore', FutureWarning)
PID = 'C05'
SOURCES = ['SoupVerif/Properties/C05.lean', 'SoupVerif/Lemmas/MatchAlgebra.lean', 'SoupVerif/Model/Match.lean']
RULE = ('pairs of selectors (A, B) drawn from the whole grammar (spell.g_complex: types with namespaces, ids, classes, '
        'attributes, every simple / functional / state / HTML-only pseudo-class, :dir, :lang, contains, nth, custom '
        'aliases) on documents with forms, iframes and foreign-namespace content built as html, html5, xhtml and xml; the '
        'Boolean laws are evaluated on PY\'s own results (union, complement, intersection, :where/:matches = :is, '
        'monotonicity) and every selector involved is also compared PY vs the Lean matcher model. Non-trivial = the '
        'union is non-empty and differs from at least one side. Besides pairs of complete selectors, forgiving lists: '
        ':is()/:where() lists of 2-5 slots mixing complete alternatives with the slots only a forgiving list accepts '
        '(empty, blank, comment-only, and a chain that ends in a dangling > + ~ before the comma), at any position, '
        'nested in :not / :is / :where / a top-level list / a compound; the same laws (n-ary union over the slots, '
        'split, permutation, monotone per slot, complement, De Morgan, intersection, :where = :is) on PY results, '
        'spellings the parser rejects are skipped and counted.')

NS = {'svg': gen.SVG, 'h': gen.XHTML}
CUSTOM = {':--c1': 'div > *', ':--c2': ':is(input, button):enabled'}


def doc_for(r, kind_override=None, foreign=False):
    if r.random() < 0.6:
        kind, top = gen.gen_state_doc(r)
    else:
        kind, top = gen.gen_doc(r)
    kind = kind_override or kind
    # sprinkle foreign-namespace elements
    if (foreign or r.random() < 0.4) and top and top[-1][0] == 'e':
        top[-1][5].append(('e', 'svg', None, gen.SVG, [], [('e', 'circle', None, gen.SVG, [], [])]))
        # more foreign elements at other places: per-call state must not leak from one element to the next
        for _ in range(r.choice([0, 1, 2])):
            holder = top[-1]
            for _ in range(r.randint(0, 2)):
                sub = [k for k in holder[5] if k[0] == 'e' and k[3] != gen.SVG]
                if not sub:
                    break
                holder = r.choice(sub)
            holder[5].insert(r.randint(0, len(holder[5])), ('e', r.choice(['circle', 'svg', 'a']), None, gen.SVG,
                                                            [('class', ['c1'])] if r.random() < 0.3 else [], []))
    return kind, top


STATE = [':checked', ':default', ':disabled', ':enabled', ':indeterminate', ':optional', ':required', ':read-only',
         ':read-write', ':in-range', ':out-of-range', ':placeholder-shown', ':link', ':any-link', ':defined', ':scope',
         ':dir(ltr)', ':dir(rtl)', ':lang(en)', ':lang("de-*")', ':-soup-contains("a")', ':-soup-contains-own("b")',
         ':hover', ':focus', ':root', ':empty', ':--c1', ':--c2', 'svg|circle', 'svg|*', 'h|div', '*|p', '|p']
STATE_TAGS = ['input', 'button', 'select', 'option', 'textarea', 'fieldset', 'form', 'div', 'p', 'span', 'a', 'iframe', 'html',
              'body', 'legend', 'optgroup', 'progress', 'bdi']


def state_simple(r, depth, feats):
    return r.choice(STATE)


FEATS = {'nth': True, 'extra': [state_simple]}


def light(r, names=None):
    """Short selectors that usually match something: [tag][one or two simple selectors]."""
    pool = list(names) if names and r.random() < 0.9 else STATE_TAGS + gen.TAGS
    t = r.choice(pool + ['', '*'] * (len(pool) // 8 + 1))
    parts = []
    for _ in range(r.choice([0, 0, 1, 1, 2]) if t else r.choice([1, 1, 2])):
        x = r.random()
        if x < 0.45:
            parts.append(r.choice([p for p in STATE if '|' not in p]))
        elif x < 0.6:
            parts.append('.' + r.choice(gen.CLASSES))
        elif x < 0.7:
            parts.append(r.choice(['[type]', '[type=radio]', '[type="text" i]', '[name]', '[disabled]', '[dir]', '[id]',
                                   '[class~=c1]', '[title]', '[href]', '[lang|=en]']))
        elif x < 0.85:
            parts.append(r.choice(gen.STRUCT + [':nth-child(odd)', ':nth-child(2)', ':nth-last-child(-n+2)', ':nth-of-type(1)']))
        else:
            parts.append(r.choice([':not(div)', ':not([type])', ':is(input, button)', ':has(> input)', ':has(+ *)',
                                   ':not(:disabled)', ':is(:checked, :required)', ':where(p, span)']))
    s = t + ''.join(parts)
    if r.random() < 0.15:
        s = r.choice(['svg|circle', 'svg|*', 'h|div', '*|p', '|p', '*|*'])
    if r.random() < 0.1:
        s = mixed(r)
    if r.random() < 0.25:
        s = r.choice(pool) + r.choice([' ', ' > ', ' ~ ', ' + ']) + s
    return s


def mixed(r):
    if True:
        # an HTML-only pseudo-class evaluated before / beside a namespace-prefixed name
        st = r.choice([':checked', ':disabled', ':required', ':link', ':default', ':enabled', ':read-write'])
        nsn = r.choice(['svg|circle', 'svg|*', 'h|div', 'svg|a', 'h|*'])
        s = r.choice([f':not({st}):is({nsn})', f'{st}, {nsn}', f'{nsn}:not({st})', f':is({st}, {nsn})', f'{nsn}, {st}',
                      f':not({st}) > {nsn}', f':has(> {nsn}):not({st})', f':not({nsn}):not({st})'])
    return s


def sel_text(r, names=None):
    x = r.random()
    if x < 0.7:
        return light(r, names)
    if x < 0.9:
        return gen.gen_complex(r, 2, FEATS)
    for _ in range(20):
        s = spell.render(spell.g_complex(r, 2), r, 0)
        if len(s) < 70:
            break
    return s


def laws(r, top, ns, names=None):
    """Evaluate the laws on PY. Returns (list of law violations, selectors used, nontrivial)."""
    out = []
    used = []
    for _ in range(40):
        a, b = sel_text(r, names), sel_text(r, names)
        try:
            sv.compile(a, ns, custom=CUSTOM)
            sv.compile(b, ns, custom=CUSTOM)
        except Exception:
            continue
        break
    else:
        return [], [], False
    x = r.choice(['div', 'input', '*', 'p'])

    def S(sel):
        used.append(sel)
        return sv.select(sel, top, namespaces=ns, custom=CUSTOM)

    def ids(l):
        return [id(e) for e in l]
    allels = gen.elements(top)
    order = {id(e): i for i, e in enumerate(allels)}
    sa, sb = S(a), S(b)
    union = sorted(set(ids(sa)) | set(ids(sb)), key=lambda i: order[i])
    universe = set(ids(S('*')))      # what the (implied) universal selector ranges over: a default namespace narrows it
    checks = [
        ('A, B = A ∪ B (document order)', ids(S(f'{a}, {b}')), union),
        (':is(A, B) = :is(A) ∪ :is(B)', set(ids(S(f':is({a}, {b})'))), set(ids(S(f':is({a})'))) | set(ids(S(f':is({b})')))),
        (':not(A) = complement of :is(A)', set(ids(S(f':not({a})'))), universe - set(ids(S(f':is({a})')))),
        (':not(A, B) = complement of :is(A, B)', set(ids(S(f':not({a}, {b})'))), universe - set(ids(S(f':is({a}, {b})')))),
        ('X:is(A) = X ∩ :is(A)', set(ids(S(f'{x}:is({a})'))), set(ids(S(x))) & set(ids(S(f':is({a})')))),
        (':where(A) = :is(A)', ids(S(f':where({a})')), ids(S(f':is({a})'))),
        (':matches(A) = :is(A)', ids(S(f':matches({a})')), ids(S(f':is({a})'))),
        ('monotone: A ⊆ A, B', set(ids(sa)) <= set(ids(S(f'{a}, {b}'))), True),
    ]
    if '' not in ns:
        checks.append((':is(A, B) = A, B (no default namespace)', ids(S(f':is({a}, {b})')), ids(S(f'{a}, {b}'))))
    for name, got, exp in checks:
        if got != exp:
            out.append({'law': name, 'A': a, 'B': b, 'X': x})
    nontrivial = bool(union) and (set(ids(sa)) != set(union) or set(ids(sb)) != set(union))
    return out, used, nontrivial


# ---------------------------------------------------------------- forgiving lists
# A forgiving list (:is / :where) accepts slots that are not selectors on their own: an empty slot and a chain that
# ends in a combinator directly before the comma.  The pairs above never contain such a slot because A and B have to
# be complete selectors.  Here lists are built from SLOTS and the same laws are stated slot-wise.  Nothing is assumed
# about what a forgiven slot selects: every expected set is composed from PY's own results on smaller lists.

COMBS = [' >', ' +', ' ~', '>', ' > ', ' ~ ', '+ ']


def slot(r, names):
    """(kind, text): 'real' = a complete alternative, 'empty' = nothing / blanks / a comment, 'dangling' = a complete
    alternative followed by a combinator (the chain may itself be several compounds long)."""
    x = r.random()
    if x < 0.4:
        return ('real', sel_text(r, names) if r.random() < 0.3 else light(r, names))
    if x < 0.55:
        return ('empty', r.choice(['', '', ' ', '  ', '/**/', ' /* x */ ']))
    a = light(r, names) if r.random() < 0.75 else sel_text(r, names)
    if r.random() < 0.15:
        # the chain carries a forgiving list of its own
        a = f'{r.choice([":is", ":where"])}({spell_slots([slot(r, names) for _ in range(2)], r)}){r.choice([" ", " > "])}{a}'
    return ('dangling', a + r.choice(COMBS))


def spell_slots(slots, r=None):
    """Text of the list.  A dangling chain directly before the closing parenthesis is a syntax error when other slots
    precede it, therefore such a list is closed with one more (empty) slot."""
    slots = list(slots)
    if len(slots) > 1 and slots[-1][0] == 'dangling':
        slots.append(('empty', ''))
    sep = ', ' if r is None else r.choice([', ', ', ', ',', ' , '])
    return sep.join(t for _, t in slots)


def forgiving_instances(r, names, compiles):
    """One list and the law instances about it: (name, lhs, rel, rhs) over expressions
    ['S', selector] set selected | ['L', selector] list in result order | ['U', e...] | ['I', e...] | ['C', e] complement
    in what '*' selects | ['D', e] the set in document order.  `compiles(selector)` filters the spellings."""
    for _ in range(30):
        n = r.choice([2, 2, 3, 3, 4, 5])
        slots = [slot(r, names) for _ in range(n)]
        kinds = {k for k, _ in slots}
        if 'real' not in kinds or kinds == {'real'}:
            continue
        fn = r.choice([':is', ':where'])
        fl = f'{fn}({spell_slots(slots, r)})'
        if compiles(fl):
            break
    else:
        return None, [], {}
    other = ':where' if fn == ':is' else ':is'
    S = lambda s: ['S', s]

    def single(sl):
        """The list that holds only this slot."""
        for cand in (f'{fn}({sl[1]})', f'{fn}({sl[1]}, )'):
            if compiles(cand):
                return cand
        return None
    inst = []
    singles = [single(sl) for sl in slots]
    if all(singles):
        inst.append(('forgiving: fn(s1, .., sn) = fn(s1) ∪ .. ∪ fn(sn)', S(fl), '==', ['U'] + [S(x) for x in singles]))
        inst.append(('forgiving: :not(fn(s1, .., sn)) = :not(fn(s1)) ∩ .. ∩ :not(fn(sn))', S(f':not({fl})'), '==',
                     ['I'] + [S(f':not({x})') for x in singles]))
    for sl, one in zip(slots, singles):
        if sl[0] == 'real' and one:
            inst.append(('forgiving: adding slots never removes a result, fn(si) ⊆ fn(s1, .., sn)', S(one), '<=', S(fl)))
    # drop one slot: the shorter list selects a subset
    k = r.randrange(len(slots))
    shorter = f'{fn}({spell_slots(slots[:k] + slots[k + 1:], r)})'
    inst.append(('forgiving: adding slots never removes a result, fn(list without one slot) ⊆ fn(list)', S(shorter), '<=', S(fl)))
    # split
    k = r.randrange(1, len(slots))
    l1, l2 = f'{fn}({spell_slots(slots[:k], r)})', f'{fn}({spell_slots(slots[k:], r)})'
    inst.append(('forgiving: fn(L1, L2) = fn(L1) ∪ fn(L2)', S(fl), '==', ['U', S(l1), S(l2)]))
    # permutation
    perm = slots[:]
    r.shuffle(perm)
    inst.append(('forgiving: the order of the slots does not matter', S(f'{fn}({spell_slots(perm, r)})'), '==', S(fl)))
    # complement, intersection, the other spelling
    inst.append(('forgiving: :not(fn(L)) = complement of fn(L)', S(f':not({fl})'), '==', ['C', S(fl)]))
    x = r.choice(['div', 'input', '*', 'p', 'span', 'li'] + list(names or [])[:8])
    inst.append(('forgiving: X fn(L) = X ∩ fn(L)', S(f'{x}{fl}'), '==', ['I', S(x), S(fl)]))
    inst.append(('forgiving: :where(L) = :is(L)', ['L', f'{other}({fl[len(fn) + 1:-1]})'], '==', ['L', fl]))
    # the list as one alternative among others
    for _ in range(10):
        a = sel_text(r, names)
        if compiles(a):
            break
    else:
        a = '*'
    outer = r.choice([':is', ':where'])
    inst.append(('forgiving: outer(A, fn(L)) = outer(A) ∪ fn(L)', S(f'{outer}({a}, {fl})'), '==', ['U', S(f'{outer}({a})'), S(fl)]))
    inst.append(('forgiving: outer(fn(L), A) = fn(L) ∪ outer(A)', S(f'{outer}({fl}, {a})'), '==', ['U', S(fl), S(f'{outer}({a})')]))
    inst.append(('forgiving: :not(A, fn(L)) = complement of :is(A) ∪ fn(L)', S(f':not({a}, {fl})'), '==',
                 ['C', ['U', S(f':is({a})'), S(fl)]]))
    inst.append(('forgiving: "A, fn(L)" = A ∪ fn(L) (document order)', ['L', f'{a}, {fl}'], '==', ['D', ['U', S(a), S(fl)]]))
    inst.append(('forgiving: :not(:not(fn(L))) = fn(L)', S(f':not(:not({fl}))'), '==', S(fl)))
    shape = {'dangling_before_real': any(p[0] == 'dangling' and q[0] == 'real' for p, q in zip(slots, slots[1:])),
             'empty_slot': 'empty' in kinds, 'dangling_slot': 'dangling' in kinds, 'slots': len(slots),
             'chains': [t for k_, t in slots if k_ == 'dangling']}
    return fl, inst, shape


def selectors_of(e):
    if e[0] in ('S', 'L'):
        return [e[1]]
    return [s for sub in e[1:] for s in selectors_of(sub)]


def evaluate(e, select, order):
    """Value of an expression; `select(selector)` -> list of element keys, `order` maps key -> document position."""
    op = e[0]
    if op == 'S':
        return set(select(e[1]))
    if op == 'L':
        return list(select(e[1]))
    if op == 'U':
        return set().union(*[set(evaluate(x, select, order)) for x in e[1:]])
    if op == 'I':
        vals = [set(evaluate(x, select, order)) for x in e[1:]]
        return set.intersection(*vals)
    if op == 'C':
        return set(select('*')) - set(evaluate(e[1], select, order))
    if op == 'D':
        return sorted(evaluate(e[1], select, order), key=lambda i: order[i])
    raise ValueError(op)


def holds(inst, select, order):
    _, lhs, rel, rhs = inst
    a, b = evaluate(lhs, select, order), evaluate(rhs, select, order)
    return a <= b if rel == '<=' else a == b


def forgiving_laws(r, top, ns, names, state):
    """Evaluate the forgiving-list laws on PY. Returns (violations, selectors for the PY-vs-model comparison)."""
    ccache = {}

    def compiles(sel):
        if sel not in ccache:
            try:
                sv.compile(sel, ns, custom=CUSTOM)
                ccache[sel] = True
            except sv.SelectorSyntaxError:
                ccache[sel] = False
        return ccache[sel]
    fl, inst, shape = forgiving_instances(r, names, compiles)
    if fl is None:
        return [], []
    scache = {}

    def select(sel):
        if sel not in scache:
            scache[sel] = [id(e) for e in sv.select(sel, top, namespaces=ns, custom=CUSTOM)]
        return scache[sel]
    order = {id(e): i for i, e in enumerate(gen.elements(top))}
    out = []
    state['f_lists'] += 1
    for key in ('dangling_before_real', 'empty_slot', 'dangling_slot'):
        state['f_' + key] += bool(shape[key])
    for ins in inst:
        sels = [s for e in (ins[1], ins[3]) for s in selectors_of(e)]
        if not all(compiles(s) for s in sels):
            state['f_skipped'] += 1          # the parser does not accept one of the spellings: nothing to compare
            continue
        state['f_instances'] += 1
        if not holds(ins, select, order):
            out.append({'law': ins[0], 'lhs': ins[1], 'rel': ins[2], 'rhs': ins[3], 'list': fl})
    got = select(fl)
    state['f_nonempty'] += bool(got)
    # live = the list selects something AND the head of some dangling chain selects something too (a chain that is
    # wrongly kept, dropped late or attached elsewhere would then change the result)
    live = False
    for c in shape['chains']:
        head = c.rstrip().rstrip('>+~').rstrip()
        if got and compiles(head) and select(head):
            live = True
    state['f_live'] += live
    used = [fl] + [s for s in scache if s != fl and s != '*' and fl in s][:2]
    return out, used


FORGIVING_PER_DOC = 3


def make_cases_factory(state):
    def make_cases(rng, n):
        cases = []
        while len(cases) < n:
            kind, top = doc_for(rng)
            ns = rng.choice([{}, NS, NS, {'': gen.XHTML, 'svg': gen.SVG}, {'': gen.SVG, 'h': gen.XHTML}, {'': 'urn:none', 'svg': gen.SVG}])
            soup = gen.build_doc(kind, top)
            try:
                names = sorted({e.name for e in gen.elements(soup)})
                bad, used, nontrivial = laws(rng, soup, ns, names)
                fused = []
                for _ in range(FORGIVING_PER_DOC):
                    fbad, fu = forgiving_laws(rng, soup, ns, names, state)
                    bad += fbad
                    fused += fu
            except Exception as e:
                state['exceptions'].append({'kind': kind, 'tree': top, 'error': repr(e)})
                continue
            state['laws'] += 1
            state['nontrivial'] += nontrivial
            for b in bad:
                b.update({'kind': kind, 'tree': top, 'ns': ns})
                state['law_bad'].append(b)
            for sel in used[:6] + fused[:3]:
                cases.append({'kind': kind, 'tree': top, 'selector': sel, 'ns': ns, 'custom': CUSTOM,
                              'queries': [('select', [], 0)]})
        return cases[:n]
    return make_cases


def run(chk):
    state = {'laws': 0, 'nontrivial': 0, 'law_bad': [], 'exceptions': [], 'f_lists': 0, 'f_instances': 0, 'f_skipped': 0,
             'f_nonempty': 0, 'f_live': 0, 'f_dangling_before_real': 0, 'f_empty_slot': 0, 'f_dangling_slot': 0}
    orig_finish = chk.finish

    def finish(**kw):
        chk.coverage.update({'law_instances': state['laws'], 'law_nontrivial': state['nontrivial'],
                             'law_violations': len(state['law_bad']), 'py_exceptions': len(state['exceptions']),
                             'forgiving_lists': state['f_lists'], 'forgiving_law_instances': state['f_instances'],
                             'forgiving_instances_skipped_parser_rejects_a_spelling': state['f_skipped'],
                             'forgiving_lists_selecting_something': state['f_nonempty'],
                             'forgiving_lists_live_dangling_chain': state['f_live'],
                             'forgiving_lists_with_dangling_chain_before_an_alternative': state['f_dangling_before_real'],
                             'forgiving_lists_with_empty_slot': state['f_empty_slot'],
                             'forgiving_lists_with_dangling_chain': state['f_dangling_slot']})
        for i, b in enumerate(state['law_bad'][:5]):
            chk.violation(f'law{i}', {'what': 'Boolean law fails on PY results', **b}, concrete=True)
        for i, b in enumerate(state['exceptions'][:2]):
            chk.violation(f'exc{i}', {'what': 'PY raised while evaluating a law', **b}, concrete=True)
        kw['distinct'] = max(kw.get('distinct', 0), state['nontrivial'])
        return orig_finish(**kw)
    chk.finish = finish
    return common_match.run(chk, PID, SOURCES, make_cases_factory(state), 2700, 90000, RULE,
                            'SoupVerif.Properties.C05 / correspondence PY select ≡ Model select (full grammar)')


def replay(chk, path):
    import json
    data = json.load(open(path))
    if 'law' in data:
        top = gen.build_doc(data['kind'], __import__('matchcorr')._untuple(data['tree']))
        ns = data['ns']
        if 'lhs' in data:
            print(json.dumps({k: data[k] for k in ('law', 'list', 'lhs', 'rel', 'rhs')}, ensure_ascii=False))
            order = {id(e): i for i, e in enumerate(gen.elements(top))}
            select = lambda s: [id(e) for e in sv.select(s, top, namespaces=ns, custom=CUSTOM)]
            if not holds((data['law'], data['lhs'], data['rel'], data['rhs']), select, order):
                print(f'VIOLATION property={PID} replay={path}')
                return 1
            return 0
        print(json.dumps({k: data[k] for k in ('law', 'A', 'B', 'X')}))
        a, b, x = data['A'], data['B'], data['X']
        f = lambda s: [id(e) for e in sv.select(s, top, namespaces=ns, custom=CUSTOM)]
        order = {id(e): i for i, e in enumerate(gen.elements(top))}
        ok = f(f'{a}, {b}') == sorted(set(f(a)) | set(f(b)), key=lambda i: order[i]) and \
            set(f(f':not({a})')) == set(f('*')) - set(f(f':is({a})')) and set(f(f'{x}:is({a})')) == set(f(x)) & set(f(f':is({a})'))
        if not ok:
            print(f'VIOLATION property={PID} replay={path}')
            return 1
        return 0
    return common_match.replay(chk, path, PID)
