"""C20: diagnostics point at the right place and always terminate."""
import contextlib
import io
import itertools
import json
import random
import re
import signal
import warnings

import soupsieve as sv
from soupsieve import css_parser as cp
from soupsieve import util
from soupsieve.pretty import pretty

import driver
import enc
import framework
import gen
import spell

warnings.simplefilter('ignore', FutureWarning)
PID = 'C20'
SOURCES = ['SoupVerif/Properties/C20.lean', 'SoupVerif/Model/Context.lean', 'SoupVerif/Model/Pretty.lean',
           'SoupVerif/Spec/Context.lean', 'SoupVerif/Spec/Pretty.lean', 'SoupVerif/Lemmas/Context.lean', 'SoupVerif/Lemmas/Pretty.lean']
RULE = ('(a) get_pattern_context(p, i) for every string p over {a, LF, CR} up to a length and every offset 0..len(p), plus '
        'random multi-line selector texts: PY vs an independent line/column oracle (the property) and vs the Lean model; '
        '(b) every SelectorSyntaxError raised by malformed / truncated selectors: line, col and context must equal the '
        'oracle at the offset the message names, and the offset must lie inside the pattern; (c) pretty(repr) of compiled '
        'selectors (negative An+B, regex flags, nested lists) and of random token soups under a 5 s alarm: terminates and '
        'equals the input up to whitespace, and equals the Lean model; (d) DEBUG vs non-DEBUG compile give equal selectors. '
        'Non-trivial (a/b) = multi-line pattern with the offset beyond the first line.')


def oracle(p, i):
    """Independent statement of the property: (line, col)."""
    line, start, k = 1, 0, 0
    while k < len(p):
        if p[k] == '\r' and k + 1 < len(p) and p[k + 1] == '\n':
            end = k + 2
        elif p[k] in '\r\n':
            end = k + 1
        else:
            k += 1
            continue
        if end <= i:
            line += 1
            start = end
        k = end
    return line, i - start + 1


def caret_ok(ctx, p, i, line, col):
    """The context shows the lines of p and a caret under column col of the marked line."""
    rows = ctx.split('\n')
    plines = re.split(r'\r\n|\r|\n', p)
    if len(plines) > 1:
        in_crlf = i > 0 and i < len(p) and p[i - 1] == '\r' and p[i] == '\n'
        want = []
        for k, pl in enumerate(plines):
            want.append(('--> ' if k == line - 1 else '    ') + pl)
            if k == line - 1:
                want.append(' ' * (4 + col - 1 - (1 if in_crlf else 0)) + '^')
        return rows == want
    return rows == [p, ' ' * (col - 1) + '^']


class Alarm(Exception):
    pass


def _alarm(*a):
    raise Alarm()


def run(chk):
    proof_ok = framework.lean_pipeline(chk, SOURCES)
    driver_ok = proof_ok or chk.build(['svdriver'])[0]
    rng = random.Random(chk.seed)
    quick = chk.tier == 'quick'
    L = 5 if quick else 7
    pats = [''.join(t) for n in range(0, L + 1) for t in itertools.product('a\n\r', repeat=n)]
    for _ in range(300 if quick else 5000):
        s = spell.render(spell.g_selector(rng), rng, 1)
        pats.append(s)
    py_bad, nontriv, ctx_lines, ctx_exp = [], 0, [], []
    for p in pats:
        for i in range(len(p) + 1):
            ctx, line, col = util.get_pattern_context(p, i)
            ol, oc = oracle(p, i)
            if ol > 1:
                nontriv += 1
            if (line, col) != (ol, oc) or not caret_ok(ctx, p, i, line, col):
                py_bad.append({'pattern': p, 'offset': i, 'py': [line, col, ctx], 'expected_line_col': [ol, oc]})
            if len(p) <= L or rng.random() < 0.1:
                ctx_lines.append(f'(11 {enc.s(p)} {i})')
                ctx_exp.append((p, i, ctx, line, col))
    # (b) raised errors
    err_total = 0
    bads = []
    # past false alarm of this oracle (a pattern line that itself looks like a caret row) and similar shapes, run first
    regress = ['/* * / */[\t\x80|a\\\\b\n^\n', 'a\n^', '^\n!', 'a\n    ^\n!', '--> a\n!', 'a,\n  ^\n^\n)', 'a\r\n^\r\n,', '\n^\n^\n(']
    for it in range((1500 if quick else 40000) + len(regress)):
        if it < len(regress):
            t = regress[it]
        else:
            s = spell.render(spell.g_selector(rng), rng, 1)
            cut = rng.randint(0, len(s))
            t = s[:cut] + rng.choice(['', '', ')', ',', '>', '(', '[', '"', ':', '!', '\n', '\r\n  ', '\n^\n', '\n  ^']) + (s[cut:] if rng.random() < 0.3 else '')
        try:
            cp.CSSParser(t).process_selectors()
        except util.SelectorSyntaxError as e:
            err_total += 1
            m = re.search(r'position (\d+)', str(e).split('\n')[0])
            pat = t.replace('\x00', '�')
            if m and e.line is not None:
                off = int(m.group(1))
                ol, oc = oracle(pat, off)
                if off > len(pat) or (e.line, e.col) != (ol, oc) or not caret_ok(e.context, pat, off, e.line, e.col):
                    bads.append({'pattern': t, 'message': str(e).split('\n')[0], 'py': [e.line, e.col, e.context],
                                 'expected_line_col': [ol, oc]})
                elif ol > 1:
                    nontriv += 1
        except NotImplementedError:
            pass
        except Exception as e:
            bads.append({'pattern': t, 'exception': repr(e)})
    # (c) pretty
    reprs = []
    sels = ['[a=b]', ':nth-child(-n+3)', 'a > b:nth-last-of-type(-2n - 1)', '[type="A b" i]', ':is(a, b):not(c)[x~="y z"]',
            'p:lang("de, x", en)', ':-soup-contains("a\'b", \'c"d\')', 'x|y[z|w$="\\"q"]:has(> a + b)', ':checked', ':dir(rtl)',
            '[a="\\a b"]', ':nth-child(2n+1 of .x, #y)']
    # values long enough for re.Pattern.__repr__ to truncate its source at 200 characters (an unterminated quote in the repr),
    # full of characters re.escape() escapes
    for _ in range(6 if quick else 60):
        long = ''.join(rng.choice(['a', 'b c', '-', '.', ' ', 'x-y.z', ';', ': ', '/', '"', "'", '\\\\']) for _ in range(rng.randint(120, 260)))
        long = long.replace('"', '\\"')
        sels.append(rng.choice(['[style="%s"]', 'a[href^="%s"]', 'p, :not([style*="%s"])', '[a~="x"][b="%s" i]', ':is([t$="%s"])']) % long)
    for _ in range(150 if quick else 4000):
        sels.append(gen.gen_list(rng, 0, {'nth': True}))
    for s in sels:
        try:
            c = cp.CSSParser(s).process_selectors()
            reprs.append(repr(c))
        except Exception:
            pass
    soup_alpha = ['a', 'b_', '(', ')', '[', ']', '{', '}', ',', ':', ' ', '\n', '=', "'", '"', '\\', '1', '-', '.', 're', 'X(', 'k=', '()']
    for _ in range(300 if quick else 20000):
        reprs.append(''.join(rng.choice(soup_alpha) for _ in range(rng.randint(0, 14))))
    pretty_bad, pretty_out = [], []
    signal.signal(signal.SIGALRM, _alarm)
    for r_ in reprs:
        signal.alarm(5)
        try:
            out = pretty(r_)
            signal.alarm(0)
            if re.sub(r'\s', '', out) != re.sub(r'\s', '', r_):
                pretty_bad.append({'input': r_, 'output': out, 'failure': 'differs beyond whitespace'})
            pretty_out.append(out)
        except Alarm:
            pretty_bad.append({'input': r_, 'failure': 'did not terminate within 5 s'})
            pretty_out.append(None)
        finally:
            signal.alarm(0)
    # (d) DEBUG changes no result
    debug_bad = []
    for s in sels[:200 if quick else 3000]:
        def comp(flags):
            buf = io.StringIO()
            with contextlib.redirect_stdout(buf):
                try:
                    return ('ok', cp.CSSParser(s, flags=flags).process_selectors())
                except Exception as e:
                    return ('err', type(e).__name__, str(e))
        if comp(0) != comp(util.DEBUG):
            debug_bad.append({'selector': s})
    corr_bad = []
    if driver_ok:
        for (p, i, ctx, line, col), r_ in zip(ctx_exp, driver.run(ctx_lines)):
            lr = enc.parse_sx(r_)
            if (''.join(map(chr, lr[0])), lr[1], lr[2]) != (ctx, line, col):
                corr_bad.append({'what': 'get_pattern_context', 'pattern': p, 'offset': i, 'py': [ctx, line, col],
                                 'model': [''.join(map(chr, lr[0])), lr[1], lr[2]]})
        for r_, out, resp in zip(reprs, pretty_out, driver.run([f'(12 {enc.s(x)})' for x in reprs])):
            m = ''.join(map(chr, enc.parse_sx(resp)))
            if out is not None and m != out:
                corr_bad.append({'what': 'pretty', 'input': r_, 'py': out, 'model': m})
    chk.samples = [{'pattern': 'ab\ncd', 'offset': 5, 'py': list(util.get_pattern_context('ab\ncd', 5))},
                   {'pretty_input': reprs[1][:80]}]
    chk.coverage.update({'context_patterns': len(pats), 'context_queries_model': len(ctx_lines), 'errors_raised': err_total,
                         'pretty_inputs': len(reprs), 'context_failures': len(py_bad), 'error_position_failures': len(bads),
                         'pretty_failures': len(pretty_bad), 'debug_failures': len(debug_bad), 'py_vs_model_mismatches': len(corr_bad),
                         'exhaustive': True, 'exhaustive_scope': f'all strings over {{a, LF, CR}} up to length {L}, every offset'})
    for i, b in enumerate(py_bad[:3]):
        chk.violation(f'ctx{i}', {'what': 'get_pattern_context: wrong line / column / caret', **b}, concrete=True)
    for i, b in enumerate(bads[:3]):
        chk.violation(f'err{i}', {'what': 'SelectorSyntaxError position does not identify the offset', **b}, concrete=True)
    for i, b in enumerate(pretty_bad[:3]):
        chk.violation(f'pretty{i}', {'what': 'pretty printer', **b}, concrete=True)
    for i, b in enumerate(debug_bad[:2]):
        chk.violation(f'debug{i}', {'what': 'DEBUG flag changes the compiled result', **b}, concrete=True)
    if not (py_bad or bads or pretty_bad):
        for i, b in enumerate(corr_bad[:3]):
            chk.violation(f'corr{i}', {'correspondence': 'util.get_pattern_context / pretty ≡ Lean model', **b}, concrete=False)
    if not proof_ok and not (py_bad or bads or pretty_bad or debug_bad or corr_bad):
        chk.violation('proof', {'what': 'proof obligation no longer checks; no failing input found',
                                'theorem_or_correspondence': 'SoupVerif.Properties.C20', 'detail': chk.notes.get('proof_broken')}, concrete=False)
    n = sum(len(p) + 1 for p in pats)
    return chk.finish(rule=RULE, evaluations=n + err_total + len(reprs), distinct=nontriv)


def replay(chk, path):
    data = json.load(open(path))
    if 'offset' in data:
        ctx, line, col = util.get_pattern_context(data['pattern'], data['offset'])
        ok = (line, col) == oracle(data['pattern'], data['offset']) and caret_ok(ctx, data['pattern'], data['offset'], line, col)
        print(json.dumps({'py': [line, col, ctx], 'ok': ok}))
        if not ok:
            print(f'VIOLATION property={PID} replay={path}')
            return 1
    elif 'message' in data:
        t = data['pattern']
        try:
            cp.CSSParser(t).process_selectors()
            print(json.dumps({'py': 'compiled'}))
        except util.SelectorSyntaxError as e:
            m = re.search(r'position (\d+)', str(e).split('\n')[0])
            pat = t.replace('\x00', '\ufffd')
            off = int(m.group(1))
            ok = (e.line, e.col) == oracle(pat, off) and caret_ok(e.context, pat, off, e.line, e.col)
            print(json.dumps({'py': [e.line, e.col, e.context], 'ok': ok}))
            if not ok:
                print(f'VIOLATION property={PID} replay={path}')
                return 1
    return 0
