"""C20: diagnostics point at the right place and always terminate."""
import contextlib
import io
import itertools
import json
import random
import re
import signal
import warnings

import soupsieve as sv
from soupsieve import css_parser as cp
from soupsieve import util
from soupsieve.pretty import pretty

import driver
import enc
import framework
import gen
import spell

warnings.simplefilter('ignore', FutureWarning)
PID = 'C20'
SOURCES = ['SoupVerif/Properties/C20.lean', 'SoupVerif/Model/Context.lean', 'SoupVerif/Model/Pretty.lean',
           'SoupVerif/Spec/Context.lean', 'SoupVerif/Spec/Pretty.lean', 'SoupVerif/Lemmas/Context.lean', 'SoupVerif/Lemmas/Pretty.lean',
           'SoupVerif/Generated/PyContext.lean', 'SoupVerif/Model/PyCtx.lean', 'SoupVerif/Properties/C20Gen.lean']   # get_pattern_context translated from the source
RULE = ('(a) get_pattern_context(p, i) for every string p over {a, LF, CR} up to a length and every offset 0..len(p), plus '
        'random multi-line selector texts: PY vs an independent line/column oracle (the property) and vs the Lean model; '
        '(b) every SelectorSyntaxError raised by malformed / truncated selectors: line, col and context must equal the '
        'oracle at the offset the message names, and the offset must lie inside the pattern; (c) pretty(repr) of compiled '
        'selectors (negative An+B, regex flags, nested lists) and of random token soups under a 5 s alarm: terminates and '
        'equals the input up to whitespace, and equals the Lean model; (d) compile + select with flags=0 and flags=DEBUG give the same '
        'selectors and elements or the same exception (type, message, line, column, context) on valid selectors, spliced selectors, and '
        'texts with several mistakes of different kinds (token order / unknown names / unbalanced brackets mixed with untokenizable text) '
        'over several lines, alone and with custom-selector tables whose texts are themselves valid, wrong or mutually referring; every '
        'error raised there is also checked as in (b) against the pattern or the custom text it belongs to. '
        'Non-trivial (a/b) = multi-line pattern with the offset beyond the first line.')


def oracle(p, i):
    """Independent statement of the property: (line, col)."""
    line, start, k = 1, 0, 0
    while k < len(p):
        if p[k] == '\r' and k + 1 < len(p) and p[k + 1] == '\n':
            end = k + 2
        elif p[k] in '\r\n':
            end = k + 1
        else:
            k += 1
            continue
        if end <= i:
            line += 1
            start = end
        k = end
    return line, i - start + 1


def caret_ok(ctx, p, i, line, col):
    """The context shows the lines of p and a caret under column col of the marked line."""
    rows = ctx.split('\n')
    plines = re.split(r'\r\n|\r|\n', p)
    if len(plines) > 1:
        in_crlf = i > 0 and i < len(p) and p[i - 1] == '\r' and p[i] == '\n'
        want = []
        for k, pl in enumerate(plines):
            want.append(('--> ' if k == line - 1 else '    ') + pl)
            if k == line - 1:
                want.append(' ' * (4 + col - 1 - (1 if in_crlf else 0)) + '^')
        return rows == want
    return rows == [p, ' ' * (col - 1) + '^']


# ---------------------------------------------------------------------------------------------
# (d) inputs: patterns with SEVERAL mistakes of different kinds, custom selectors, both flag values
# ---------------------------------------------------------------------------------------------
# Every token of these is well formed; the selector is wrong because of what the tokens say or where they stand
# (unknown pseudo-class, pseudo-element, at-rule, doubled / leading / trailing combinator, empty list slot,
# type selector after other simple selectors, unbalanced parenthesis, undefined custom selector).
ORDER_MISTAKES = [':nope', ':nope(a)', ':first-child(a)', ':not', ':nth-child', '::before', 'p::first-line', '::a', '@media x', '@import',
                  '> >', '+ ~', '> ,', ',,', ', ,', ',', ')', 'a)', '.a*', '[x]p', '#i|p', ':root div|*', ':--missing', ':--Missing',
                  ':is(', ':not(a', ':has(', ':has()', ':has(a,)', ':has(> )', ':not(,a', ':nth-child(2n of )', ':nth-child(2n of', '>', '~ a', 'a +',
                  ':is(a > )', ':where(> a)', ':is(a))', ':root(', ':checked(a)', ':-soup-contains', ':lang', ':dir']
# No token matches at some offset (a character outside the grammar, or a construct cut short / spelled wrongly).
TOKEN_MISTAKES = ['$', '!', '%', '{', '}', '/', '=', '"', "'", '"a', '^', '<', '?', '[', '[a', '[a=', '[a="b]', '[a=b c]', '[=b]', '[a~b]', '[a b]',
                  '.', '..a', '.1', '. a', '#', '#.', '# a', '##', ':', ': a', ':(', ':)', ':nth-child(x)', ':nth-child(2n+)', ':nth-child(n',
                  ':nth-of-type(2n of a)', ':lang(', ':lang(a', ':lang(a b)', ':dir(up)', ':dir(', ':-soup-contains(', ':-soup-contains(a',
                  ':contains(a b)', '/* open', '\\', 'a|', '||a', '*|', '1a', '9', '-', '--', '\\\n', ':--', ':-- a', ';', '(', 'a(']
WRAPPERS = [':is(', ':not(', ':where(', ':matches(', ':has(', ':has(> ', ':has(+ ', ':nth-child(2n+1 of ', ':nth-last-child(-n+3 of ', ':any(',
            ':nth-of-type(', ':-soup-contains(', ':lang(']
JOINERS = [' ', ' ', ', ', ',', ' > ', '>', ' + ', ' ~ ', '\n', '\r\n', '\r', ',\n', ' ,\r\n ', '', '', '  ', '\t', ' /* c */ ', '/**/', '\n\n', '\f']
CUSTOM_NAMES = [':--c0', ':--c1', ':--c2']


def g_piece(rng, depth, names):
    x = rng.random()
    if x < 0.26:
        return spell.render(spell.g_complex(rng, 2), rng, 1) if rng.random() < 0.5 else gen.gen_list(rng, 2, {'nth': True}, 1)
    if x < 0.50:
        return rng.choice(ORDER_MISTAKES)
    if x < 0.74:
        return rng.choice(TOKEN_MISTAKES)
    if x < (0.92 if names else 0.82):
        return rng.choice(names + [':--missing']) if names else rng.choice(['a', '*', '.b', '#c', '&', ':root'])
    if depth < 2:
        return rng.choice(WRAPPERS) + g_mixed(rng, depth + 1, names, rng.choice([1, 1, 2, 3])) + (')' if rng.random() < 0.75 else '')
    return rng.choice(['a', 'b.c', '*'])


def g_mixed(rng, depth=0, names=(), n=None):
    """A selector text assembled from valid parts and wrong parts of both kinds, in random order, over several lines."""
    names = list(names)
    n = n or rng.choice([1, 2, 2, 3, 3, 4, 5])
    out = [rng.choice(['', '', ' ', '\n', '/* c */'])]
    for k in range(n):
        if k:
            out.append(rng.choice(JOINERS))
        out.append(g_piece(rng, depth, names))
    out.append(rng.choice(['', '', '', ' ', '\n', '\r\n']))
    return ''.join(out)


def g_custom(rng):
    """A custom-selector table whose texts are valid, wrong, or refer to one another (also cyclically)."""
    names = CUSTOM_NAMES[:rng.randint(1, len(CUSTOM_NAMES))]
    custom = {}
    for nm in names:
        x = rng.random()
        if x < 0.35:
            custom[nm] = rng.choice(['p, span', 'div > p', ':is(a, b)', '.x:not(#y)', 'a[href]', 'p:nth-child(-n+2)', ':has(> p)\n, span'])
        elif x < 0.5:
            custom[nm] = rng.choice(['', ' ', ', '.join(names), 'a ' + rng.choice(names), rng.choice(names) + ':--missing'])
        else:
            custom[nm] = g_mixed(rng, 1, names, rng.choice([1, 2, 3]))
    return custom


DEBUG_DOC = ('<html><head><title>t</title></head><body><div id="d1" class="x c"><p id="p1" class="a">one</p><p id="p2" class="b" lang="de-DE">two</p>'
             '<span id="s1" title="t" x="y">s<a id="a0" href="#h">in</a></span></div><div id="d2"><a id="a1" href="http://e/">l</a>'
             '<input id="i1" type="checkbox" checked><input id="i2" type="number" min="1" max="3" value="5"><b id="b1" class="c"></b></div></body></html>')
_debug_soup = []


def debug_outcome(pattern, custom, flags):
    """Everything a caller can observe of compile(pattern, custom=…, flags=…) followed by select(): the compiled selector list and the
    elements selected, or the exception with type, message, line, column and context.  The DEBUG trace itself (stdout) is not a result."""
    if not _debug_soup:
        import bs4
        _debug_soup.append(bs4.BeautifulSoup(DEBUG_DOC, 'html.parser'))
    buf = io.StringIO()
    exc = None
    with contextlib.redirect_stdout(buf):
        try:
            c = sv.compile(pattern, custom=dict(custom) if custom is not None else None, flags=flags)
            try:
                picked = [id(x) for x in c.select(_debug_soup[0])]
            except Exception as e:
                picked = ['select raised', type(e).__name__, str(e)]
            res = ('ok', c.selectors, picked)
        except util.SelectorSyntaxError as e:
            exc = e
            res = ('err', type(e).__name__, str(e), e.line, e.col, e.context)
        except RecursionError:
            res = ('err', 'RecursionError')
        except Exception as e:
            res = ('err', type(e).__name__, str(e))
    return res, exc


def show_outcome(res):
    return ['ok', repr(res[1])[:400], len(res[2])] if res[0] == 'ok' else list(res)


def position_ok(e, texts):
    """(b) for an error raised through the public entry point: the offset named in the message, the line, the column and the context describe
    a position inside the pattern being parsed – the pattern itself or the text of the custom selector the error was raised for."""
    m = re.search(r'position (\d+)', str(e).split('\n')[0])
    if not m or e.line is None:
        return None
    off = int(m.group(1))
    for t in texts:
        pat = t.replace('\x00', '\ufffd')
        if off <= len(pat) and (e.line, e.col) == oracle(pat, off) and caret_ok(e.context, pat, off, e.line, e.col):
            return True
    return False


def later_token_error(pattern):
    """Coverage only: does tokenizing the WHOLE pattern hit an offset where no token matches?  (offset or None)"""
    try:
        for _ in cp.CSSParser(pattern).selector_iter(pattern):
            pass
    except util.SelectorSyntaxError as e:
        m = re.search(r'position (\d+)', str(e).split('\n')[0])
        return int(m.group(1)) if m else None
    return None


class Alarm(Exception):
    pass


def _alarm(*a):
    raise Alarm()


def run(chk):
    proof_ok = framework.lean_pipeline(chk, SOURCES)
    driver_ok = proof_ok or chk.build(['svdriver'])[0]
    rng = random.Random(chk.seed)
    quick = chk.tier == 'quick'
    L = 5 if quick else 7
    pats = [''.join(t) for n in range(0, L + 1) for t in itertools.product('a\n\r', repeat=n)]
    for _ in range(300 if quick else 5000):
        s = spell.render(spell.g_selector(rng), rng, 1)
        pats.append(s)
    py_bad, nontriv, ctx_lines, ctx_exp = [], 0, [], []
    for p in pats:
        for i in range(len(p) + 1):
            ctx, line, col = util.get_pattern_context(p, i)
            ol, oc = oracle(p, i)
            if ol > 1:
                nontriv += 1
            if (line, col) != (ol, oc) or not caret_ok(ctx, p, i, line, col):
                py_bad.append({'pattern': p, 'offset': i, 'py': [line, col, ctx], 'expected_line_col': [ol, oc]})
            if len(p) <= L or rng.random() < 0.1:
                ctx_lines.append(f'(11 {enc.s(p)} {i})')
                ctx_exp.append((p, i, ctx, line, col))
    # (b) raised errors
    err_total = 0
    bads = []
    # past false alarm of this oracle (a pattern line that itself looks like a caret row) and similar shapes, run first
    regress = ['/* * / */[\t\x80|a\\\\b\n^\n', 'a\n^', '^\n!', 'a\n    ^\n!', '--> a\n!', 'a,\n  ^\n^\n)', 'a\r\n^\r\n,', '\n^\n^\n(']
    for it in range((1500 if quick else 40000) + len(regress)):
        if it < len(regress):
            t = regress[it]
        else:
            s = spell.render(spell.g_selector(rng), rng, 1)
            cut = rng.randint(0, len(s))
            t = s[:cut] + rng.choice(['', '', ')', ',', '>', '(', '[', '"', ':', '!', '\n', '\r\n  ', '\n^\n', '\n  ^']) + (s[cut:] if rng.random() < 0.3 else '')
        try:
            cp.CSSParser(t).process_selectors()
        except util.SelectorSyntaxError as e:
            err_total += 1
            m = re.search(r'position (\d+)', str(e).split('\n')[0])
            pat = t.replace('\x00', '�')
            if m and e.line is not None:
                off = int(m.group(1))
                ol, oc = oracle(pat, off)
                if off > len(pat) or (e.line, e.col) != (ol, oc) or not caret_ok(e.context, pat, off, e.line, e.col):
                    bads.append({'pattern': t, 'message': str(e).split('\n')[0], 'py': [e.line, e.col, e.context],
                                 'expected_line_col': [ol, oc]})
                elif ol > 1:
                    nontriv += 1
        except NotImplementedError:
            pass
        except Exception as e:
            bads.append({'pattern': t, 'exception': repr(e)})
    # (c) pretty
    reprs = []
    sels = ['[a=b]', ':nth-child(-n+3)', 'a > b:nth-last-of-type(-2n - 1)', '[type="A b" i]', ':is(a, b):not(c)[x~="y z"]',
            'p:lang("de, x", en)', ':-soup-contains("a\'b", \'c"d\')', 'x|y[z|w$="\\"q"]:has(> a + b)', ':checked', ':dir(rtl)',
            '[a="\\a b"]', ':nth-child(2n+1 of .x, #y)']
    # values long enough for re.Pattern.__repr__ to truncate its source at 200 characters (an unterminated quote in the repr),
    # full of characters re.escape() escapes
    for _ in range(6 if quick else 60):
        long = ''.join(rng.choice(['a', 'b c', '-', '.', ' ', 'x-y.z', ';', ': ', '/', '"', "'", '\\\\']) for _ in range(rng.randint(120, 260)))
        long = long.replace('"', '\\"')
        sels.append(rng.choice(['[style="%s"]', 'a[href^="%s"]', 'p, :not([style*="%s"])', '[a~="x"][b="%s" i]', ':is([t$="%s"])']) % long)
    for _ in range(150 if quick else 4000):
        sels.append(gen.gen_list(rng, 0, {'nth': True}))
    for s in sels:
        try:
            c = cp.CSSParser(s).process_selectors()
            reprs.append(repr(c))
        except Exception:
            pass
    soup_alpha = ['a', 'b_', '(', ')', '[', ']', '{', '}', ',', ':', ' ', '\n', '=', "'", '"', '\\', '1', '-', '.', 're', 'X(', 'k=', '()']
    for _ in range(300 if quick else 20000):
        reprs.append(''.join(rng.choice(soup_alpha) for _ in range(rng.randint(0, 14))))
    pretty_bad, pretty_out = [], []
    signal.signal(signal.SIGALRM, _alarm)
    for r_ in reprs:
        signal.alarm(5)
        try:
            out = pretty(r_)
            signal.alarm(0)
            if re.sub(r'\s', '', out) != re.sub(r'\s', '', r_):
                pretty_bad.append({'input': r_, 'output': out, 'failure': 'differs beyond whitespace'})
            pretty_out.append(out)
        except Alarm:
            pretty_bad.append({'input': r_, 'failure': 'did not terminate within 5 s'})
            pretty_out.append(None)
        finally:
            signal.alarm(0)
    # (d) DEBUG changes no result: same compiled selectors and same elements selected, or the same exception (type, message, line, column,
    # context).  Inputs: the valid selectors of (c); truncated / spliced selectors as in (b); texts with several mistakes of different kinds
    # in one pattern (g_mixed), alone and together with custom-selector tables whose own texts are valid / wrong / mutually referring.
    debug_bad, debug_pos_bad = [], []
    dstat = {'inputs': 0, 'ok': 0, 'with_custom': 0, 'multi_line_error': 0, 'error_before_later_untokenizable_text': 0,
             'error_inside_custom_text': 0, 'exception_types': {}}
    dcases = [(s, None) for s in sels[:200 if quick else 3000]]
    for _ in range(300 if quick else 6000):
        s = spell.render(spell.g_selector(rng), rng, 1)
        for _k in range(rng.choice([1, 2, 2, 3])):
            cut = rng.randint(0, len(s))
            s = s[:cut] + rng.choice([')', ',', '>', '(', '[', '"', ':', '!', '$', '.', '#', '\n', '\r\n  ', '::b', ':nope', '@x ', ',,']) + s[cut:]
        dcases.append((s, None))
    for _ in range(1500 if quick else 20000):
        if rng.random() < 0.4:
            custom = g_custom(rng)
            dcases.append((g_mixed(rng, 0, list(custom) if rng.random() < 0.9 else CUSTOM_NAMES), custom))
        else:
            dcases.append((g_mixed(rng), None))
    for k, (s, custom) in enumerate(dcases):
        if k % 100 == 0:
            sv.purge()
        plain, e0 = debug_outcome(s, custom, 0)
        dbg, e1 = debug_outcome(s, custom, util.DEBUG)
        dstat['inputs'] += 1
        dstat['with_custom'] += custom is not None
        if plain[0] == 'ok':
            dstat['ok'] += 1
        else:
            dstat['exception_types'][plain[1]] = dstat['exception_types'].get(plain[1], 0) + 1
        if plain != dbg:
            debug_bad.append({'selector': s, 'custom': custom, 'flags_0': show_outcome(plain), 'flags_DEBUG': show_outcome(dbg)})
        for mode, e in (('0', e0), ('DEBUG', e1)):
            if e is None:
                continue
            texts = [s] + list((custom or {}).values())
            v = position_ok(e, texts)
            if v is False:
                debug_pos_bad.append({'pattern': s, 'custom': custom, 'flags': mode, 'message': str(e).split('\n')[0],
                                      'py': [e.line, e.col, e.context]})
            elif v and mode == '0':
                err_total += 1
                if e.line > 1:
                    dstat['multi_line_error'] += 1
                    nontriv += 1
                if position_ok(e, [s]):
                    m = re.search(r'position (\d+)', str(e).split('\n')[0])
                    lt = later_token_error(s)
                    if lt is not None and lt > int(m.group(1)):
                        dstat['error_before_later_untokenizable_text'] += 1
                else:
                    dstat['error_inside_custom_text'] += 1
        if plain[0] == 'err' and plain[1] != 'SelectorSyntaxError' and custom is None:
            lt = later_token_error(s)
            m = re.search(r'position (\d+)', plain[2]) if len(plain) > 2 else None
            if lt is not None and m and lt > int(m.group(1)):
                dstat['error_before_later_untokenizable_text'] += 1
    sv.purge()
    # report the shortest failing inputs
    debug_bad.sort(key=lambda b: len(b['selector']) + sum(len(v) for v in (b['custom'] or {}).values()))
    debug_pos_bad.sort(key=lambda b: len(b['pattern']) + sum(len(v) for v in (b['custom'] or {}).values()))
    corr_bad = []
    if driver_ok:
        for (p, i, ctx, line, col), r_ in zip(ctx_exp, driver.run(ctx_lines)):
            lr = enc.parse_sx(r_)
            if (''.join(map(chr, lr[0])), lr[1], lr[2]) != (ctx, line, col):
                corr_bad.append({'what': 'get_pattern_context', 'pattern': p, 'offset': i, 'py': [ctx, line, col],
                                 'model': [''.join(map(chr, lr[0])), lr[1], lr[2]]})
        for r_, out, resp in zip(reprs, pretty_out, driver.run([f'(12 {enc.s(x)})' for x in reprs])):
            m = ''.join(map(chr, enc.parse_sx(resp)))
            if out is not None and m != out:
                corr_bad.append({'what': 'pretty', 'input': r_, 'py': out, 'model': m})
    chk.samples = [{'pattern': 'ab\ncd', 'offset': 5, 'py': list(util.get_pattern_context('ab\ncd', 5))},
                   {'pretty_input': reprs[1][:80]}]
    chk.coverage.update({'context_patterns': len(pats), 'context_queries_model': len(ctx_lines), 'errors_raised': err_total,
                         'pretty_inputs': len(reprs), 'context_failures': len(py_bad), 'error_position_failures': len(bads),
                         'pretty_failures': len(pretty_bad), 'debug_failures': len(debug_bad), 'debug_error_position_failures': len(debug_pos_bad),
                         'debug_inputs': dstat, 'py_vs_model_mismatches': len(corr_bad),
                         'exhaustive': True, 'exhaustive_scope': f'all strings over {{a, LF, CR}} up to length {L}, every offset'})
    for i, b in enumerate(py_bad[:3]):
        chk.violation(f'ctx{i}', {'what': 'get_pattern_context: wrong line / column / caret', **b}, concrete=True)
    for i, b in enumerate(bads[:3]):
        chk.violation(f'err{i}', {'what': 'SelectorSyntaxError position does not identify the offset', **b}, concrete=True)
    for i, b in enumerate(pretty_bad[:3]):
        chk.violation(f'pretty{i}', {'what': 'pretty printer', **b}, concrete=True)
    for i, b in enumerate(debug_bad[:2]):
        chk.violation(f'debug{i}', {'what': 'DEBUG flag changes the result (compiled selectors / selected elements / exception raised)', **b}, concrete=True)
    for i, b in enumerate(debug_pos_bad[:2]):
        chk.violation(f'dpos{i}', {'what': 'SelectorSyntaxError position does not identify the offset (pattern or custom selector text)', **b}, concrete=True)
    if not (py_bad or bads or pretty_bad):
        for i, b in enumerate(corr_bad[:3]):
            chk.violation(f'corr{i}', {'correspondence': 'util.get_pattern_context / pretty ≡ Lean model', **b}, concrete=False)
    if not proof_ok and not (py_bad or bads or pretty_bad or debug_bad or debug_pos_bad or corr_bad):
        chk.violation('proof', {'what': 'proof obligation no longer checks; no failing input found',
                                'theorem_or_correspondence': 'SoupVerif.Properties.C20', 'detail': chk.notes.get('proof_broken')}, concrete=False)
    n = sum(len(p) + 1 for p in pats)
    return chk.finish(rule=RULE, evaluations=n + err_total + len(reprs) + 2 * dstat['inputs'], distinct=nontriv)


def replay(chk, path):
    data = json.load(open(path))
    if 'offset' in data:
        ctx, line, col = util.get_pattern_context(data['pattern'], data['offset'])
        ok = (line, col) == oracle(data['pattern'], data['offset']) and caret_ok(ctx, data['pattern'], data['offset'], line, col)
        print(json.dumps({'py': [line, col, ctx], 'ok': ok}))
        if not ok:
            print(f'VIOLATION property={PID} replay={path}')
            return 1
    elif 'flags_0' in data or 'flags' in data:
        t = data.get('selector', data.get('pattern'))
        custom = data.get('custom')
        plain, e0 = debug_outcome(t, custom, 0)
        dbg, e1 = debug_outcome(t, custom, util.DEBUG)
        texts = [t] + list((custom or {}).values())
        ok = plain == dbg and all(e is None or position_ok(e, texts) is not False for e in (e0, e1))
        print(json.dumps({'flags_0': show_outcome(plain), 'flags_DEBUG': show_outcome(dbg), 'ok': ok}, default=repr))
        if not ok:
            print(f'VIOLATION property={PID} replay={path}')
            return 1
    elif 'message' in data:
        t = data['pattern']
        try:
            cp.CSSParser(t).process_selectors()
            print(json.dumps({'py': 'compiled'}))
        except util.SelectorSyntaxError as e:
            m = re.search(r'position (\d+)', str(e).split('\n')[0])
            pat = t.replace('\x00', '\ufffd')
            off = int(m.group(1))
            ok = (e.line, e.col) == oracle(pat, off) and caret_ok(e.context, pat, off, e.line, e.col)
            print(json.dumps({'py': [e.line, e.col, e.context], 'ok': ok}))
            if not ok:
                print(f'VIOLATION property={PID} replay={path}')
                return 1
    return 0
