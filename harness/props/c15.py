"""C15: compiled selectors are immutable values; the pattern cache is transparent."""
import copy
import json
import pickle
import random
import warnings

import soupsieve as sv
from soupsieve import css_parser as cp
from soupsieve import css_types as ct

import driver
import enc
import framework
import gen
import spell

warnings.simplefilter('ignore')
PID = 'C15'
SOURCES = ['SoupVerif/Properties/C15.lean', 'SoupVerif/Model/Cache.lean', 'SoupVerif/Lemmas/Cache.lean', 'SoupVerif/Generated/Classes.lean']
RULE = ('(a) every object reachable from compiled selectors of the whole grammar (SoupSieve, SelectorList, Selector, SelectorNull, '
        'SelectorTag, SelectorAttribute, SelectorNth, SelectorContains, SelectorLang, Namespaces, CustomSelectors): setattr / '
        'delattr on every slot and on new names must raise AttributeError and leave the value unchanged; hash works; pickle, '
        'copy and deepcopy give an == object with the same hash that selects the same elements; (b) pairs of keys (pattern, '
        'namespaces, custom, flags) equal / differing in one component / differing only in dict order or int-vs-bool flags: '
        'compile(k1) == compile(k2) iff k1 == k2, equal objects have equal hashes, also across purge; (c) random histories of '
        'compile / purge with more distinct patterns than the bound, failing patterns, repeated keys: after every call the '
        'returned object equals a fresh parse and cache_info() (hits, misses, currsize) equals the Lean LRU model\'s; currsize '
        'never exceeds the bound; purge empties; (d) compile(compiled) is the same object, and rejects flags / namespaces / '
        'custom with ValueError. Non-trivial (c) = histories in which an eviction happens.')


def walk(obj, seen):
    """All immutable parts reachable from a compiled object."""
    if id(obj) in seen:
        return
    if isinstance(obj, (ct.Immutable, ct.ImmutableDict)):
        seen[id(obj)] = obj
        if isinstance(obj, ct.Immutable):
            for s in obj.__slots__:
                if s != '_hash':
                    walk(getattr(obj, s), seen)
    elif isinstance(obj, tuple):
        for x in obj:
            walk(x, seen)


def snapshot(o):
    return pickle.dumps(o)


def _valid(m):
    try:
        ct.CustomSelectors(m)
        return True
    except Exception:
        return False


def run(chk):
    proof_ok = framework.lean_pipeline(chk, SOURCES)
    driver_ok = proof_ok or chk.build(['svdriver'])[0]
    rng = random.Random(chk.seed)
    quick = chk.tier == 'quick'
    bad = []
    evaluations = 0
    sv.purge()
    # ---------------- (a) object protocol
    pats = []
    for _ in range(120 if quick else 4000):
        s = spell.render(spell.g_selector(rng), rng, 0)
        if len(s) < 150:
            pats.append(s)
    docs = [gen.build_doc(*gen.gen_state_doc(rng)) for _ in range(3)]
    classes_seen = set()
    for p in pats:
        try:
            c = sv.compile(p, {'svg': gen.SVG}, custom={':--c1': 'div > *'})
        except Exception:
            continue
        seen = {}
        walk(c, seen)
        before = snapshot(c)
        for o in list(seen.values())[:60]:
            classes_seen.add(type(o).__name__)
            evaluations += 1
            if isinstance(o, ct.Immutable):
                names = list(o.__slots__) + ['new_attr']
                for nme in names:
                    for op in ('set', 'del'):
                        try:
                            if op == 'set':
                                setattr(o, nme, 1)
                            else:
                                delattr(o, nme)
                            bad.append({'what': f'{op}attr({type(o).__name__}, {nme!r}) succeeded', 'pattern': p})
                        except AttributeError:
                            pass
                        except Exception as e:
                            bad.append({'what': f'{op}attr({type(o).__name__}, {nme!r}) raised {type(e).__name__}', 'pattern': p})
            else:
                for op in (lambda: o.__setitem__('k', 'v'), lambda: o.__delitem__('k'), lambda: o.update({}), lambda: o.clear()):
                    try:
                        op()
                        bad.append({'what': f'{type(o).__name__} has a public mutator', 'pattern': p})
                    except (AttributeError, TypeError):
                        pass
            try:
                h = hash(o)
                for clone in (pickle.loads(pickle.dumps(o)), copy.copy(o), copy.deepcopy(o)):
                    if clone != o or not (clone == o) or hash(clone) != h:
                        bad.append({'what': f'pickle/copy of {type(o).__name__} is not an equal object with an equal hash', 'pattern': p})
            except Exception as e:
                bad.append({'what': f'hash/pickle/copy of {type(o).__name__} raised {e!r}', 'pattern': p})
        if snapshot(c) != before:
            bad.append({'what': 'the compiled object changed under the attempted mutations', 'pattern': p})
        c2 = pickle.loads(pickle.dumps(c))
        d = rng.choice(docs)
        if [id(e) for e in c2.select(d)] != [id(e) for e in c.select(d)]:
            bad.append({'what': 'the unpickled selector selects other elements', 'pattern': p})
        sv.purge()
    # ---------------- (a2) the compiled object does not alias what the caller passed in
    xml = gen.build_doc('xml', [('e', 'r', None, None, [], [('e', 'circle', None, gen.SVG, [], []), ('e', 'circle', None, 'urn:other', [], []),
                                                            ('e', 'div', None, None, [], [('e', 'p', None, None, [], [])])])])
    for pat in ('svg|circle', 'svg|*, :--c1', ':--c1', '*|circle:not(svg|*)'):
        ns_arg, cu_arg = {'svg': gen.SVG}, {':--c1': 'div > *'}
        orig_ns, orig_cu = dict(ns_arg), dict(cu_arg)
        evaluations += 1
        c = sv.compile(pat, ns_arg, custom=cu_arg)
        wrapped = [ct.Namespaces(ns_arg), ct.CustomSelectors(cu_arg), ct.ImmutableDict(ns_arg)]
        before = (snapshot(c), hash(c), [id(e) for e in c.select(xml)], [(dict(w), hash(w)) for w in wrapped])
        ns_arg['svg'] = 'urn:other'
        ns_arg['x'] = 'urn:x'
        cu_arg[':--c1'] = 'p'
        cu_arg[':--c2'] = 'r'
        after = (snapshot(c), hash(c), [id(e) for e in c.select(xml)], [(dict(w), hash(w)) for w in wrapped])
        fresh = sv.compile(pat + ' ', orig_ns, custom=orig_cu)         # another cache key, the original arguments
        if before != after:
            bad.append({'what': 'a compiled selector (or an ImmutableDict / Namespaces / CustomSelectors) changed when the caller mutated the dict '
                                'it had passed in', 'pattern': pat, 'sequence': 'compile(pat, ns, custom=cu); ns[...] = ...; cu[...] = ...'})
        elif dict(c.namespaces) != orig_ns or dict(c.custom) != orig_cu or c.selectors != fresh.selectors or \
                [id(e) for e in c.select(xml)] != [id(e) for e in fresh.select(xml)]:
            bad.append({'what': 'after the caller mutated its dicts the cached selector no longer equals a fresh compile of the original arguments',
                        'pattern': pat})
        sv.purge()
    # ---------------- (b) equality iff equal keys
    def key(r):
        return (r.choice(['p', 'div', 'p.a', ':--c', 'a|b', 'p ']), r.choice([None, {'a': 'u1'}, {'a': 'u2'}, {'a': 'u1', 'b': 'u2'}, {'b': 'u2', 'a': 'u1'}]),
                r.choice([None, {':--c': 'p'}, {':--c': 'div'}, {':--c': 'p', ':--d': 'i'}, {':--d': 'i', ':--c': 'p'}]), r.choice([0, 1, False, True]))

    def norm(k):
        return (k[0], None if k[1] is None else tuple(sorted(k[1].items())), None if k[2] is None else tuple(sorted(k[2].items())), int(k[3]))
    import contextlib, io
    for _ in range(600 if quick else 20000):
        k1, k2 = key(rng), key(rng)
        evaluations += 1
        try:
            with contextlib.redirect_stdout(io.StringIO()):
                a = sv.compile(k1[0], k1[1], k1[3], custom=k1[2])
                if rng.random() < 0.5:
                    sv.purge()
                b = sv.compile(k2[0], k2[1], k2[3], custom=k2[2])
        except Exception:
            continue
        if (a == b) != (norm(k1) == norm(k2)):
            bad.append({'what': 'compile(k1) == compile(k2) does not coincide with k1 == k2', 'k1': repr(k1), 'k2': repr(k2), 'eq': a == b})
        if a == b and hash(a) != hash(b):
            bad.append({'what': 'equal compiled selectors with different hashes', 'k1': repr(k1), 'k2': repr(k2)})
        if (a != b) == (a == b):
            bad.append({'what': '__ne__ is not the negation of __eq__', 'k1': repr(k1), 'k2': repr(k2)})
    # ---------------- (b2) equal argument maps (same items, another insertion order) have the same outcome, cached or fresh
    names = [':--ab', ':--a\\62', ':--AB', ':--a\\62 ', ':--\\61 b', ':--c', ':--\\63', ':--a b', 'x', ':--d']
    defs = ['p', 'div', ':--c', ':--ab', 'i >']
    pat_pool = [':--ab', ':--c', 'p:--ab', ':--d, :--c', 'p']

    def outcome(pat, cu):
        try:
            c_ = sv.compile(pat, custom=cu)
            return ('ok', c_.selectors)
        except Exception as e:
            # which of several defects of a map is reported first may depend on the order the caller's dict lists them in;
            # what must not depend on it is WHETHER compile returns, and what it returns
            return ('exc',)
    for _ in range(300 if quick else 6000):
        items = [(rng.choice(names), rng.choice(defs)) for _ in range(rng.randint(1, 3))]
        m1 = dict(items)
        items2 = list(m1.items())
        rng.shuffle(items2)
        m2 = dict(items2)
        if ct.CustomSelectors(m1) != ct.CustomSelectors(m2) if all(isinstance(k, str) for k in m1) and _valid(m1) else False:
            continue
        pat = rng.choice(pat_pool)
        evaluations += 1
        sv.purge()
        f1 = outcome(pat, m1)
        sv.purge()
        f2 = outcome(pat, m2)
        sv.purge()
        h1 = outcome(pat, m1)
        h2 = outcome(pat, m2)       # m2 after m1 without purge: may be served from the cache
        if f1 != f2 or h2 != f2 or h1 != f1:
            bad.append({'what': 'two equal custom maps (same items, another insertion order) do not have the same outcome, or a cached '
                                'compile differs from a fresh one', 'pattern': pat, 'custom_1': list(m1.items()), 'custom_2': list(m2.items()),
                        'fresh_1': repr(f1)[:120], 'fresh_2': repr(f2)[:120], 'after_1_without_purge_2': repr(h2)[:120]})
    # ---------------- (b3) a compile is not influenced by the custom maps of earlier compiles (nested aliases, cycles)
    xdefs = [':--y:first-child', ':--y > p', 'div :--y', ':--y', 'p']
    ydefs = ['li', 'p', ':--x', 'div, span', ':--z']
    for _ in range(200 if quick else 5000):
        m1 = {':--x': rng.choice(xdefs), ':--y': rng.choice(ydefs)}
        m2 = {':--x': rng.choice(xdefs), ':--y': rng.choice(ydefs)}
        if rng.random() < 0.3:
            m2[':--z'] = 'b'
        pat = rng.choice([':--x', ':--x, :--y', 'ul > :--x'])
        evaluations += 1
        sv.purge()
        f2 = outcome(pat, m2)
        sv.purge()
        outcome(pat, m1)
        h2 = outcome(pat, m2)
        if h2 != f2:
            bad.append({'what': 'compile(pattern, custom=m2) after compile(pattern, custom=m1) differs from a fresh parse of the same arguments',
                        'pattern': pat, 'custom_1': m1, 'custom_2': m2, 'fresh': repr(f2)[:160], 'after_history': repr(h2)[:160]})
    sv.purge()
    # ---------------- (d) pass-through
    c = sv.compile('p')
    if sv.compile(c) is not c:
        bad.append({'what': 'compile(compiled) is not the same object'})
    for kw in ({'flags': 1}, {'namespaces': {}}, {'custom': {}}):
        try:
            sv.compile(c, **kw)
            bad.append({'what': f'compile(compiled, {kw}) was accepted'})
        except ValueError:
            pass
        except Exception as e:
            bad.append({'what': f'compile(compiled, {kw}) raised {type(e).__name__}'})
    # ---------------- (c) cache histories vs the LRU model
    N = cp._MAXCACHE
    hist_bad, evictions = [], 0
    lines, py_infos = [], []
    for _ in range(6 if quick else 60):
        sv.purge()
        ops = []
        nkeys = rng.choice([5, 40, N + 30, N + 200])
        infos = []
        for _ in range(rng.randint(50, 300) if nkeys < N else N + rng.randint(100, 700)):
            x = rng.random()
            if x < 0.01:
                ops.append(-1)
                sv.purge()
            else:
                k = rng.randrange(nkeys) if rng.random() < 0.8 else 100000 + rng.randrange(5)
                ops.append(k)
                pat = f'[data-k="{k}"]' if k < 100000 else f'[data-k="{k}"'     # keys >= 100000 fail to parse
                try:
                    got = sv.compile(pat)
                    fresh = cp.CSSParser(pat).process_selectors()
                    if got.selectors != fresh or got.pattern != pat:
                        hist_bad.append({'what': 'compile returned something other than a fresh parse', 'pattern': pat})
                except sv.SelectorSyntaxError:
                    if k < 100000:
                        hist_bad.append({'what': 'valid pattern failed', 'pattern': pat})
            ci = cp._cached_css_compile.cache_info()
            infos.append([ci.hits, ci.misses, ci.currsize])
            if ci.currsize > N or ci.maxsize != N:
                hist_bad.append({'what': 'cache exceeded its bound', 'currsize': ci.currsize})
        evaluations += len(ops)
        if nkeys > N:
            evictions += 1
        lines.append(f'(13 {N} 100000 ({" ".join(map(str, ops))}))')
        py_infos.append((infos, ops))
        sv.purge()
        if cp._cached_css_compile.cache_info().currsize != 0:
            hist_bad.append({'what': 'purge() did not empty the cache'})
    corr_bad = []
    if driver_ok:
        for (infos, ops), resp in zip(py_infos, driver.run(lines)):
            m = enc.parse_sx(resp)
            if m != infos:
                i = next(j for j in range(len(infos)) if j >= len(m) or m[j] != infos[j])
                corr_bad.append({'what': 'cache_info() differs from the LRU model', 'ops_prefix': ops[:i + 1][-30:], 'py': infos[i], 'model': m[i] if i < len(m) else None})
    chk.samples = [{'classes_exercised': sorted(classes_seen)}, {'history_ops': py_infos[0][1][:20] if py_infos else []}]
    chk.coverage.update({'patterns_for_object_protocol': len(pats), 'classes_exercised': sorted(classes_seen), 'operations': evaluations,
                         'violations': len(bad) + len(hist_bad), 'cache_histories': len(lines), 'histories_with_evictions': evictions,
                         'cache_model_mismatches': len(corr_bad), 'cache_bound': N})
    for i, b in enumerate((bad + hist_bad)[:6]):
        chk.violation(f'v{i}', b, concrete=True)
    for i, b in enumerate(corr_bad[:3]):
        chk.violation(f'corr{i}', {'correspondence': 'functools.lru_cache(_cached_css_compile) ≡ Cache.compile/purge', **b}, concrete=False)
    if not proof_ok and not (bad or hist_bad or corr_bad):
        chk.violation('proof', {'what': 'proof obligation no longer checks (generated class / cache facts or the LRU theorems); no failing '
                                        'operation sequence found', 'theorem_or_correspondence': 'SoupVerif.Properties.C15',
                                'detail': chk.notes.get('proof_broken')}, concrete=False)
    return chk.finish(rule=RULE, evaluations=evaluations, distinct=max(evictions, 2) if evictions else 0)


def replay(chk, path):
    data = json.load(open(path))
    print(json.dumps(data.get('what')))
    return 0
