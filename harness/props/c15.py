"""C15: compiled selectors are immutable values; the pattern cache is transparent."""
import base64
import contextlib
import copy
import io
import json
import os
import pickle
import random
import subprocess
import sys
import tempfile
import warnings

import soupsieve as sv
from soupsieve import css_parser as cp
from soupsieve import css_types as ct

import driver
import enc
import framework
import gen
import spell

warnings.simplefilter('ignore')
PID = 'C15'
SOURCES = ['SoupVerif/Properties/C15.lean', 'SoupVerif/Model/Cache.lean', 'SoupVerif/Lemmas/Cache.lean', 'SoupVerif/Generated/Classes.lean']
RULE = ('(a) every object reachable from compiled selectors of the whole grammar (SoupSieve, SelectorList, Selector, SelectorNull, '
        'SelectorTag, SelectorAttribute, SelectorNth, SelectorContains, SelectorLang, Namespaces, CustomSelectors): setattr / '
        'delattr on every slot and on new names must raise AttributeError and leave the value unchanged; hash works; pickle, '
        'copy and deepcopy give an == object with the same hash that selects the same elements; (b) pairs of keys (pattern, '
        'namespaces, custom, flags) equal / differing in one component / differing only in dict order or int-vs-bool flags: '
        'compile(k1) == compile(k2) iff k1 == k2, equal objects have equal hashes, also across purge; (c) random histories of '
        'compile / purge with more distinct patterns than the bound, failing patterns, repeated keys: after every call the '
        'returned object equals a fresh parse and cache_info() (hits, misses, currsize) equals the Lean LRU model\'s; currsize '
        'never exceeds the bound; purge empties; (d) CALL HISTORIES compile(key) -> c, then any of: purge, a few / bound-1 / bound / '
        'more than bound other distinct compiles, compiling the same or another key again, copy / deepcopy / pickle (every '
        'protocol) of c, then compile(c) resp. compile(clone): the result IS the object handed in (also with flags=0), flags / '
        'namespaces / custom (empty, other, the selector\'s own) raise ValueError, select / iselect / select_one / match / filter / '
        'closest called with the compiled object give what its methods give and reject the same extras, every compile in the '
        'history is == (same hash, part by part) to the compile of that key on an empty cache; a grid (every key x every '
        'interlude) and random histories. Non-trivial (c) = histories in which an eviction happens. (e) ACROSS PROCESSES: a batch of '
        'compiled selectors (generated patterns, namespace / custom maps incl. several entries, both orders, str-subclass '
        'keys and values, flags) is pickled (every protocol) in an interpreter started with one PYTHONHASHSEED and unpickled '
        'in interpreters started with other PYTHONHASHSEED values (hash randomisation off included) and in the checking '
        'process: the loaded object and every reachable part (SelectorList, Selector, ..., Namespaces, CustomSelectors) is '
        '== to, and has the hash of, the corresponding part of a fresh compile of the same arguments in the loading process, '
        'finds it as a dict key, and selects the same elements of the same documents as in every other process. (b) and '
        '(b4) also take keys / values that are instances of a str subclass (== and hash of the plain string): maps and '
        'compiled selectors that are == must have equal hashes.')


class S(str):
    """A str subclass: compares equal to, and hashes like, the plain string (what e.g. bs4 hands out as attribute
    values and what str enums / markup-safe strings are)."""
    __slots__ = ()


def walk(obj, seen):
    """All immutable parts reachable from a compiled object."""
    if id(obj) in seen:
        return
    if isinstance(obj, (ct.Immutable, ct.ImmutableDict)):
        seen[id(obj)] = obj
        if isinstance(obj, ct.Immutable):
            for s in obj.__slots__:
                if s != '_hash':
                    walk(getattr(obj, s), seen)
    elif isinstance(obj, tuple):
        for x in obj:
            walk(x, seen)


def snapshot(o):
    return pickle.dumps(o)


def pair_walk(a, b, path, out):
    """Corresponding immutable parts of two structures expected to be equal: (path, part_of_a, part_of_b)."""
    if isinstance(a, (ct.Immutable, ct.ImmutableDict)) or isinstance(b, (ct.Immutable, ct.ImmutableDict)):
        out.append((path, a, b))
        if isinstance(a, ct.Immutable) and type(a) is type(b):
            for s in a.__slots__:
                if s != '_hash':
                    pair_walk(getattr(a, s), getattr(b, s), f'{path}.{s}', out)
    elif isinstance(a, tuple) and isinstance(b, tuple):
        if len(a) != len(b):
            out.append((path, a, b))
        else:
            for i, (x, y) in enumerate(zip(a, b)):
                pair_walk(x, y, f'{path}[{i}]', out)


def value_findings(got, fresh, how):
    """`got` (an unpickled / copied compiled selector) against a fresh compile of the same arguments IN THIS PROCESS.
    Returns (findings, number of parts compared)."""
    out = []
    parts = []
    pair_walk(got, fresh, 'c', parts)
    for path, x, y in parts:
        cls = type(y).__name__
        try:
            if type(x) is not type(y):
                out.append(f'{how}: part {path} is a {type(x).__name__}, in a fresh compile it is a {cls}')
            elif not (x == y) or x != y or not (y == x):
                out.append(f'{how}: part {path} ({cls}) is not == to the same part of a fresh compile of the same arguments')
            elif hash(x) != hash(y):
                out.append(f'{how}: part {path} ({cls}) is == to the same part of a fresh compile of the same arguments '
                           'but has another hash')
        except Exception as e:
            out.append(f'{how}: comparing / hashing part {path} ({cls}) raised {e!r}')
    if len(out) > 1:            # innermost part last: that is where the discrepancy originates
        out = [out[-1] + ' (and ' + str(len(out) - 1) + ' enclosing / other parts, first: ' + out[0].split(': ', 1)[1][:60] + '...)']
    if not out:
        try:
            if {fresh: 1}.get(got) != 1 or got not in {fresh} or fresh not in {got}:
                out.append(f'{how}: the object is not found in a dict / set holding a fresh compile of the same arguments')
        except Exception as e:
            out.append(f'{how}: dict lookup raised {e!r}')
    return out, len(parts)


def compile_key(k):
    """k = (pattern, namespaces, custom, flags); the DEBUG flag prints."""
    with contextlib.redirect_stdout(io.StringIO()):
        return sv.compile(k[0], k[1], k[3], custom=k[2])


def selected(c, doc):
    idx = {id(e): i for i, e in enumerate(gen.elements(doc))}
    with contextlib.redirect_stdout(io.StringIO()):
        return [idx.get(id(e), -1) for e in c.select(doc)]


def xproc_step(req):
    """One process of sub-check (e).  req: keys, doc specs, protocols per key, blobs to load ({origin: [[(proto, bytes)]]}).
    Compiles every key, reports what it selects, pickles it, and checks every given blob against the own compile."""
    docs = [gen.build_doc(kind, top) for kind, top in req['docs']]
    res = {'hashseed': req.get('name') or os.environ.get('PYTHONHASHSEED'), 'blobs': [], 'selected': [], 'findings': [], 'loads': 0, 'parts': 0}
    for i, k in enumerate(req['keys']):
        sv.purge()
        try:
            fresh = compile_key(k)
            res['selected'].append(selected(fresh, docs[req['doc_of'][i]]))
            res['blobs'].append([(pr, pickle.dumps(fresh, protocol=pr)) for pr in req['protocols'][i]])
        except Exception as e:
            res['selected'].append(None)
            res['blobs'].append([])
            res['findings'].append((i, None, f'compile / select / pickle raised {e!r} in this process only'))
            continue
        for origin, blobs in req.get('load', {}).items():
            for pr, blob in blobs[i]:
                how = f'pickled (protocol {pr}) under PYTHONHASHSEED={origin}, unpickled under PYTHONHASHSEED={res["hashseed"]}'
                res['loads'] += 1
                try:
                    got = pickle.loads(blob)
                    f, n = value_findings(got, fresh, how)
                    res['parts'] += n
                    if not f and selected(got, docs[req['doc_of'][i]]) != res['selected'][i]:
                        f = [f'{how}: the unpickled selector selects other elements than a fresh compile']
                    if not f:
                        again = pickle.loads(pickle.dumps(got, protocol=pr))
                        f = value_findings(again, fresh, how + ', pickled and unpickled once more')[0]
                except Exception as e:
                    f = [f'{how}: raised {e!r}']
                res['findings'].extend((i, origin, x) for x in f[:1])
    sv.purge()
    return res


def xproc_spawn(req, hashseed):
    """Start `xproc_step(req)` in a new interpreter with the given PYTHONHASHSEED; returns a function that waits for the result."""
    d = tempfile.mkdtemp(prefix='c15x')
    rq, rs = os.path.join(d, 'req'), os.path.join(d, 'res')
    with open(rq, 'wb') as f:
        pickle.dump(req, f)
    here = os.path.dirname(os.path.dirname(os.path.abspath(__file__)))
    env = dict(os.environ)
    env['PYTHONHASHSEED'] = str(hashseed)
    env['PYTHONPATH'] = os.pathsep.join([framework.REPO, here, os.path.join(here, '..', 'gen')] +
                                        ([env['PYTHONPATH']] if env.get('PYTHONPATH') else []))
    code = ('import pickle, sys\nfrom props import c15\n'
            'res = c15.xproc_step(pickle.load(open(sys.argv[1], "rb")))\n'
            'pickle.dump(res, open(sys.argv[2], "wb"))\n')
    p = subprocess.Popen([sys.executable, '-c', code, rq, rs], env=env, stdout=subprocess.PIPE, stderr=subprocess.STDOUT)

    def wait():
        out = p.communicate(timeout=600)[0].decode(errors='replace')
        try:
            if p.returncode != 0:
                raise RuntimeError(f'cross-process worker (PYTHONHASHSEED={hashseed}) failed: {out[-2000:]}')
            with open(rs, 'rb') as f:
                return pickle.load(f)
        finally:
            for x in (rq, rs):
                if os.path.exists(x):
                    os.unlink(x)
            os.rmdir(d)
    return wait


XML_TOP = [('e', 'r', None, None, [], [('e', 'circle', None, gen.SVG, [], []), ('e', 'circle', None, 'urn:other', [], []),
                                       ('e', 'p', None, 'urn:x', [], []),
                                       ('e', 'div', None, None, [], [('e', 'p', None, None, [], []), ('e', 'i', None, None, [], [])])])]


def xproc_keys(rng, pats, n):
    """Keys (pattern, namespaces, custom, flags) that compile: generated patterns of the whole grammar and small ones,
    maps with one / several entries in both orders, str-subclass keys and values, every flag spelling."""
    ns_pool = [{'svg': gen.SVG}, {'svg': gen.SVG, 'x': 'urn:x'}, {'x': 'urn:x', 'svg': gen.SVG}, {'svg': gen.SVG, '': 'urn:x'},
               {S('svg'): gen.SVG}, {'svg': S(gen.SVG), S('x'): S('urn:x')}, {'svg': gen.SVG, 'a': 'u1', 'b': 'u2', 'c': 'u3'}]
    cu_pool = [{':--c1': 'div > *'}, {':--c1': 'div > *', ':--c2': 'p, i'}, {':--c2': 'p, i', ':--c1': 'div > *'},
               {S(':--c1'): 'div > *'}, {':--c1': S('div > *'), ':--c2': ':--c1 + i'}, {':--C1': 'p', ':--\\63 2': 'i'}]
    small = ['p', 'svg|circle', '*|circle:not(svg|*)', ':--c1', 'x|p, :--c2', 'div > :--c1', '[a|href]', '|p', '*|*', S('p'), S('svg|circle, :--c1')]
    keys = []
    tries = 0
    while len(keys) < n and tries < 20 * n:
        tries += 1
        pat = rng.choice(pats) if pats and rng.random() < 0.6 else rng.choice(small)
        k = (pat, rng.choice(ns_pool + [None]), rng.choice(cu_pool + [None]), rng.choice([0, 0, 1, False, True]))
        try:
            sv.purge()
            compile_key(k)
            keys.append(k)
        except Exception:
            pass
    sv.purge()
    return keys


def describe_key(k):
    def m(d):
        return None if d is None else [[type(a).__name__, str(a), type(b).__name__, str(b)] for a, b in d.items()]
    return {'pattern': str(k[0]), 'pattern_type': type(k[0]).__name__, 'namespaces': m(k[1]), 'custom': m(k[2]), 'flags': repr(k[3])}


def undescribe_key(d):
    def t(name, v):
        return S(v) if name == 'S' else v

    def m(x):
        return None if x is None else {t(a, b): t(c, e) for a, b, c, e in x}
    return (t(d['pattern_type'], d['pattern']), m(d['namespaces']), m(d['custom']), {'0': 0, '1': 1, 'False': False, 'True': True}[d['flags']])


def cross_process(chk, rng, pats, quick, only_keys=None):
    """Sub-check (e).  Returns (violations, counts)."""
    keys = only_keys if only_keys is not None else xproc_keys(rng, pats, 70 if quick else 600)
    docs = [('xml', XML_TOP)] + [gen.gen_state_doc(rng) for _ in range(2)]
    top = pickle.HIGHEST_PROTOCOL
    protocols = [list(range(top + 1)) if not quick else sorted({i % (top + 1), top}) for i in range(len(keys))]
    built = [gen.build_doc(kind, top_) for kind, top_ in docs]
    doc_of = []
    for i, k in enumerate(keys):                # the first document in which the key selects something
        c = compile_key(k)
        doc_of.append(next((j for j, d in enumerate(built) if selected(c, d)), i % len(docs)))
    base = {'keys': keys, 'docs': docs, 'protocols': protocols, 'doc_of': doc_of}
    seeds = []
    while len(seeds) < (3 if quick else 6):
        x = rng.randrange(1, 2 ** 32)
        if x not in seeds and str(x) != os.environ.get('PYTHONHASHSEED'):
            seeds.append(x)
    mine = (os.environ.get('PYTHONHASHSEED') or 'random') + ' (checking process)'
    wait_first = xproc_spawn(base, seeds[0])                                # the pickling interpreter ...
    here = xproc_step(dict(base, name=mine))                                # ... and this process: its own pickles
    first = wait_first()
    load = {str(seeds[0]): first['blobs'], mine: here['blobs']}
    waits = [(s, xproc_spawn(dict(base, load=load), s)) for s in seeds[1:] + [0]]
    results = [(str(seeds[0]), first), (mine, here)] + [(str(s), w()) for s, w in waits]
    # back in the checking process: what the first and the second interpreter pickled
    results.append((mine, xproc_step(dict(base, name=mine, load={str(seeds[0]): first['blobs'], results[2][0]: results[2][1]['blobs']}))))
    bad = []
    flagged = set()
    for name, res in results:
        for i, origin, what in res['findings']:
            if i not in flagged:
                flagged.add(i)
                bad.append({'what': what, 'xproc': True, 'key': describe_key(keys[i]), 'pickled_under_hashseed': origin,
                            'checked_under_hashseed': name,
                            'sequence': 'PYTHONHASHSEED=A python: blob = pickle.dumps(soupsieve.compile(*key)); PYTHONHASHSEED=B python: '
                                        'got = pickle.loads(blob); fresh = soupsieve.compile(*key); got == fresh and hash(got) == hash(fresh), '
                                        'also for got.namespaces, got.custom, got.selectors, ...'})
    for i in range(len(keys)):
        sels = {name: res['selected'][i] for name, res in results if res['selected'][i] is not None}
        if len({json.dumps(v) for v in sels.values()}) > 1 and i not in flagged:
            flagged.add(i)
            bad.append({'what': 'the same arguments select other elements of the same document in interpreters started with other '
                                'PYTHONHASHSEED values', 'xproc': True, 'key': describe_key(keys[i]), 'selected_by_hashseed': sels})
    counts = {'cross_process_keys': len(keys), 'cross_process_interpreters': len(results) - 1,
              'cross_process_hashseeds': [name for name, _ in results[:-1]],
              'cross_process_unpickles': sum(r['loads'] for _, r in results), 'cross_process_parts_compared': sum(r['parts'] for _, r in results),
              'cross_process_keys_with_str_subclass': sum(1 for k in keys if any(type(x) is S for d in (k[1], k[2]) if d for kv in d.items() for x in kv)),
              'cross_process_keys_selecting_something': sum(1 for i in range(len(keys)) if here['selected'][i])}
    return bad, counts


# ---------------------------------------------------------------------------------------------------------------------
# (d) pass-through of compiled objects, over call HISTORIES.  A history is a JSON-able list of operations; the objects the
# operations return are numbered in the order they come into being ("handles"):
#   ['compile', key]            compile(*key) (key as written by describe_key)                      -> new handle
#   ['purge']                   purge()
#   ['fill', n]                 n compiles of distinct patterns that no key and no other operation uses (n >= the cache bound: everything
#                               compiled before is evicted)
#   ['clone', how, h]           copy.copy / copy.deepcopy / pickle round trip (how = 'pickle<protocol>') of handle h -> new handle
#   ['pass', h, extras]         compile(handle h, **extras): without extras (or flags=0, the default) it must be THE object
#                               handed in, with flags / namespaces / custom it must raise ValueError
#   ['api', name, h, extras]    soupsieve.<name>(handle h, <tag or tags>, **extras): the module-level functions take a compiled
#                               object too: the result of handle.<name>(...) resp. ValueError
# and, whatever came before: every object compile returns is == (same hash) to the first compile of that key after a purge,
# clones are == to their original, currsize stays within the bound, purge empties the cache.
# ---------------------------------------------------------------------------------------------------------------------
API_NAMES = ('select', 'iselect', 'select_one', 'match', 'filter', 'closest')
CLONE_HOWS = ('copy', 'deepcopy') + tuple(f'pickle{i}' for i in range(pickle.HIGHEST_PROTOCOL + 1))
REJECTED_EXTRAS = ({'flags': 1}, {'flags': True}, {'flags': sv.DEBUG}, {'namespaces': {}}, {'namespaces': {'a': 'b'}}, {'namespaces': 'own'},
                   {'custom': {}}, {'custom': {':--x': 'p'}}, {'custom': 'own'}, {'flags': 1, 'namespaces': {}, 'custom': {}})


def history_docs(doc_seed):
    return [gen.build_doc('xml', XML_TOP), gen.build_doc(*gen.gen_state_doc(random.Random(doc_seed)))]


def _api(fn_of, name, docs, which):
    """Result of one of the six entry points (`fn_of(name)` is the callable), as indices / bools."""
    doc = docs[which % len(docs)]
    els = gen.elements(doc)
    idx = {id(e): i for i, e in enumerate(els)}
    tag = els[which % len(els)] if els else doc

    def ix(e):
        return None if e is None else idx.get(id(e), -1)
    with contextlib.redirect_stdout(io.StringIO()):
        if name in ('select', 'iselect'):
            return [ix(e) for e in fn_of(name)(doc)]
        if name == 'select_one':
            return ix(fn_of(name)(doc))
        if name == 'match':
            return bool(fn_of(name)(tag))
        if name == 'closest':
            return ix(fn_of(name)(tag))
        return [ix(e) for e in fn_of(name)(els)]


def run_history(ops, doc_seed=0, refs=None):
    """Run a history (see above) on the real library.  Returns (finding or None, counts)."""
    N = cp._MAXCACHE
    docs = history_docs(doc_seed)
    refs = {} if refs is None else refs     # key (json) -> what compile returned for it the first time, right after a purge
    handles = []                            # (object, key, origin: 'compile' | how it was cloned)
    counts = {'pass': 0, 'pass_after_purge_or_eviction': 0, 'pass_of_clone': 0, 'rejected': 0, 'api': 0, 'evicting_fills': 0}
    lost = set()                            # handles whose cache entry is certainly gone (purge / overflow since they were compiled)

    def fail(i, what, **more):
        return dict({'what': what, 'passthrough': True, 'history': ops, 'failing_step': i, 'failing_op': ops[i] if i < len(ops) else 'end',
                     'doc_seed': doc_seed, 'handles': [f'h{j}: {o} of {json.dumps(k)}' for j, (_, k, o) in enumerate(handles)],
                     'sequence': 'c = soupsieve.compile(*key); ... purge() / other compiles / copies ...; soupsieve.compile(c) is c'}, **more)

    def ref_for(key):
        kj = json.dumps(key, sort_keys=True)
        if kj not in refs:
            if cp._cached_css_compile.cache_info().currsize:
                raise RuntimeError('reference compiles are made on an empty cache')
            refs[kj] = compile_key(undescribe_key(key))
            sv.purge()
        return refs[kj]

    def extras_of(extras, h):
        out = {}
        for a, v in extras.items():
            if v == 'own':
                own = getattr(handles[h][0], a)
                v = dict(own) if own is not None else {}
            out[a] = v
        return out
    cur = 0
    sv.purge()
    for op in ops:                          # the references first: a history starts on an empty cache
        if op[0] == 'compile':
            ref_for(op[1])
    try:
        for i, op in enumerate(ops):
            cur = i
            if op[0] == 'compile':
                ref = ref_for(op[1])
                got = compile_key(undescribe_key(op[1]))
                handles.append((got, op[1], 'compile'))
                f = value_findings(got, ref, 'compile(key) after this history')[0]
                if f:
                    return fail(i, f[0].replace('a fresh compile of the same arguments', 'what compile(key) returned on an empty cache')), counts
            elif op[0] == 'purge':
                sv.purge()
                lost.update(range(len(handles)))
                if cp._cached_css_compile.cache_info().currsize != 0:
                    return fail(i, 'purge() did not empty the cache'), counts
            elif op[0] == 'fill':
                for j in range(op[1]):
                    sv.compile(f'[data-fill-{i}="{j}"]')
                if op[1] >= N:
                    lost.update(range(len(handles)))
                    counts['evicting_fills'] += 1
            elif op[0] == 'clone':
                o, k, _ = handles[op[2]]
                if op[1] == 'copy':
                    cl = copy.copy(o)
                elif op[1] == 'deepcopy':
                    cl = copy.deepcopy(o)
                else:
                    cl = pickle.loads(pickle.dumps(o, protocol=int(op[1][6:])))
                handles.append((cl, k, op[1]))
                if type(cl) is not type(o) or not (cl == o) or cl != o or hash(cl) != hash(o):
                    return fail(i, f'{op[1]} of a compiled selector is not an == object with the same hash'), counts
            elif op[0] == 'pass':
                o, k, origin = handles[op[1]]
                ex = extras_of(op[2], op[1])
                rejected = bool(ex.get('flags')) or ex.get('namespaces') is not None or ex.get('custom') is not None
                try:
                    with contextlib.redirect_stdout(io.StringIO()):
                        r = sv.compile(o, **ex)
                except ValueError:
                    if not rejected:
                        return fail(i, f'compile(compiled{", **" + repr(ex) if ex else ""}) raised ValueError'), counts
                    counts['rejected'] += 1
                    continue
                if rejected:
                    return fail(i, f'compile(compiled, **{ex!r}) was accepted: extra arguments with a compiled selector must raise ValueError'), counts
                counts['pass'] += 1
                counts['pass_after_purge_or_eviction'] += op[1] in lost
                counts['pass_of_clone'] += origin != 'compile'
                if r is not o:
                    same = [j for j, (x, _, _) in enumerate(handles) if x is r]
                    return fail(i, 'compile(compiled) did not return the object it was given'
                                + (' (a copy / unpickled selector was handed in)' if origin != 'compile' else '')
                                + (' (its cache entry had been purged / evicted)' if op[1] in lost and origin == 'compile' else ''),
                                returned=(f'handle h{same[0]}' if same else 'an object that no earlier call had returned') +
                                (', == to the argument' if r == o else ', not even == to the argument')), counts
            elif op[0] == 'api':
                o, k, origin = handles[op[2]]
                ex = extras_of(op[3], op[2])
                counts['api'] += 1
                want = _api(lambda nme: getattr(o, nme), op[1], docs, i)
                try:
                    got = _api(lambda nme: (lambda x: getattr(sv, nme)(o, x, **ex)), op[1], docs, i)
                except ValueError:
                    if not ex:
                        return fail(i, f'soupsieve.{op[1]}(compiled, ...) raised ValueError'), counts
                    continue
                if ex:
                    return fail(i, f'soupsieve.{op[1]}(compiled, ..., **{ex!r}) was accepted: extra arguments with a compiled selector must raise ValueError'), counts
                if got != want:
                    return fail(i, f'soupsieve.{op[1]}(compiled, x) differs from compiled.{op[1]}(x)', module_level=got, method=want), counts
            else:
                raise ValueError(f'unknown history operation {op!r}')
            ci = cp._cached_css_compile.cache_info()
            if ci.currsize > N or ci.maxsize != N:
                return fail(i, 'cache exceeded its bound', currsize=ci.currsize), counts
        cur = len(ops)
        for j, (o, k, origin) in enumerate(handles):        # nothing the history did changed an object it had handed out
            ref = ref_for(k)
            if not (o == ref) or hash(o) != hash(ref):
                return fail(len(ops), f'at the end of the history handle h{j} is no longer == to a compile of its key on an empty cache'), counts
    except framework.LibraryDidNotTerminate:
        raise
    except Exception as e:
        return fail(cur, f'the history raised {e!r}'), counts
    finally:
        sv.purge()
    return None, counts


def history_keys(rng, pats, n):
    """Keys that compile, as describe_key() writes them: small and generated patterns, with / without maps, both flag values,
    str-subclass patterns."""
    ns_pool = [None, None, {}, {'svg': gen.SVG}, {'x': 'urn:x', 'svg': gen.SVG}, {'svg': gen.SVG, '': 'urn:x'}]
    cu_pool = [None, None, {}, {':--c1': 'div > *'}, {':--c1': 'div > *', ':--c2': 'p, i'}]
    small = ['p', 'svg|circle', '*|circle:not(svg|*)', ':--c1', 'x|p, :--c2', 'div > :--c1', 'div > :is(p, i):nth-child(2n+1)', '*|*', S('p'),
             'p:not(.b)', ':root', 'input:checked, option:default', 'p ', ':has(> p)']
    keys, tries = [], 0
    while len(keys) < n and tries < 30 * n:
        tries += 1
        pat = rng.choice(pats) if pats and rng.random() < 0.4 else rng.choice(small)
        k = (pat, rng.choice(ns_pool), rng.choice(cu_pool), rng.choice([0, 0, 0, 1, False]))
        try:
            sv.purge()
            compile_key(k)
        except Exception:
            continue
        d = describe_key(k)
        if d not in keys:
            keys.append(d)
    sv.purge()
    return keys


def history_grid(keys, N):
    """Every key x every way a compiled object can have lost / never had its place in the cache, then handed back."""
    out = []
    for n, k in enumerate(keys):
        other = keys[(n + 1) % len(keys)]
        interludes = [[], [['purge']], [['fill', 3]], [['compile', other]], [['purge'], ['compile', k]], [['purge'], ['compile', other]]]
        if n < 3:
            interludes += [[['fill', N + 7]], [['fill', N + 7], ['compile', k]], [['fill', N - 1]], [['fill', N]]]
        for inter in interludes:
            nh = 1 + sum(1 for o in inter if o[0] == 'compile')
            out.append([['compile', k]] + inter + [['pass', 0, {}]] + [['pass', j, {}] for j in range(1, nh)] + [['pass', 0, {'flags': 0}]])
        for m, how in enumerate(CLONE_HOWS):
            if how.startswith('pickle') and (n + m) % 3:
                continue
            out.append([['compile', k], ['clone', how, 0], ['pass', 1, {}], ['pass', 0, {}], ['purge'], ['pass', 1, {}], ['pass', 0, {}]])
        out.append([['compile', k], ['purge']] + [['pass', 0, ex] for ex in REJECTED_EXTRAS] +
                   [['api', nme, 0, {}] for nme in API_NAMES] + [['api', API_NAMES[n % 6], 0, REJECTED_EXTRAS[n % len(REJECTED_EXTRAS)]]])
    return out


def random_history(rng, keys, N, big_ok):
    ops = [['compile', rng.choice(keys)]]
    nh = 1
    for _ in range(rng.randint(3, 14)):
        x = rng.random()
        if x < 0.2:
            ops.append(['compile', rng.choice(keys if rng.random() < 0.5 else keys[:3])])
            nh += 1
        elif x < 0.32:
            ops.append(['purge'])
        elif x < 0.42:
            big = big_ok and rng.random() < 0.25
            ops.append(['fill', N + rng.randint(0, 20) if big else rng.randint(1, 6)])
        elif x < 0.55:
            ops.append(['clone', rng.choice(CLONE_HOWS), rng.randrange(nh)])
            nh += 1
        elif x < 0.85:
            ops.append(['pass', rng.randrange(nh), rng.choice([{}, {}, {}, {'flags': 0}, {'flags': False}])])
        elif x < 0.92:
            ops.append(['pass', rng.randrange(nh), rng.choice(REJECTED_EXTRAS)])
        else:
            ops.append(['api', rng.choice(API_NAMES), rng.randrange(nh), rng.choice([{}, {}, {}] + list(REJECTED_EXTRAS))])
    ops.append(['pass', rng.randrange(nh), {}])
    return ops


def passthrough_histories(chk, rng, pats, quick):
    """Sub-check (d).  Returns (violations, counts)."""
    N = cp._MAXCACHE
    keys = history_keys(rng, pats, 10 if quick else 60)
    hists = history_grid(keys, N)
    grid = len(hists)
    big = 0
    for _ in range(60 if quick else 3000):
        h = random_history(rng, keys, N, big < (4 if quick else 200))
        big += any(o[0] == 'fill' and o[1] >= N for o in h)
        hists.append(h)
    bad, total, refs = [], {}, {}
    doc_seed = rng.randrange(2 ** 31)
    kinds = set()
    for h in hists:
        f, counts = run_history(h, doc_seed, refs)
        for a, b in counts.items():
            total[a] = total.get(a, 0) + b
        if f is not None and f['what'] not in kinds:        # one (the first = shortest grid) history per kind of finding
            kinds.add(f['what'])
            bad.append(f)
    counts = {'passthrough_histories': len(hists), 'passthrough_grid_histories': grid, 'passthrough_keys': len(keys),
              'passthrough_operations': sum(len(h) for h in hists), 'passthrough_identity_checks': total.get('pass', 0),
              'passthrough_identity_checks_after_purge_or_eviction': total.get('pass_after_purge_or_eviction', 0),
              'passthrough_identity_checks_of_clones': total.get('pass_of_clone', 0), 'passthrough_extra_arguments_rejected': total.get('rejected', 0),
              'passthrough_api_calls': total.get('api', 0), 'passthrough_histories_with_overflow': total.get('evicting_fills', 0)}
    return bad, counts


def _valid(m):
    try:
        ct.CustomSelectors(m)
        return True
    except Exception:
        return False


def run(chk):
    proof_ok = framework.lean_pipeline(chk, SOURCES)
    driver_ok = proof_ok or chk.build(['svdriver'])[0]
    rng = random.Random(chk.seed)
    quick = chk.tier == 'quick'
    bad = []
    evaluations = 0
    sv.purge()
    # ---------------- (a) object protocol
    pats = []
    for _ in range(120 if quick else 4000):
        s = spell.render(spell.g_selector(rng), rng, 0)
        if len(s) < 150:
            pats.append(s)
    docs = [gen.build_doc(*gen.gen_state_doc(rng)) for _ in range(3)]
    classes_seen = set()
    for p in pats:
        try:
            c = sv.compile(p, {'svg': gen.SVG}, custom={':--c1': 'div > *'})
        except Exception:
            continue
        seen = {}
        walk(c, seen)
        before = snapshot(c)
        for o in list(seen.values())[:60]:
            classes_seen.add(type(o).__name__)
            evaluations += 1
            if isinstance(o, ct.Immutable):
                names = list(o.__slots__) + ['new_attr']
                for nme in names:
                    for op in ('set', 'del'):
                        try:
                            if op == 'set':
                                setattr(o, nme, 1)
                            else:
                                delattr(o, nme)
                            bad.append({'what': f'{op}attr({type(o).__name__}, {nme!r}) succeeded', 'pattern': p})
                        except AttributeError:
                            pass
                        except Exception as e:
                            bad.append({'what': f'{op}attr({type(o).__name__}, {nme!r}) raised {type(e).__name__}', 'pattern': p})
            else:
                for op in (lambda: o.__setitem__('k', 'v'), lambda: o.__delitem__('k'), lambda: o.update({}), lambda: o.clear()):
                    try:
                        op()
                        bad.append({'what': f'{type(o).__name__} has a public mutator', 'pattern': p})
                    except (AttributeError, TypeError):
                        pass
            try:
                h = hash(o)
                for clone in (pickle.loads(pickle.dumps(o)), copy.copy(o), copy.deepcopy(o)):
                    if clone != o or not (clone == o) or hash(clone) != h:
                        bad.append({'what': f'pickle/copy of {type(o).__name__} is not an equal object with an equal hash', 'pattern': p})
            except Exception as e:
                bad.append({'what': f'hash/pickle/copy of {type(o).__name__} raised {e!r}', 'pattern': p})
        if snapshot(c) != before:
            bad.append({'what': 'the compiled object changed under the attempted mutations', 'pattern': p})
        c2 = pickle.loads(pickle.dumps(c))
        d = rng.choice(docs)
        if [id(e) for e in c2.select(d)] != [id(e) for e in c.select(d)]:
            bad.append({'what': 'the unpickled selector selects other elements', 'pattern': p})
        sv.purge()
    # ---------------- (a2) the compiled object does not alias what the caller passed in
    xml = gen.build_doc('xml', [('e', 'r', None, None, [], [('e', 'circle', None, gen.SVG, [], []), ('e', 'circle', None, 'urn:other', [], []),
                                                            ('e', 'div', None, None, [], [('e', 'p', None, None, [], [])])])])
    for pat in ('svg|circle', 'svg|*, :--c1', ':--c1', '*|circle:not(svg|*)'):
        ns_arg, cu_arg = {'svg': gen.SVG}, {':--c1': 'div > *'}
        orig_ns, orig_cu = dict(ns_arg), dict(cu_arg)
        evaluations += 1
        c = sv.compile(pat, ns_arg, custom=cu_arg)
        wrapped = [ct.Namespaces(ns_arg), ct.CustomSelectors(cu_arg), ct.ImmutableDict(ns_arg)]
        before = (snapshot(c), hash(c), [id(e) for e in c.select(xml)], [(dict(w), hash(w)) for w in wrapped])
        ns_arg['svg'] = 'urn:other'
        ns_arg['x'] = 'urn:x'
        cu_arg[':--c1'] = 'p'
        cu_arg[':--c2'] = 'r'
        after = (snapshot(c), hash(c), [id(e) for e in c.select(xml)], [(dict(w), hash(w)) for w in wrapped])
        fresh = sv.compile(pat + ' ', orig_ns, custom=orig_cu)         # another cache key, the original arguments
        if before != after:
            bad.append({'what': 'a compiled selector (or an ImmutableDict / Namespaces / CustomSelectors) changed when the caller mutated the dict '
                                'it had passed in', 'pattern': pat, 'sequence': 'compile(pat, ns, custom=cu); ns[...] = ...; cu[...] = ...'})
        elif dict(c.namespaces) != orig_ns or dict(c.custom) != orig_cu or c.selectors != fresh.selectors or \
                [id(e) for e in c.select(xml)] != [id(e) for e in fresh.select(xml)]:
            bad.append({'what': 'after the caller mutated its dicts the cached selector no longer equals a fresh compile of the original arguments',
                        'pattern': pat})
        sv.purge()
    # ---------------- (b) equality iff equal keys
    def key(r):
        return (r.choice(['p', 'div', 'p.a', ':--c', 'a|b', 'p ', S('p'), S('a|b')]),
                r.choice([None, {'a': 'u1'}, {'a': 'u2'}, {'a': 'u1', 'b': 'u2'}, {'b': 'u2', 'a': 'u1'},
                          {S('a'): 'u1'}, {'a': S('u1')}, {S('b'): S('u2'), 'a': 'u1'}]),
                r.choice([None, {':--c': 'p'}, {':--c': 'div'}, {':--c': 'p', ':--d': 'i'}, {':--d': 'i', ':--c': 'p'},
                          {S(':--c'): 'p'}, {':--c': S('p')}, {':--d': S('i'), S(':--c'): 'p'}]), r.choice([0, 1, False, True]))

    def norm(k):
        return (k[0], None if k[1] is None else tuple(sorted(k[1].items())), None if k[2] is None else tuple(sorted(k[2].items())), int(k[3]))
    for _ in range(900 if quick else 30000):
        k1, k2 = key(rng), key(rng)
        evaluations += 1
        try:
            with contextlib.redirect_stdout(io.StringIO()):
                a = sv.compile(k1[0], k1[1], k1[3], custom=k1[2])
                if rng.random() < 0.5:
                    sv.purge()
                b = sv.compile(k2[0], k2[1], k2[3], custom=k2[2])
        except Exception:
            continue
        if (a == b) != (norm(k1) == norm(k2)):
            bad.append({'what': 'compile(k1) == compile(k2) does not coincide with k1 == k2', 'k1': repr(k1), 'k2': repr(k2), 'eq': a == b})
        if a == b and hash(a) != hash(b):
            bad.append({'what': 'equal compiled selectors with different hashes', 'k1': repr(k1), 'k2': repr(k2),
                        'k1_types': describe_key(k1), 'k2_types': describe_key(k2)})
        if (a != b) == (a == b):
            bad.append({'what': '__ne__ is not the negation of __eq__', 'k1': repr(k1), 'k2': repr(k2)})
    # ---------------- (b2) equal argument maps (same items, another insertion order) have the same outcome, cached or fresh
    names = [':--ab', ':--a\\62', ':--AB', ':--a\\62 ', ':--\\61 b', ':--c', ':--\\63', ':--a b', 'x', ':--d']
    defs = ['p', 'div', ':--c', ':--ab', 'i >']
    pat_pool = [':--ab', ':--c', 'p:--ab', ':--d, :--c', 'p']

    def outcome(pat, cu):
        try:
            c_ = sv.compile(pat, custom=cu)
            return ('ok', c_.selectors)
        except Exception as e:
            # which of several defects of a map is reported first may depend on the order the caller's dict lists them in;
            # what must not depend on it is WHETHER compile returns, and what it returns
            return ('exc',)
    for _ in range(300 if quick else 6000):
        items = [(rng.choice(names), rng.choice(defs)) for _ in range(rng.randint(1, 3))]
        m1 = dict(items)
        items2 = list(m1.items())
        rng.shuffle(items2)
        m2 = dict(items2)
        if ct.CustomSelectors(m1) != ct.CustomSelectors(m2) if all(isinstance(k, str) for k in m1) and _valid(m1) else False:
            continue
        pat = rng.choice(pat_pool)
        evaluations += 1
        sv.purge()
        f1 = outcome(pat, m1)
        sv.purge()
        f2 = outcome(pat, m2)
        sv.purge()
        h1 = outcome(pat, m1)
        h2 = outcome(pat, m2)       # m2 after m1 without purge: may be served from the cache
        if f1 != f2 or h2 != f2 or h1 != f1:
            bad.append({'what': 'two equal custom maps (same items, another insertion order) do not have the same outcome, or a cached '
                                'compile differs from a fresh one', 'pattern': pat, 'custom_1': list(m1.items()), 'custom_2': list(m2.items()),
                        'fresh_1': repr(f1)[:120], 'fresh_2': repr(f2)[:120], 'after_1_without_purge_2': repr(h2)[:120]})
    # ---------------- (b3) a compile is not influenced by the custom maps of earlier compiles (nested aliases, cycles)
    xdefs = [':--y:first-child', ':--y > p', 'div :--y', ':--y', 'p']
    ydefs = ['li', 'p', ':--x', 'div, span', ':--z']
    for _ in range(200 if quick else 5000):
        m1 = {':--x': rng.choice(xdefs), ':--y': rng.choice(ydefs)}
        m2 = {':--x': rng.choice(xdefs), ':--y': rng.choice(ydefs)}
        if rng.random() < 0.3:
            m2[':--z'] = 'b'
        pat = rng.choice([':--x', ':--x, :--y', 'ul > :--x'])
        evaluations += 1
        sv.purge()
        f2 = outcome(pat, m2)
        sv.purge()
        outcome(pat, m1)
        h2 = outcome(pat, m2)
        if h2 != f2:
            bad.append({'what': 'compile(pattern, custom=m2) after compile(pattern, custom=m1) differs from a fresh parse of the same arguments',
                        'pattern': pat, 'custom_1': m1, 'custom_2': m2, 'fresh': repr(f2)[:160], 'after_history': repr(h2)[:160]})
    sv.purge()
    # ---------------- (b4) the maps themselves: == maps (Mapping.__eq__: same items) have equal hashes, whatever the order of the items
    # and whether keys / values are str or instances of a str subclass
    map_pairs = 0
    kpool, vpool = ['a', 'b', ':--c', '', 'svg'], ['u1', 'u2', 'p', '']
    for _ in range(400 if quick else 10000):
        items = list({rng.choice(kpool): rng.choice(vpool) for _ in range(rng.randint(0, 3))}.items())

        def spelled():
            it = [(S(k_) if rng.random() < 0.3 else k_, S(v_) if rng.random() < 0.3 else v_) for k_, v_ in items]
            rng.shuffle(it)
            if rng.random() < 0.25 and it:
                it[0] = (it[0][0], rng.choice(vpool))           # mostly another map
            return it
        i1, i2 = spelled(), spelled()
        for cls in (ct.ImmutableDict, ct.Namespaces, ct.CustomSelectors):
            evaluations += 1
            try:
                m1 = cls(dict(i1)) if rng.random() < 0.5 else cls(i1)
                m2 = cls(dict(i2)) if rng.random() < 0.5 else cls(tuple(i2))
            except Exception as e:
                bad.append({'what': f'{cls.__name__}(items) raised {e!r}', 'items_1': repr(i1), 'items_2': repr(i2)})
                continue
            map_pairs += 1
            if (m1 == m2) != (dict(i1) == dict(i2)) or (m1 != m2) == (m1 == m2):
                bad.append({'what': f'{cls.__name__}: == does not coincide with equality of the items', 'items_1': repr(i1), 'items_2': repr(i2)})
            elif m1 == m2 and hash(m1) != hash(m2):
                bad.append({'what': f'two {cls.__name__} objects that are == have different hashes',
                            'items_1': [[type(x).__name__, str(x), type(y).__name__, str(y)] for x, y in i1],
                            'items_2': [[type(x).__name__, str(x), type(y).__name__, str(y)] for x, y in i2],
                            'sequence': f'class S(str): pass;  m1 = soupsieve.css_types.{cls.__name__}(items_1); m2 = ...(items_2); m1 == m2 and hash(m1) != hash(m2)'})
    # ---------------- (e) pickles travel between interpreters started with different PYTHONHASHSEED values
    xbad, xcounts = cross_process(chk, rng, pats, quick)
    bad.extend(xbad)
    evaluations += xcounts['cross_process_unpickles']
    # ---------------- (d) pass-through: compile(compiled) is the object handed in, whatever happened since it was compiled
    pbad, pcounts = passthrough_histories(chk, rng, pats, quick)
    bad.extend(pbad)
    evaluations += pcounts['passthrough_operations']
    # ---------------- (c) cache histories vs the LRU model
    N = cp._MAXCACHE
    hist_bad, evictions = [], 0
    lines, py_infos = [], []
    for _ in range(6 if quick else 60):
        sv.purge()
        ops = []
        nkeys = rng.choice([5, 40, N + 30, N + 200])
        infos = []
        for _ in range(rng.randint(50, 300) if nkeys < N else N + rng.randint(100, 700)):
            x = rng.random()
            if x < 0.01:
                ops.append(-1)
                sv.purge()
            else:
                k = rng.randrange(nkeys) if rng.random() < 0.8 else 100000 + rng.randrange(5)
                ops.append(k)
                pat = f'[data-k="{k}"]' if k < 100000 else f'[data-k="{k}"'     # keys >= 100000 fail to parse
                try:
                    got = sv.compile(pat)
                    fresh = cp.CSSParser(pat).process_selectors()
                    if got.selectors != fresh or got.pattern != pat:
                        hist_bad.append({'what': 'compile returned something other than a fresh parse', 'pattern': pat})
                except sv.SelectorSyntaxError:
                    if k < 100000:
                        hist_bad.append({'what': 'valid pattern failed', 'pattern': pat})
            ci = cp._cached_css_compile.cache_info()
            infos.append([ci.hits, ci.misses, ci.currsize])
            if ci.currsize > N or ci.maxsize != N:
                hist_bad.append({'what': 'cache exceeded its bound', 'currsize': ci.currsize})
        evaluations += len(ops)
        if nkeys > N:
            evictions += 1
        lines.append(f'(13 {N} 100000 ({" ".join(map(str, ops))}))')
        py_infos.append((infos, ops))
        sv.purge()
        if cp._cached_css_compile.cache_info().currsize != 0:
            hist_bad.append({'what': 'purge() did not empty the cache'})
    corr_bad = []
    if driver_ok:
        for (infos, ops), resp in zip(py_infos, driver.run(lines)):
            m = enc.parse_sx(resp)
            if m != infos:
                i = next(j for j in range(len(infos)) if j >= len(m) or m[j] != infos[j])
                corr_bad.append({'what': 'cache_info() differs from the LRU model', 'ops_prefix': ops[:i + 1][-30:], 'py': infos[i], 'model': m[i] if i < len(m) else None})
    chk.samples = [{'classes_exercised': sorted(classes_seen)}, {'history_ops': py_infos[0][1][:20] if py_infos else []}]
    chk.coverage.update({'patterns_for_object_protocol': len(pats), 'classes_exercised': sorted(classes_seen), 'operations': evaluations,
                         'violations': len(bad) + len(hist_bad), 'cache_histories': len(lines), 'histories_with_evictions': evictions,
                         'cache_model_mismatches': len(corr_bad), 'cache_bound': N, 'map_pairs_eq_hash': map_pairs, **xcounts, **pcounts})
    for i, b in enumerate((bad + hist_bad)[:6]):
        chk.violation(f'v{i}', b, concrete=True)
    for i, b in enumerate(corr_bad[:3]):
        chk.violation(f'corr{i}', {'correspondence': 'functools.lru_cache(_cached_css_compile) ≡ Cache.compile/purge', **b}, concrete=False)
    if not proof_ok and not (bad or hist_bad or corr_bad):
        chk.violation('proof', {'what': 'proof obligation no longer checks (generated class / cache facts or the LRU theorems); no failing '
                                        'operation sequence found', 'theorem_or_correspondence': 'SoupVerif.Properties.C15',
                                'detail': chk.notes.get('proof_broken')}, concrete=False)
    return chk.finish(rule=RULE, evaluations=evaluations, distinct=max(evictions, 2) if evictions else 0)


def replay(chk, path):
    data = json.load(open(path))
    print(json.dumps(data.get('what')))
    if data.get('xproc') and data.get('key'):
        # re-run the cross-process round trip for this one key
        bad, _ = cross_process(chk, random.Random(data.get('seed', 0)), [], True, only_keys=[undescribe_key(data['key'])])
        for b in bad:
            print(json.dumps(b['what']))
        return 1 if bad else 0
    if data.get('passthrough') and data.get('history'):
        f, _ = run_history(data['history'], data.get('doc_seed', 0))
        if f is not None:
            print(json.dumps({k: f[k] for k in ('what', 'failing_step', 'failing_op', 'returned') if k in f}))
            print(f'VIOLATION property={PID} replay={path}')
        return 1 if f is not None else 0
    return 0
