"""C17: HTML state pseudo-classes follow their definitions and partition laws."""
import json
import random
import warnings

import bs4
import soupsieve as sv

import enc
import gen
from props import common_match

warnings.simplefilter('ignore')
PID = 'C17'
SOURCES = ['SoupVerif/Properties/C17.lean', 'SoupVerif/Lemmas/StateLawsShape.lean', 'SoupVerif/Lemmas/StateLawsSem.lean',
           'SoupVerif/Lemmas/StateLawsRel.lean', 'SoupVerif/Lemmas/StateLawsDir.lean', 'SoupVerif/Generated/Builtins.lean',
           'SoupVerif/Model/Match.lean']
SOURCES += ['SoupVerif/Generated/PySmallFn.lean', 'SoupVerif/Model/SmallFnDyn.lean', 'SoupVerif/Properties/C17GenSmall.lean', 'SoupVerif/Properties/C17GenOwnDir.lean']   # match_defined / match_placeholder_shown / match_scope / match_own_dir translated from the source
RULE = ('HTML documents made of arbitrarily nested forms, fieldsets with 0-2 legends (controls inside the first / second legend), '
        'radio groups inside / outside forms with name collisions, option/optgroup, every input type, disabled / readonly / '
        'required / placeholder / contenteditable / dir (incl. auto with LTR / RTL / neutral text, bdi, textarea, tel) and '
        'iframes with inner documents; forms / containers holding an iframe at the boundary positions of the flat control walks '
        '(iframe followed by an element / text / white space / a comment, or last child of 0-3 nested wrappers, or last node of the '
        'form / document; embedded document with or without html / body, ending in an empty element, a 1-4 deep chain of last '
        'children, text, a comment or another iframe, holding its own forms, submit controls and same-named radios) with the '
        "form's own first submit control and radio group before / after the iframe (a form of an embedded document does not count "
        'as nested in the form that holds the iframe); forms inside forms of the same document (directly / below 1-2 wrappers, 1-3 levels, '
        'two inner forms side by side) with same-named radios owned by every level and by the document, the checked member of a name '
        'at one / two / no / random levels (a radio belongs to its nearest form only); built through the API as html / html5 and serialised and re-parsed by html.parser, lxml '
        'and html5lib. Checked on PY: the partition laws (enabled/disabled, required/optional, read-write/read-only, '
        'in-range/out-of-range, link = any-link, checked ⊆ default, dir ltr xor rtl for rooted HTML elements), the '
        'first-submit and radio-group definitions against an independent reading (:indeterminate = its definition, with "radio" '
        'being what input[type=radio] selects in the document kind; for the whole document in one select and for each radio asked on '
        'its own with match), iframe locality; the same trees as XHTML parsed as XML '
        '(lxml-xml) with type="RADIO" / "Radio" on some checked inputs, where names and the type keyword are case-sensitive; submit '
        'controls and checked radios wrapped in <svg> / <math> (html5lib, XML, API-built with an XHTML root: SVG / MathML elements '
        'named input, no form controls -- the laws quantify over HTML elements); and PY = Lean matcher '
        'model for all thirteen pseudo-classes and :dir. Non-trivial = non-empty result.')

PSEUDOS = [':link', ':any-link', ':checked', ':default', ':indeterminate', ':disabled', ':enabled', ':required', ':optional',
           ':placeholder-shown', ':read-write', ':read-only', ':in-range', ':out-of-range', ':dir(ltr)', ':dir(rtl)']
CONTROLS = {'button', 'select', 'textarea', 'fieldset', 'optgroup', 'option'}


def laws(soup, state, info):
    els = gen.elements(soup)
    S = {p: {id(e) for e in sv.select(p, soup)} for p in PSEUDOS}
    bad = []
    # XHTML parsed as XML: element names, attribute names and the `type` keyword are compared exactly (what `html|input`,
    # `[checked]`, `[type="radio"]` select in that document kind); HTML: ASCII case-insensitively
    xml = bool(soup._is_xml)

    def nm(e):
        return e.name if xml else e.name.lower()

    def kw(v):
        v = v if isinstance(v, str) else ' '.join(v)
        return v if xml else v.lower()

    def attr(e, name):
        """The value of the attribute an attribute selector `[name]` designates (None: there is none)."""
        for k, v in e.attrs.items():
            if (str(k) if xml else str(k).lower()) == name:
                return v if isinstance(v, str) else ' '.join(v)
        return None

    # Only HTML elements have states: with namespace support (XML, html5lib, an XHTML-namespace root) an <input> inside <svg> /
    # <math> is an SVG / MathML element named `input`, not a form control
    root0 = next((c for c in soup.contents if isinstance(c, bs4.Tag)), None)
    supports_ns = xml or (root0 is not None and root0.namespace == gen.XHTML)

    def is_html(e):
        return not supports_ns or e.namespace == gen.XHTML
    state['foreign_controls'] = state.get('foreign_controls', 0) + sum(
        1 for e in els if not is_html(e) and nm(e) in ('input', 'button') and (attr(e, 'checked') is not None or kw(e.get('type', '')) == 'submit'))

    def is_control(e):
        return is_html(e) and (nm(e) in CONTROLS or (nm(e) == 'input' and kw(e.get('type', '')) != 'hidden'))
    allids = {id(e) for e in els if is_html(e)}
    if S[':enabled'] & S[':disabled']:
        bad.append('enabled ∩ disabled ≠ ∅')
    if (S[':enabled'] | S[':disabled']) != {id(e) for e in els if is_control(e)}:
        bad.append('enabled ∪ disabled ≠ form controls')
    if S[':required'] & S[':optional'] or (S[':required'] | S[':optional']) != {id(e) for e in els if is_html(e) and nm(e) in ('input', 'select', 'textarea')}:
        bad.append('required/optional do not partition input, select, textarea')
    if S[':read-write'] & S[':read-only'] or (S[':read-write'] | S[':read-only']) != allids:
        bad.append('read-write/read-only do not partition all (HTML) elements')
    if S[':in-range'] & S[':out-of-range']:
        bad.append('in-range ∩ out-of-range ≠ ∅')
    if S[':link'] != S[':any-link']:
        bad.append(':link ≠ :any-link')
    if not S[':checked'] <= S[':default']:
        bad.append(':checked ⊄ :default')
    # dir: rooted HTML elements are exactly one of ltr / rtl
    root = next((c for c in soup.contents if isinstance(c, bs4.Tag)), None)
    for e in els:
        rooted = root is not None and (e is root or root in list(e.parents))
        if rooted and is_html(e) and ((id(e) in S[':dir(ltr)']) == (id(e) in S[':dir(rtl)'])):
            bad.append(f'dir: element <{e.name}> is in both or neither of :dir(ltr) / :dir(rtl)')
            break
    # :default beyond :checked = first submit button of each form (same document: not across an iframe)
    def own_doc_ancestors(e):
        out = []
        for p in e.parents:
            if isinstance(p, bs4.BeautifulSoup) or nm(p) == 'iframe':
                break
            out.append(p)
        return out

    def form_of(e):
        return next((p for p in own_doc_ancestors(e) if nm(p) == 'form' and is_html(p)), None)

    def walk(form):
        """descendants of form in order, not entering iframes; stops at a nested form (as the code documents)."""
        for c in form.contents:
            if isinstance(c, bs4.Tag):
                yield c
                if nm(c) != 'iframe':
                    yield from walk(c)
    want_default = set(S[':checked'])
    for f in [e for e in els if nm(e) == 'form' and is_html(e)]:
        for d in walk(f):
            if nm(d) == 'form':
                break
            if is_html(d) and nm(d) in ('input', 'button') and kw(d.get('type', '')) == 'submit':
                want_default.add(id(d))
                break
    if info.get('nested_forms'):
        state['nested_skipped'] = state.get('nested_skipped', 0) + 1
    if S[':default'] != want_default and not info.get('nested_forms'):
        bad.append(':default ≠ :checked ∪ first submit button of each form')
    # :indeterminate = checkboxes carrying `indeterminate`, `progress` without `value`, and UNCHECKED radio buttons that have no
    # (or an empty) name or whose group has no checked member.  Group of a radio: the radios with the same name owned by the same
    # form, or -- outside any form -- by the same document (never across an iframe boundary).  "Radio" is what
    # `input[type=radio]` selects in this document kind: the keyword compared exactly in XML, case-insensitively in HTML.
    def is_radio(e):
        return is_html(e) and nm(e) == 'input' and attr(e, 'type') is not None and kw(attr(e, 'type')) == 'radio'

    def owner(e):
        anc = own_doc_ancestors(e)
        f = next((p for p in anc if nm(p) == 'form' and is_html(p)), None)
        if f is not None:
            return f
        if anc:
            top = anc[-1]
            return top.parent if isinstance(top.parent, bs4.BeautifulSoup) else top
        return e.parent
    radios = [e for e in els if is_radio(e)]
    want_ind = set()
    for e in els:
        if not is_html(e):
            continue
        if nm(e) == 'input' and attr(e, 'type') is not None and kw(attr(e, 'type')) == 'checkbox' and attr(e, 'indeterminate') is not None:
            want_ind.add(id(e))
        elif nm(e) == 'progress' and attr(e, 'value') is None:
            want_ind.add(id(e))
        elif is_radio(e) and attr(e, 'checked') is None:
            name = attr(e, 'name')
            if not name:
                want_ind.add(id(e))
                continue
            own = owner(e)
            if not any(r is not e and attr(r, 'checked') is not None and attr(r, 'name') == name and owner(r) is own for r in radios):
                want_ind.add(id(e))
    state['radios_other_case'] = state.get('radios_other_case', 0) + sum(
        1 for e in els if nm(e) == 'input' and attr(e, 'type') is not None and attr(e, 'type') != 'radio' and attr(e, 'type').lower() == 'radio'
        and attr(e, 'checked') is not None and attr(e, 'name'))
    # Not decided here: a form-less radio that is a DIRECT child of an iframe (an embedded document whose root element would be the
    # radio itself; DESIGN.md lists it among the observations outside the quantifier: the library gives it no group at all)
    rootless = {id(e) for e in radios if form_of(e) is None and e.parent is not None and not isinstance(e.parent, bs4.BeautifulSoup)
                and nm(e.parent) == 'iframe'}
    state['radios_directly_under_iframe_not_judged'] = state.get('radios_directly_under_iframe_not_judged', 0) + len(rootless)
    if S[':indeterminate'] - rootless != want_ind - rootless:
        pos = {id(e): n for n, e in enumerate(els)}
        bad.append(':indeterminate ≠ its definition (unchecked radios whose group has no checked member, …): got '
                   f'{sorted(pos[i] for i in S[":indeterminate"])}, want {sorted(pos[i] for i in want_ind)}')
    # The definition is a statement about ONE element: asked about each radio on its own (sv.match: a fresh matcher, nothing
    # remembered from the radios evaluated before it in a select pass) the answer must be the same
    single = {id(e) for e in radios if sv.match(':indeterminate', e)}
    want_single = {i for i in want_ind if any(i == id(r) for r in radios)}
    if single - rootless != want_single - rootless:
        pos = {id(e): n for n, e in enumerate(els)}
        bad.append(':indeterminate, each radio asked on its own (match), ≠ its definition: got '
                   f'{sorted(pos[i] for i in single)}, want {sorted(pos[i] for i in want_single)}')
    # How the document exercises the ownership rule: an unchecked named radio owned by a form, no checked member in its own group,
    # and a checked radio of the same name owned by a form nested inside that form / by a form that encloses it
    if info.get('nested_forms'):
        own_of = {id(r): owner(r) for r in radios}
        for e in radios:
            if attr(e, 'checked') is not None or not attr(e, 'name') or nm(own_of[id(e)]) != 'form' or id(e) not in want_ind:
                continue
            for r in radios:
                if r is e or attr(r, 'checked') is None or attr(r, 'name') != attr(e, 'name'):
                    continue
                if any(p is own_of[id(e)] for p in own_doc_ancestors(r)):
                    state['unchecked_radio_with_checked_namesake_in_nested_form'] = state.get('unchecked_radio_with_checked_namesake_in_nested_form', 0) + 1
                    break
                if nm(own_of[id(r)]) == 'form' and any(p is own_of[id(r)] for p in own_doc_ancestors(e)):
                    state['unchecked_radio_with_checked_namesake_in_enclosing_form'] = state.get('unchecked_radio_with_checked_namesake_in_enclosing_form', 0) + 1
                    break
    for b in bad:
        state['bad'].append({'law': b, **info})
    state['checks'] += 1


def has_nested_forms(soup):
    """A form inside a form of the SAME document (there the property's "first submit button of each form" is left undecided).
    A form of an embedded document is not nested in the form that holds the iframe: it belongs to another document."""
    for f in soup.find_all('form'):
        for p in f.parents:
            if isinstance(p, bs4.BeautifulSoup) or p.name.lower() == 'iframe':
                break
            if p.name.lower() == 'form':
                return True
    return False


def recase_radios(rng, nodes):
    """`type="radio"` in other letter case (RADIO, Radio) on some radios -- in XML these are NOT radio buttons."""
    out = []
    for n in nodes:
        if n[0] == 'e':
            _, name, prefix, ns, attrs, kids = n
            keys = {k for k, _ in attrs}
            # a CHECKED, named one is what matters: in XML it must not count as a checked member of its group
            if name == 'input' and rng.random() < (0.7 if {'checked', 'name'} <= keys else 0.2):
                attrs = [(k, rng.choice(['RADIO', 'Radio', 'rADIO']) if k == 'type' and v == 'radio' else v) for k, v in attrs]
            n = ('e', name, prefix, ns, attrs, recase_radios(rng, kids))
        out.append(n)
    return out


FOREIGN = [('svg', gen.SVG), ('math', 'http://www.w3.org/1998/Math/MathML')]


def foreignize(rng, nodes, inside_form=False):
    """Wrap some controls in <svg> / <math>: under html5lib (and in XML, and in API-built trees with an XHTML root) the wrapped
    <input> / <button> is an SVG / MathML element -- no form control: never the form's default button, never a member of a radio
    group.  Submit controls and checked radios inside forms are what the scans of :default / :indeterminate could mistake."""
    out = []
    for n in nodes:
        if n[0] == 'e':
            _, name, prefix, ns, attrs, kids = n
            d = dict((k, v) for k, v in attrs if isinstance(k, str))
            hot = name in ('input', 'button') and (str(d.get('type', '')).lower() == 'submit' or ('checked' in d and str(d.get('type', '')).lower() == 'radio'))
            if name in ('input', 'button') and not kids and rng.random() < (0.55 if hot else 0.08):
                wname, wns = rng.choice(FOREIGN)
                out.append(('e', wname, None, wns, [('xmlns', wns)], [('e', name, None, wns, attrs, kids)]))
                if hot and rng.random() < 0.6:
                    # its HTML twin right behind it: the real first submit button / an unchecked real radio of the same group
                    out.append(('e', name, prefix, ns, [(k, v) for k, v in attrs if k != 'checked'], kids))
                continue
            n = ('e', name, prefix, ns, attrs, foreignize(rng, kids, inside_form or name == 'form') if name != 'iframe' else kids)
        out.append(n)
    return out


def foreign_form(rng):
    """A form whose FIRST submit control and whose CHECKED radio are SVG / MathML elements, next to the real ones."""
    def wrap(n):
        wname, wns = rng.choice(FOREIGN)
        return ('e', wname, None, wns, [('xmlns', wns)], [('e', n[1], None, wns, n[4], n[5])])
    g = rng.choice(['g1', 'g2', 'g7'])
    sub = lambda: ('e', rng.choice(['input', 'button']), None, None, [('type', 'submit')], [])      # noqa: E731
    radio = lambda c: ('e', 'input', None, None, [('type', 'radio'), ('name', g)] + ([('checked', '')] if c else []), [])      # noqa: E731
    kids = []
    if rng.random() < 0.7:
        kids += [wrap(sub()), sub()] + ([sub()] if rng.random() < 0.3 else [])
    if rng.random() < 0.7 or not kids:
        rs = [wrap(radio(True)), radio(False)] + ([radio(False)] if rng.random() < 0.4 else [])
        rng.shuffle(rs)
        kids += rs
    return ('e', 'form' if rng.random() < 0.8 else 'div', None, None, [], kids)


def inject(nodes, extra):
    """Append `extra` to the children of the first <div> (depth first); -> (nodes, done)."""
    out, done = [], False
    for n in nodes:
        if not done and n[0] == 'e' and n[1] != 'iframe':
            _, name, prefix, ns, attrs, kids = n
            if name == 'div':
                n, done = ('e', name, prefix, ns, attrs, list(kids) + [extra]), True
            else:
                k2, done = inject(kids, extra)
                n = ('e', name, prefix, ns, attrs, k2)
        out.append(n)
    return out, done


# ---------------------------------------------------------------------------------------------
# embedded documents at the boundary positions of the flat walks (first submit button of a form, radio group of a form / document)
# ---------------------------------------------------------------------------------------------
WRAPPERS = ['div', 'p', 'span', 'fieldset', 'label', 'section']


def frame_form(rng, st=None):
    """A form (or, for document-owned radio groups, a plain container) that holds an iframe with an embedded document, built so
    that the place where a walk over the form's own controls has to RESUME after the iframe varies: the iframe has a next sibling
    (element / text / white space / comment), or is the last child of 1-3 nested wrappers (the walk resumes at a sibling of an
    ancestor), or is the last node of the form / of the document (the walk ends).  The embedded document ends in an empty
    element, an element with content (a chain of last children 1-4 deep), text, white space or a comment; it is written with and
    without html / body, and may hold its own form, another iframe, submit controls and radios named like the outer group --
    all of them invisible to the outer form: its first submit button and its radio group come before / after the iframe."""
    g = rng.choice(['g1', 'g2', 'g5'])

    def submit():
        name = rng.choice(['input', 'button'])
        return ('e', name, None, None, [('type', rng.choice(['submit', 'submit', 'Submit']))], [('t', 'ok')] if name == 'button' and rng.random() < 0.7 else [])

    def radio(checked, name=None):
        return ('e', 'input', None, None, [('type', 'radio'), ('name', name or g)] + ([('checked', '')] if checked else []), [])

    def hot(depth=0):
        """What the outer scans could mistake for one of the form's own controls."""
        x = rng.random()
        if x < 0.45:
            return submit()
        if x < 0.7:
            return radio(rng.random() < 0.7)
        if x < 0.85 and depth < 2:
            return ('e', 'form', None, None, [], [hot(depth + 1) for _ in range(rng.randint(1, 2))])
        return ('e', rng.choice(WRAPPERS), None, None, [], [hot(depth + 1)] if depth < 2 else [])

    def chain(depth):
        """An element whose chain of last children is `depth` deep and ends in a control (or, sometimes, in a string)."""
        node = hot(2) if rng.random() < 0.8 else ('t', rng.choice(['x', ' ', '\n']))
        for _ in range(depth):
            pre = [hot() if rng.random() < 0.6 else gen.gen_control(rng) for _ in range(rng.choice([0, 0, 1, 2]))]
            node = ('e', rng.choice(WRAPPERS + ['form']), None, None, [], pre + [node])
        return node

    def embedded(level=0):
        kids = [hot() if rng.random() < 0.6 else gen.gen_control(rng) for _ in range(rng.choice([0, 0, 1, 2]))]
        tail = rng.choice(['deep', 'deep', 'deep', 'flat', 'text', 'space', 'comment', 'none', 'iframe'])
        if tail == 'deep':
            kids.append(chain(rng.randint(1, 3)))
        elif tail == 'flat':
            kids.append(hot(2))
        elif tail == 'text':
            kids += [hot(), ('t', 'x')]
        elif tail == 'space':
            kids += [chain(rng.randint(0, 2)), ('t', rng.choice([' ', '\n  ']))]
        elif tail == 'comment':
            kids += [chain(rng.randint(0, 2)), ('c', 'x')]
        elif tail == 'iframe' and level < 1:
            kids += [hot(), frame(level + 1)]
        if st is not None:
            st['frame_tail_' + tail] = st.get('frame_tail_' + tail, 0) + 1
        y = rng.random()
        if y < 0.4:
            return [('e', 'html', None, None, [], [('e', 'body', None, None, [], kids)])]
        if y < 0.5:
            return [('e', 'html', None, None, [], [('e', 'head', None, None, [], []), ('e', 'body', None, None, [], kids)])]
        if y < 0.6:
            return [('e', 'body', None, None, [], kids)]
        return kids

    def frame(level=0):
        return ('e', 'iframe', None, None, [], embedded(level))

    def after():
        """What follows the iframe inside its parent."""
        x = rng.random()
        if x < 0.55:
            return []
        return [rng.choice([('t', ' '), ('t', '\n'), ('t', 'x'), ('c', 'x'), ('e', 'span', None, None, [], []), submit(), radio(False)])] + (
            [frame()] if rng.random() < 0.15 else [])

    def own(p_submit):
        out = []
        for _ in range(rng.choice([0, 1, 1, 2, 3])):
            x = rng.random()
            out.append(submit() if x < p_submit else radio(rng.random() < 0.35) if x < p_submit + 0.35 else radio(rng.random() < 0.5, 'g9')
                       if x < p_submit + 0.45 else gen.gen_control(rng))
        return out

    node = frame()
    tail = after()
    depth = rng.choice([0, 1, 1, 1, 2, 2, 3])
    for _ in range(depth):
        node = ('e', rng.choice(WRAPPERS), None, None, [], own(0.1) + [node] + tail)
        tail = [] if rng.random() < 0.7 else after()
    # the form's own controls: mostly no submit control before the iframe (then the first one comes after it)
    kids = own(0.12) + [node] + tail + own(0.6)
    if st is not None:
        st['frame_forms'] = st.get('frame_forms', 0) + 1
        if not tail:
            st['frame_last_child_depth_%d' % depth] = st.get('frame_last_child_depth_%d' % depth, 0) + 1
    node = ('e', 'form' if rng.random() < 0.8 else 'div', None, None, [], kids)
    # forms nested in a form of the same document are left to the general generator (what :default means there is undecided)
    return node if rng.random() < 0.1 else unnest_forms([node])[0]


def unnest_forms(nodes, in_form=False):
    """Turn every form that lies inside a form of the SAME document into a div."""
    out = []
    for n in nodes:
        if n[0] == 'e':
            _, name, prefix, ns, attrs, kids = n
            inner = False if name == 'iframe' else (in_form or name == 'form')
            n = ('e', 'div' if name == 'form' and in_form else name, prefix, ns, attrs, unnest_forms(kids, inner))
        out.append(n)
    return out


def frame_doc(rng, st=None):
    """A document whose body holds 1-3 frame forms (side by side: never one inside the other) and loose controls between them."""
    kids = []
    for _ in range(rng.choice([1, 1, 2, 3])):
        if rng.random() < 0.3:
            kids.append(gen.gen_control(rng))
        kids.append(frame_form(rng, st))
    if rng.random() < 0.4:
        kids.append(rng.choice([('e', 'input', None, None, [('type', 'submit')], []),
                                ('e', 'input', None, None, [('type', 'radio'), ('name', 'g1'), ('checked', '')], []), ('t', ' ')]))
    kind = rng.choice(['html', 'html', 'html5'])
    x = rng.random()
    if x < 0.8:
        return kind, [('e', 'html', None, None, [], [('e', 'head', None, None, [], []), ('e', 'body', None, None, [], kids)])]
    if x < 0.9:
        return kind, [('e', 'html', None, None, [], kids)]
    return kind, [k for k in kids if k[0] == 'e' and k[5]][-1:]       # a lone form / container as the root element

# ---------------------------------------------------------------------------------------------
# forms inside forms: who owns a radio
# ---------------------------------------------------------------------------------------------
def nested_radio_doc(rng, st=None):
    """A document in which forms lie inside forms of the SAME document -- directly or below 1-2 wrappers, 1-3 levels below the
    outermost form, sometimes two inner forms side by side -- with radios of the same one or two group names owned by EVERY
    level (and by the document, outside all forms).  A radio belongs to its NEAREST form: for each name the levels that own a
    checked member are drawn first (one level, two levels, none, every level at random), so a checked radio in an inner form
    next to unchecked namesakes in the enclosing form, the converse, and a checked radio two levels away are all common; the
    checked member comes before or after the inner form in document order.  Now and then a level holds an iframe whose embedded
    document has a checked namesake (another document: nobody's group member out here)."""
    names = rng.choice([['g1'], ['g1', 'g2'], ['g1', 'g2'], ['g1', 'G1'], ['g3', '']])
    depth = rng.choice([1, 1, 2, 2, 3])
    levels = list(range(-1, depth + 1))          # -1: the document, 0: the outermost form, ...
    plan = {}
    for g in names:
        mode = rng.choice(['one', 'one', 'one', 'two', 'none', 'random'])
        # (an inner level twice as often as the document / the outermost form)
        plan[g] = ({rng.choice(levels + levels[2:])} if mode == 'one' else set(rng.sample(levels, 2)) if mode == 'two' else set() if mode == 'none'
                   else {lv for lv in levels if rng.random() < 0.4})
        if st is not None:
            st['nested_plan_' + mode] = st.get('nested_plan_' + mode, 0) + 1

    def radio(g, checked):
        attrs = [('type', rng.choice(['radio'] * 6 + ['Radio'])), ('name', g)] + ([('checked', rng.choice(['', 'checked']))] if checked else [])
        if rng.random() < 0.15:
            attrs.append(('id', 'r%d' % rng.randint(0, 99)))
        rng.shuffle(attrs)
        return ('e', 'input', None, None, attrs, [])

    def own(level, p_other=0.3):
        out = []
        for g in names:
            out += [radio(g, False) for _ in range(rng.choice([0, 1, 1, 2] if g != names[0] else [1, 1, 1, 2]))]
            if level in plan[g]:
                out.append(radio(g, True))
        if rng.random() < p_other:
            out.append(gen.gen_control(rng))
        if rng.random() < 0.12:
            g = rng.choice(names)
            out.append(('e', 'iframe', None, None, [], [('e', 'html', None, None, [], [('e', 'body', None, None, [], [
                radio(g, True)] + ([radio(g, False)] if rng.random() < 0.5 else []))])]))
        rng.shuffle(out)
        return out

    def form(level):
        kids = own(level)
        if level < depth:
            for _ in range(rng.choice([1, 1, 1, 2])):
                inner = form(level + 1)
                for _ in range(rng.choice([0, 0, 1, 1, 2])):
                    # wrappers between the two forms hold controls of the OUTER one
                    extra = own(level, 0.1) if rng.random() < 0.4 else []
                    cut = rng.randint(0, len(extra))
                    inner = ('e', rng.choice(WRAPPERS), None, None, [], extra[:cut] + [inner] + extra[cut:])
                kids.insert(rng.randint(0, len(kids)), inner)
        return ('e', 'form', None, None, [], kids)

    kids = own(-1)
    for _ in range(rng.choice([1, 1, 1, 2])):
        kids.insert(rng.randint(0, len(kids)), form(0))
    if st is not None:
        st['nested_radio_docs'] = st.get('nested_radio_docs', 0) + 1
    kind = rng.choice(['html', 'html', 'html5'])
    if rng.random() < 0.9:
        return kind, [('e', 'html', None, None, [], [('e', 'head', None, None, [], []), ('e', 'body', None, None, [], kids)])]
    return kind, [k for k in kids if k[0] == 'e' and k[1] == 'form'][:1]       # the outermost form as the root element


def xhtml_markup(rng, top):
    if not (top and top[0][0] == 'e' and top[0][1] == 'html'):
        top = [('e', 'html', None, None, [], [('e', 'head', None, None, [], []), ('e', 'body', None, None, [], top)])]
    top = recase_radios(rng, top)
    _, name, prefix, ns, attrs, kids = top[0]
    root = ('e', name, prefix, ns, [('xmlns', gen.XHTML)] + [a for a in attrs if a[0] != 'xmlns'], kids)
    return '<?xml version="1.0"?>' + gen.to_markup([root] + list(top[1:]), xml=True)


def make_cases_factory(state):
    def emit(rng, kind, top, cases, nested=False):
        """The tree through the API and the parsers: the laws on each variant, and the variant as correspondence cases."""
        variants = [('api', gen.build_doc(kind, top), {'kind': kind, 'tree': top})]
        if rng.random() < (0.8 if nested else 0.5) and top and top[0][1] == 'html':
            body = gen.to_markup(top)
            for parser in ('html.parser', 'lxml', 'html5lib'):
                try:
                    variants.append((parser, bs4.BeautifulSoup(body, parser), {'markup': body, 'parser': parser}))
                except Exception:
                    pass
        if rng.random() < 0.45:
            # the same tree as XHTML parsed as XML (lxml-xml): names and the `type` keyword are case-sensitive there
            xm = xhtml_markup(rng, top)
            try:
                variants.append(('xhtml-as-xml', bs4.BeautifulSoup(xm, 'xml'), {'markup': xm, 'parser': 'xml'}))
                state['xhtml_as_xml'] = state.get('xhtml_as_xml', 0) + 1
            except Exception:
                pass
        for name, soup, src in variants:
            info = dict(src)
            info['nested_forms'] = has_nested_forms(soup)
            try:
                laws(soup, state, info)
            except Exception as e:
                state['bad'].append({'law': f'exception {e!r}', **info})
            # documents of nested forms: always asked for :indeterminate, and for two of the others
            for p in ([':indeterminate'] + rng.sample([q for q in PSEUDOS if q != ':indeterminate'], 2) if nested else rng.sample(PSEUDOS, 5)):
                if 'markup' in src:
                    cases.append({'markup': src['markup'], 'parser': src['parser'], 'selector': p, 'queries': [('select', [], 0)]})
                else:
                    cases.append({'kind': kind, 'tree': top, 'selector': p, 'queries': [('select', [], 0)]})

    def make_cases(rng, n):
        # Forms nested in forms with same-named radios at every level: n/12 cases ON TOP of the n of the other generators, drawn
        # from a stream of their own (derived from the run's seed without drawing from `rng`)
        rng2 = random.Random('C17 forms in forms %r' % (rng.getstate()[1][:4],))
        cases = []
        while len(cases) < n // 12:
            kind, top = nested_radio_doc(rng2, state)
            emit(rng2, kind, top, cases, nested=True)
        cases = cases[:n // 12]
        n += len(cases)
        while len(cases) < n:
            framed = rng.random() < 0.3
            if framed:
                kind, top = frame_doc(rng, state)
            else:
                kind, top = gen.gen_state_doc(rng)
            if kind in ('xml',):
                kind = 'html'
            if kind == 'xhtml':
                kind = 'html5'
            if not framed and rng.random() < 0.4:
                top = foreignize(rng, top)
                if rng.random() < 0.6:
                    top, _ = inject(top, foreign_form(rng))
                state['foreignized'] = state.get('foreignized', 0) + 1
            emit(rng, kind, top, cases)
        return cases[:n]
    return make_cases


def run(chk):
    state = {'checks': 0, 'bad': []}
    orig = chk.finish

    def finish(**kw):
        chk.coverage.update({'law_documents': state['checks'], 'law_violations': len(state['bad']),
                             'xhtml_parsed_as_xml_documents': state.get('xhtml_as_xml', 0),
                             'trees_with_controls_wrapped_in_svg_or_math': state.get('foreignized', 0),
                             'foreign_namespace_submit_controls_and_checked_inputs_seen': state.get('foreign_controls', 0),
                             'checked_named_inputs_whose_type_is_radio_in_other_letter_case': state.get('radios_other_case', 0),
                             'forms_holding_an_iframe_at_a_walk_boundary': state.get('frame_forms', 0),
                             'iframe_is_last_child_by_wrapper_depth': {k[len('frame_last_child_depth_'):]: v for k, v in sorted(state.items())
                                                                       if k.startswith('frame_last_child_depth_')},
                             'embedded_document_ends_in': {k[len('frame_tail_'):]: v for k, v in sorted(state.items()) if k.startswith('frame_tail_')},
                             'documents_of_forms_nested_in_forms_with_same_named_radios_at_every_level': state.get('nested_radio_docs', 0),
                             'levels_owning_a_checked_member_drawn_as': {k[len('nested_plan_'):]: v for k, v in sorted(state.items())
                                                                         if k.startswith('nested_plan_')},
                             'unchecked_form_radios_without_checked_member_but_checked_namesake_in_a_form_nested_inside': state.get(
                                 'unchecked_radio_with_checked_namesake_in_nested_form', 0),
                             'unchecked_form_radios_without_checked_member_but_checked_namesake_in_an_enclosing_form': state.get(
                                 'unchecked_radio_with_checked_namesake_in_enclosing_form', 0),
                             'default_law_documents_skipped_for_same_document_nested_forms': state.get('nested_skipped', 0),
                             'radios_directly_under_iframe_not_judged': state.get('radios_directly_under_iframe_not_judged', 0)})
        for i, b in enumerate(state['bad'][:5]):
            chk.violation(f'law{i}', {'what': 'state pseudo-class law violated on the real code', **b}, concrete=True)
        return orig(**kw)
    chk.finish = finish
    return common_match.run(chk, PID, SOURCES, make_cases_factory(state), 1500, 60000, RULE,
                            'SoupVerif.Properties.C17 / correspondence PY select ≡ Model select (state pseudo-classes)')


def replay(chk, path):
    data = json.load(open(path))
    if 'law' not in data:
        return common_match.replay(chk, path, PID)
    # a law violation: rebuild the document and evaluate the laws on the real library again
    if 'markup' in data:
        soup = bs4.BeautifulSoup(data['markup'], data['parser'])
    else:
        soup = gen.build_doc(data['kind'], data['tree'])
    state = {'checks': 0, 'bad': []}
    laws(soup, state, {'nested_forms': has_nested_forms(soup)})
    print(json.dumps([b['law'] for b in state['bad']], ensure_ascii=False))
    if state['bad']:
        print(f'VIOLATION property={PID} replay={path}')
        return 1
    return 0
