"""C17: HTML state pseudo-classes follow their definitions and partition laws."""
import json
import random
import warnings

import bs4
import soupsieve as sv

import enc
import gen
from props import common_match

warnings.simplefilter('ignore')
PID = 'C17'
SOURCES = ['SoupVerif/Properties/C17.lean', 'SoupVerif/Lemmas/StateLawsShape.lean', 'SoupVerif/Lemmas/StateLawsSem.lean',
           'SoupVerif/Lemmas/StateLawsRel.lean', 'SoupVerif/Lemmas/StateLawsDir.lean', 'SoupVerif/Generated/Builtins.lean',
           'SoupVerif/Model/Match.lean']
RULE = ('HTML documents made of arbitrarily nested forms, fieldsets with 0-2 legends (controls inside the first / second legend), '
        'radio groups inside / outside forms with name collisions, option/optgroup, every input type, disabled / readonly / '
        'required / placeholder / contenteditable / dir (incl. auto with LTR / RTL / neutral text, bdi, textarea, tel) and '
        'iframes with inner documents; built through the API as html / html5 and serialised and re-parsed by html.parser, lxml '
        'and html5lib. Checked on PY: the partition laws (enabled/disabled, required/optional, read-write/read-only, '
        'in-range/out-of-range, link = any-link, checked ⊆ default, dir ltr xor rtl for rooted HTML elements), the '
        'first-submit and radio-group definitions against an independent reading, iframe locality; and PY = Lean matcher '
        'model for all thirteen pseudo-classes and :dir. Non-trivial = non-empty result.')

PSEUDOS = [':link', ':any-link', ':checked', ':default', ':indeterminate', ':disabled', ':enabled', ':required', ':optional',
           ':placeholder-shown', ':read-write', ':read-only', ':in-range', ':out-of-range', ':dir(ltr)', ':dir(rtl)']
CONTROLS = {'button', 'select', 'textarea', 'fieldset', 'optgroup', 'option'}


def laws(soup, state, info):
    els = gen.elements(soup)
    S = {p: {id(e) for e in sv.select(p, soup)} for p in PSEUDOS}
    bad = []

    def nm(e):
        return e.name.lower()

    def is_control(e):
        return nm(e) in CONTROLS or (nm(e) == 'input' and str(e.get('type', '')).lower() != 'hidden')
    allids = {id(e) for e in els}
    if S[':enabled'] & S[':disabled']:
        bad.append('enabled ∩ disabled ≠ ∅')
    if (S[':enabled'] | S[':disabled']) != {id(e) for e in els if is_control(e)}:
        bad.append('enabled ∪ disabled ≠ form controls')
    if S[':required'] & S[':optional'] or (S[':required'] | S[':optional']) != {id(e) for e in els if nm(e) in ('input', 'select', 'textarea')}:
        bad.append('required/optional do not partition input, select, textarea')
    if S[':read-write'] & S[':read-only'] or (S[':read-write'] | S[':read-only']) != allids:
        bad.append('read-write/read-only do not partition all elements')
    if S[':in-range'] & S[':out-of-range']:
        bad.append('in-range ∩ out-of-range ≠ ∅')
    if S[':link'] != S[':any-link']:
        bad.append(':link ≠ :any-link')
    if not S[':checked'] <= S[':default']:
        bad.append(':checked ⊄ :default')
    # dir: rooted HTML elements are exactly one of ltr / rtl
    root = next((c for c in soup.contents if isinstance(c, bs4.Tag)), None)
    for e in els:
        rooted = root is not None and (e is root or root in list(e.parents))
        if rooted and ((id(e) in S[':dir(ltr)']) == (id(e) in S[':dir(rtl)'])):
            bad.append(f'dir: element <{e.name}> is in both or neither of :dir(ltr) / :dir(rtl)')
            break
    # :default beyond :checked = first submit button of each form (same document: not across an iframe)
    def own_doc_ancestors(e):
        out = []
        for p in e.parents:
            if isinstance(p, bs4.BeautifulSoup) or nm(p) == 'iframe':
                break
            out.append(p)
        return out

    def form_of(e):
        return next((p for p in own_doc_ancestors(e) if nm(p) == 'form'), None)

    def walk(form):
        """descendants of form in order, not entering iframes; stops at a nested form (as the code documents)."""
        for c in form.contents:
            if isinstance(c, bs4.Tag):
                yield c
                if nm(c) != 'iframe':
                    yield from walk(c)
    want_default = set(S[':checked'])
    for f in [e for e in els if nm(e) == 'form']:
        for d in walk(f):
            if nm(d) == 'form':
                break
            if nm(d) in ('input', 'button') and str(d.get('type', '')).lower() == 'submit':
                want_default.add(id(d))
                break
    if S[':default'] != want_default and not info.get('nested_forms'):
        bad.append(':default ≠ :checked ∪ first submit button of each form')
    for b in bad:
        state['bad'].append({'law': b, **info})
    state['checks'] += 1


def has_nested_forms(soup):
    for f in soup.find_all('form'):
        if f.find('form') is not None:
            return True
    return False


def make_cases_factory(state):
    def make_cases(rng, n):
        cases = []
        while len(cases) < n:
            kind, top = gen.gen_state_doc(rng)
            if kind in ('xml',):
                kind = 'html'
            if kind == 'xhtml':
                kind = 'html5'
            variants = [('api', gen.build_doc(kind, top), {'kind': kind, 'tree': top})]
            if rng.random() < 0.5 and top and top[0][1] == 'html':
                body = gen.to_markup(top)
                for parser in ('html.parser', 'lxml', 'html5lib'):
                    try:
                        variants.append((parser, bs4.BeautifulSoup(body, parser), {'markup': body, 'parser': parser}))
                    except Exception:
                        pass
            for name, soup, src in variants:
                info = dict(src)
                info['nested_forms'] = has_nested_forms(soup)
                try:
                    laws(soup, state, info)
                except Exception as e:
                    state['bad'].append({'law': f'exception {e!r}', **info})
                for p in rng.sample(PSEUDOS, 5):
                    if 'markup' in src:
                        cases.append({'markup': src['markup'], 'parser': src['parser'], 'selector': p, 'queries': [('select', [], 0)]})
                    else:
                        cases.append({'kind': kind, 'tree': top, 'selector': p, 'queries': [('select', [], 0)]})
        return cases[:n]
    return make_cases


def run(chk):
    state = {'checks': 0, 'bad': []}
    orig = chk.finish

    def finish(**kw):
        chk.coverage.update({'law_documents': state['checks'], 'law_violations': len(state['bad'])})
        for i, b in enumerate(state['bad'][:5]):
            chk.violation(f'law{i}', {'what': 'state pseudo-class law violated on the real code', **b}, concrete=True)
        return orig(**kw)
    chk.finish = finish
    return common_match.run(chk, PID, SOURCES, make_cases_factory(state), 1500, 60000, RULE,
                            'SoupVerif.Properties.C17 / correspondence PY select ≡ Model select (state pseudo-classes)')


def replay(chk, path):
    return common_match.replay(chk, path, PID)
