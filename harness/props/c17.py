"""C17: HTML state pseudo-classes follow their definitions and partition laws."""
import json
import random
import warnings

import bs4
import soupsieve as sv

import enc
import gen
from props import common_match

warnings.simplefilter('ignore')
PID = 'C17'
SOURCES = ['SoupVerif/Properties/C17.lean', 'SoupVerif/Lemmas/StateLawsShape.lean', 'SoupVerif/Lemmas/StateLawsSem.lean',
           'SoupVerif/Lemmas/StateLawsRel.lean', 'SoupVerif/Lemmas/StateLawsDir.lean', 'SoupVerif/Generated/Builtins.lean',
           'SoupVerif/Model/Match.lean']
RULE = ('HTML documents made of arbitrarily nested forms, fieldsets with 0-2 legends (controls inside the first / second legend), '
        'radio groups inside / outside forms with name collisions, option/optgroup, every input type, disabled / readonly / '
        'required / placeholder / contenteditable / dir (incl. auto with LTR / RTL / neutral text, bdi, textarea, tel) and '
        'iframes with inner documents; built through the API as html / html5 and serialised and re-parsed by html.parser, lxml '
        'and html5lib. Checked on PY: the partition laws (enabled/disabled, required/optional, read-write/read-only, '
        'in-range/out-of-range, link = any-link, checked ⊆ default, dir ltr xor rtl for rooted HTML elements), the '
        'first-submit and radio-group definitions against an independent reading (:indeterminate = its definition, with "radio" '
        'being what input[type=radio] selects in the document kind), iframe locality; the same trees as XHTML parsed as XML '
        '(lxml-xml) with type="RADIO" / "Radio" on some checked inputs, where names and the type keyword are case-sensitive; submit '
        'controls and checked radios wrapped in <svg> / <math> (html5lib, XML, API-built with an XHTML root: SVG / MathML elements '
        'named input, no form controls -- the laws quantify over HTML elements); and PY = Lean matcher '
        'model for all thirteen pseudo-classes and :dir. Non-trivial = non-empty result.')

PSEUDOS = [':link', ':any-link', ':checked', ':default', ':indeterminate', ':disabled', ':enabled', ':required', ':optional',
           ':placeholder-shown', ':read-write', ':read-only', ':in-range', ':out-of-range', ':dir(ltr)', ':dir(rtl)']
CONTROLS = {'button', 'select', 'textarea', 'fieldset', 'optgroup', 'option'}


def laws(soup, state, info):
    els = gen.elements(soup)
    S = {p: {id(e) for e in sv.select(p, soup)} for p in PSEUDOS}
    bad = []
    # XHTML parsed as XML: element names, attribute names and the `type` keyword are compared exactly (what `html|input`,
    # `[checked]`, `[type="radio"]` select in that document kind); HTML: ASCII case-insensitively
    xml = bool(soup._is_xml)

    def nm(e):
        return e.name if xml else e.name.lower()

    def kw(v):
        v = v if isinstance(v, str) else ' '.join(v)
        return v if xml else v.lower()

    def attr(e, name):
        """The value of the attribute an attribute selector `[name]` designates (None: there is none)."""
        for k, v in e.attrs.items():
            if (str(k) if xml else str(k).lower()) == name:
                return v if isinstance(v, str) else ' '.join(v)
        return None

    # Only HTML elements have states: with namespace support (XML, html5lib, an XHTML-namespace root) an <input> inside <svg> /
    # <math> is an SVG / MathML element named `input`, not a form control
    root0 = next((c for c in soup.contents if isinstance(c, bs4.Tag)), None)
    supports_ns = xml or (root0 is not None and root0.namespace == gen.XHTML)

    def is_html(e):
        return not supports_ns or e.namespace == gen.XHTML
    state['foreign_controls'] = state.get('foreign_controls', 0) + sum(
        1 for e in els if not is_html(e) and nm(e) in ('input', 'button') and (attr(e, 'checked') is not None or kw(e.get('type', '')) == 'submit'))

    def is_control(e):
        return is_html(e) and (nm(e) in CONTROLS or (nm(e) == 'input' and kw(e.get('type', '')) != 'hidden'))
    allids = {id(e) for e in els if is_html(e)}
    if S[':enabled'] & S[':disabled']:
        bad.append('enabled ∩ disabled ≠ ∅')
    if (S[':enabled'] | S[':disabled']) != {id(e) for e in els if is_control(e)}:
        bad.append('enabled ∪ disabled ≠ form controls')
    if S[':required'] & S[':optional'] or (S[':required'] | S[':optional']) != {id(e) for e in els if is_html(e) and nm(e) in ('input', 'select', 'textarea')}:
        bad.append('required/optional do not partition input, select, textarea')
    if S[':read-write'] & S[':read-only'] or (S[':read-write'] | S[':read-only']) != allids:
        bad.append('read-write/read-only do not partition all (HTML) elements')
    if S[':in-range'] & S[':out-of-range']:
        bad.append('in-range ∩ out-of-range ≠ ∅')
    if S[':link'] != S[':any-link']:
        bad.append(':link ≠ :any-link')
    if not S[':checked'] <= S[':default']:
        bad.append(':checked ⊄ :default')
    # dir: rooted HTML elements are exactly one of ltr / rtl
    root = next((c for c in soup.contents if isinstance(c, bs4.Tag)), None)
    for e in els:
        rooted = root is not None and (e is root or root in list(e.parents))
        if rooted and is_html(e) and ((id(e) in S[':dir(ltr)']) == (id(e) in S[':dir(rtl)'])):
            bad.append(f'dir: element <{e.name}> is in both or neither of :dir(ltr) / :dir(rtl)')
            break
    # :default beyond :checked = first submit button of each form (same document: not across an iframe)
    def own_doc_ancestors(e):
        out = []
        for p in e.parents:
            if isinstance(p, bs4.BeautifulSoup) or nm(p) == 'iframe':
                break
            out.append(p)
        return out

    def form_of(e):
        return next((p for p in own_doc_ancestors(e) if nm(p) == 'form' and is_html(p)), None)

    def walk(form):
        """descendants of form in order, not entering iframes; stops at a nested form (as the code documents)."""
        for c in form.contents:
            if isinstance(c, bs4.Tag):
                yield c
                if nm(c) != 'iframe':
                    yield from walk(c)
    want_default = set(S[':checked'])
    for f in [e for e in els if nm(e) == 'form' and is_html(e)]:
        for d in walk(f):
            if nm(d) == 'form':
                break
            if is_html(d) and nm(d) in ('input', 'button') and kw(d.get('type', '')) == 'submit':
                want_default.add(id(d))
                break
    if S[':default'] != want_default and not info.get('nested_forms'):
        bad.append(':default ≠ :checked ∪ first submit button of each form')
    # :indeterminate = checkboxes carrying `indeterminate`, `progress` without `value`, and UNCHECKED radio buttons that have no
    # (or an empty) name or whose group has no checked member.  Group of a radio: the radios with the same name owned by the same
    # form, or -- outside any form -- by the same document (never across an iframe boundary).  "Radio" is what
    # `input[type=radio]` selects in this document kind: the keyword compared exactly in XML, case-insensitively in HTML.
    def is_radio(e):
        return is_html(e) and nm(e) == 'input' and attr(e, 'type') is not None and kw(attr(e, 'type')) == 'radio'

    def owner(e):
        anc = own_doc_ancestors(e)
        f = next((p for p in anc if nm(p) == 'form' and is_html(p)), None)
        if f is not None:
            return f
        if anc:
            top = anc[-1]
            return top.parent if isinstance(top.parent, bs4.BeautifulSoup) else top
        return e.parent
    radios = [e for e in els if is_radio(e)]
    want_ind = set()
    for e in els:
        if not is_html(e):
            continue
        if nm(e) == 'input' and attr(e, 'type') is not None and kw(attr(e, 'type')) == 'checkbox' and attr(e, 'indeterminate') is not None:
            want_ind.add(id(e))
        elif nm(e) == 'progress' and attr(e, 'value') is None:
            want_ind.add(id(e))
        elif is_radio(e) and attr(e, 'checked') is None:
            name = attr(e, 'name')
            if not name:
                want_ind.add(id(e))
                continue
            own = owner(e)
            if not any(r is not e and attr(r, 'checked') is not None and attr(r, 'name') == name and owner(r) is own for r in radios):
                want_ind.add(id(e))
    state['radios_other_case'] = state.get('radios_other_case', 0) + sum(
        1 for e in els if nm(e) == 'input' and attr(e, 'type') is not None and attr(e, 'type') != 'radio' and attr(e, 'type').lower() == 'radio'
        and attr(e, 'checked') is not None and attr(e, 'name'))
    if S[':indeterminate'] != want_ind:
        pos = {id(e): n for n, e in enumerate(els)}
        bad.append(':indeterminate ≠ its definition (unchecked radios whose group has no checked member, …): got '
                   f'{sorted(pos[i] for i in S[":indeterminate"])}, want {sorted(pos[i] for i in want_ind)}')
    for b in bad:
        state['bad'].append({'law': b, **info})
    state['checks'] += 1


def has_nested_forms(soup):
    for f in soup.find_all('form'):
        if f.find('form') is not None:
            return True
    return False


def recase_radios(rng, nodes):
    """`type="radio"` in other letter case (RADIO, Radio) on some radios -- in XML these are NOT radio buttons."""
    out = []
    for n in nodes:
        if n[0] == 'e':
            _, name, prefix, ns, attrs, kids = n
            keys = {k for k, _ in attrs}
            # a CHECKED, named one is what matters: in XML it must not count as a checked member of its group
            if name == 'input' and rng.random() < (0.7 if {'checked', 'name'} <= keys else 0.2):
                attrs = [(k, rng.choice(['RADIO', 'Radio', 'rADIO']) if k == 'type' and v == 'radio' else v) for k, v in attrs]
            n = ('e', name, prefix, ns, attrs, recase_radios(rng, kids))
        out.append(n)
    return out


FOREIGN = [('svg', gen.SVG), ('math', 'http://www.w3.org/1998/Math/MathML')]


def foreignize(rng, nodes, inside_form=False):
    """Wrap some controls in <svg> / <math>: under html5lib (and in XML, and in API-built trees with an XHTML root) the wrapped
    <input> / <button> is an SVG / MathML element -- no form control: never the form's default button, never a member of a radio
    group.  Submit controls and checked radios inside forms are what the scans of :default / :indeterminate could mistake."""
    out = []
    for n in nodes:
        if n[0] == 'e':
            _, name, prefix, ns, attrs, kids = n
            d = dict((k, v) for k, v in attrs if isinstance(k, str))
            hot = name in ('input', 'button') and (str(d.get('type', '')).lower() == 'submit' or ('checked' in d and str(d.get('type', '')).lower() == 'radio'))
            if name in ('input', 'button') and not kids and rng.random() < (0.55 if hot else 0.08):
                wname, wns = rng.choice(FOREIGN)
                out.append(('e', wname, None, wns, [('xmlns', wns)], [('e', name, None, wns, attrs, kids)]))
                if hot and rng.random() < 0.6:
                    # its HTML twin right behind it: the real first submit button / an unchecked real radio of the same group
                    out.append(('e', name, prefix, ns, [(k, v) for k, v in attrs if k != 'checked'], kids))
                continue
            n = ('e', name, prefix, ns, attrs, foreignize(rng, kids, inside_form or name == 'form') if name != 'iframe' else kids)
        out.append(n)
    return out


def foreign_form(rng):
    """A form whose FIRST submit control and whose CHECKED radio are SVG / MathML elements, next to the real ones."""
    def wrap(n):
        wname, wns = rng.choice(FOREIGN)
        return ('e', wname, None, wns, [('xmlns', wns)], [('e', n[1], None, wns, n[4], n[5])])
    g = rng.choice(['g1', 'g2', 'g7'])
    sub = lambda: ('e', rng.choice(['input', 'button']), None, None, [('type', 'submit')], [])      # noqa: E731
    radio = lambda c: ('e', 'input', None, None, [('type', 'radio'), ('name', g)] + ([('checked', '')] if c else []), [])      # noqa: E731
    kids = []
    if rng.random() < 0.7:
        kids += [wrap(sub()), sub()] + ([sub()] if rng.random() < 0.3 else [])
    if rng.random() < 0.7 or not kids:
        rs = [wrap(radio(True)), radio(False)] + ([radio(False)] if rng.random() < 0.4 else [])
        rng.shuffle(rs)
        kids += rs
    return ('e', 'form' if rng.random() < 0.8 else 'div', None, None, [], kids)


def inject(nodes, extra):
    """Append `extra` to the children of the first <div> (depth first); -> (nodes, done)."""
    out, done = [], False
    for n in nodes:
        if not done and n[0] == 'e' and n[1] != 'iframe':
            _, name, prefix, ns, attrs, kids = n
            if name == 'div':
                n, done = ('e', name, prefix, ns, attrs, list(kids) + [extra]), True
            else:
                k2, done = inject(kids, extra)
                n = ('e', name, prefix, ns, attrs, k2)
        out.append(n)
    return out, done


def xhtml_markup(rng, top):
    if not (top and top[0][0] == 'e' and top[0][1] == 'html'):
        top = [('e', 'html', None, None, [], [('e', 'head', None, None, [], []), ('e', 'body', None, None, [], top)])]
    top = recase_radios(rng, top)
    _, name, prefix, ns, attrs, kids = top[0]
    root = ('e', name, prefix, ns, [('xmlns', gen.XHTML)] + [a for a in attrs if a[0] != 'xmlns'], kids)
    return '<?xml version="1.0"?>' + gen.to_markup([root] + list(top[1:]), xml=True)


def make_cases_factory(state):
    def make_cases(rng, n):
        cases = []
        while len(cases) < n:
            kind, top = gen.gen_state_doc(rng)
            if kind in ('xml',):
                kind = 'html'
            if kind == 'xhtml':
                kind = 'html5'
            if rng.random() < 0.4:
                top = foreignize(rng, top)
                if rng.random() < 0.6:
                    top, _ = inject(top, foreign_form(rng))
                state['foreignized'] = state.get('foreignized', 0) + 1
            variants = [('api', gen.build_doc(kind, top), {'kind': kind, 'tree': top})]
            if rng.random() < 0.5 and top and top[0][1] == 'html':
                body = gen.to_markup(top)
                for parser in ('html.parser', 'lxml', 'html5lib'):
                    try:
                        variants.append((parser, bs4.BeautifulSoup(body, parser), {'markup': body, 'parser': parser}))
                    except Exception:
                        pass
            if rng.random() < 0.45:
                # the same tree as XHTML parsed as XML (lxml-xml): names and the `type` keyword are case-sensitive there
                xm = xhtml_markup(rng, top)
                try:
                    variants.append(('xhtml-as-xml', bs4.BeautifulSoup(xm, 'xml'), {'markup': xm, 'parser': 'xml'}))
                    state['xhtml_as_xml'] = state.get('xhtml_as_xml', 0) + 1
                except Exception:
                    pass
            for name, soup, src in variants:
                info = dict(src)
                info['nested_forms'] = has_nested_forms(soup)
                try:
                    laws(soup, state, info)
                except Exception as e:
                    state['bad'].append({'law': f'exception {e!r}', **info})
                for p in rng.sample(PSEUDOS, 5):
                    if 'markup' in src:
                        cases.append({'markup': src['markup'], 'parser': src['parser'], 'selector': p, 'queries': [('select', [], 0)]})
                    else:
                        cases.append({'kind': kind, 'tree': top, 'selector': p, 'queries': [('select', [], 0)]})
        return cases[:n]
    return make_cases


def run(chk):
    state = {'checks': 0, 'bad': []}
    orig = chk.finish

    def finish(**kw):
        chk.coverage.update({'law_documents': state['checks'], 'law_violations': len(state['bad']),
                             'xhtml_parsed_as_xml_documents': state.get('xhtml_as_xml', 0),
                             'trees_with_controls_wrapped_in_svg_or_math': state.get('foreignized', 0),
                             'foreign_namespace_submit_controls_and_checked_inputs_seen': state.get('foreign_controls', 0),
                             'checked_named_inputs_whose_type_is_radio_in_other_letter_case': state.get('radios_other_case', 0)})
        for i, b in enumerate(state['bad'][:5]):
            chk.violation(f'law{i}', {'what': 'state pseudo-class law violated on the real code', **b}, concrete=True)
        return orig(**kw)
    chk.finish = finish
    return common_match.run(chk, PID, SOURCES, make_cases_factory(state), 1500, 60000, RULE,
                            'SoupVerif.Properties.C17 / correspondence PY select ≡ Model select (state pseudo-classes)')


def replay(chk, path):
    data = json.load(open(path))
    if 'law' not in data:
        return common_match.replay(chk, path, PID)
    # a law violation: rebuild the document and evaluate the laws on the real library again
    if 'markup' in data:
        soup = bs4.BeautifulSoup(data['markup'], data['parser'])
    else:
        soup = gen.build_doc(data['kind'], data['tree'])
    state = {'checks': 0, 'bad': []}
    laws(soup, state, {'nested_forms': has_nested_forms(soup)})
    print(json.dumps([b['law'] for b in state['bad']], ensure_ascii=False))
    if state['bad']:
        print(f'VIOLATION property={PID} replay={path}')
        return 1
    return 0
