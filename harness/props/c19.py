"""C19: text pseudo-classes see exactly the character data CSS/HTML count as content."""
import json
import random
import re
import warnings
from collections import Counter

import bs4
import soupsieve as sv

import enc
import gen
import matchcorr
from props import common_match

warnings.simplefilter('ignore')
PID = 'C19'
SOURCES = ['SoupVerif/Properties/C19.lean', 'SoupVerif/Spec/Text.lean', 'SoupVerif/Model/TextWalk.lean', 'SoupVerif/Lemmas/Text.lean',
           'SoupVerif/Model/Match.lean', 'SoupVerif/Properties/C19Gen.lean', 'SoupVerif/Properties/C19GenRoot.lean', 'SoupVerif/Model/PyFlagLoop.lean', 'SoupVerif/Generated/PyTextFn.lean']
RULE = ('(1) API-built trees with every interleaving of text, comment, CDATA, processing-instruction, doctype, declaration and element '
        'nodes at any depth (parsers cannot produce all of them everywhere), including the SUBCLASSES of the string node classes '
        '(XMLProcessingInstruction, Script, Stylesheet, TemplateString, Ruby*String, application-defined subclasses of each markup '
        'class and of NavigableString), nested iframes, as html / html5 / xhtml / xml; (2) the same kind of trees serialised to '
        'markup and PARSED by lxml-xml (plain XML and XHTML; comments, CDATA sections and processing instructions inside '
        'elements), html.parser, lxml and html5lib (script / style / template / ruby / textarea / iframe content, PIs, CDATA, '
        'declarations, doctypes inside elements). Search strings that span node boundaries, are empty, occur only inside special '
        'nodes, contain quotes / commas / escapes; :-soup-contains, :-soup-contains-own, :contains, both in one compound, and '
        ':empty. Checked on PY against an independent structural text extraction over the tree (the property: a string node is '
        'text unless it is a comment, CDATA, PI, declaration or doctype, by class membership), for XML parses additionally '
        'against an extraction from the SOURCE tree that was serialised (no bs4 class consulted), and PY = Lean matcher model. '
        'Non-trivial = non-empty result.')

WORDS = ['ab', 'a', 'b', 'x y', '', ' ', 'zz', 'a"b', "c'd", 'p,q', '\n', 'b a',
         # blank for CSS (space, tab, LF, FF, CR) vs blank only for Python's str.strip / \s: the latter is content
         '\t\r\f', '\xa0', '\u2003', '\u3000', '\x0b', '\x1c', '\x85', '\u2028', ' \xa0 ']
# what an XML document can carry unchanged (no C0 controls but tab / LF; CR would be normalised to LF)
XML_WORDS = [w for w in WORDS if all(ch in '\t\n' or ord(ch) >= 0x20 for ch in w)] + [' \t\n']
KINDS = ['t', 't', 't', 'c', 'cd', 'pi', 'dt', 'dc']
# API-built trees: the base classes and their subclasses (parser-created and application-defined)
API_KINDS = ['t', 't', 't', 't', 'ut', 'sc', 'st', 'tp', 'rts', 'rps',
             'c', 'cd', 'pi', 'dt', 'dc', 'xpi', 'xpi', 'uc', 'ucd', 'upi', 'udt', 'udc']
XML_KINDS = ['t', 't', 't', 'c', 'cd', 'pi', 'pi']                  # what may stand inside an element in XML markup
NAMES = ['div', 'p', 'span', 'iframe', 'IFRAME', 'b']
HTML_NAMES = ['div', 'p', 'span', 'b', 'iframe', 'script', 'style', 'template', 'ruby', 'rt', 'rp', 'textarea', 'pre']
MARKUP_CLASSES = (bs4.Comment, bs4.CData, bs4.ProcessingInstruction, bs4.Declaration, bs4.Doctype)   # the property's list


def tree(r, depth=0, kinds=KINDS, words=WORDS, names=NAMES):
    kids = []
    for _ in range(r.randint(0, 4) if depth else r.randint(1, 4)):
        x = r.random()
        if x < 0.45:
            kids.append((r.choice(kinds), r.choice(words)))
        elif depth < 3:
            kids.append(tree(r, depth + 1, kinds, words, names))
    name = r.choice(names)
    return ('e', name, None, None, [], kids)


def chain_tree(r, kinds=None, words=WORDS):
    """An iframe that ends a chain of last children k levels deep, with text following further up: where the walk resumes
    after a skipped iframe is decided by what follows it in document order, at any distance."""
    kinds = kinds or API_KINDS
    inner = ('e', r.choice(['iframe', 'IFRAME']), None, None, [], r.choice([[], [('t', 'zz')], [('e', 'p', None, None, [], [('t', 'ab')])]]))
    node = inner
    for _ in range(r.randint(0, 3)):
        before = [(r.choice(kinds), r.choice(words)) for _ in range(r.randint(0, 2))]
        node = ('e', r.choice(['div', 'p', 'span', 'b']), None, None, [], before + [node])
    after = [r.choice([('t', r.choice(['ab', 'b', 'zz', 'x y'])), ('e', 'span', None, None, [], [('t', r.choice(['ab', 'a', 'zz']))]),
                       ('c', 'ab')]) for _ in range(r.randint(0, 2))]
    return ('e', 'div', None, None, [], [(r.choice(kinds), r.choice(words)) for _ in range(r.randint(0, 1))] + [node] + after)


# ---------------------------------------------------------------------------------------------
# markup: the abstract tree written out for a parser
# ---------------------------------------------------------------------------------------------
def xml_markup(nodes):
    out = []
    for n in nodes:
        if n[0] == 'e':
            inner = xml_markup(n[5])
            out.append(f'<{n[1]}>{inner}</{n[1]}>' if inner else f'<{n[1]}/>')
        elif n[0] == 't':
            out.append(gen.esc_text(n[1]))
        elif n[0] == 'c':
            out.append('<!--' + n[1] + '-->')
        elif n[0] == 'cd':
            out.append('<![CDATA[' + n[1] + ']]>')
        elif n[0] == 'pi':
            # the word is the target when it can be one (so that text + PI can spell a search string), else the data
            out.append('<?' + (n[1] if re.fullmatch('[a-z]+', n[1]) else 'k ' + n[1]) + '?>')
        else:
            raise ValueError(n[0])
    return ''.join(out)


def html_markup(nodes):
    out = []
    for n in nodes:
        if n[0] == 'e':
            out.append(f'<{n[1]}>{html_markup(n[5])}</{n[1]}>')
        elif n[0] == 't':
            out.append(gen.esc_text(n[1]))
        elif n[0] == 'c':
            out.append('<!--' + n[1] + '-->')
        elif n[0] == 'cd':
            out.append('<![CDATA[' + n[1] + ']]>')
        elif n[0] == 'pi':
            out.append('<?' + n[1] + '>')
        elif n[0] == 'dt':
            out.append('<!DOCTYPE ' + n[1] + '>')
        elif n[0] == 'dc':
            out.append('<![k ' + n[1] + ']>')
        else:
            raise ValueError(n[0])
    return ''.join(out)


def E(name, kids):
    return ('e', name, None, None, [], kids)


def parsed_doc(r, target):
    """(markup, parser, source tree or None).  The source tree is returned when the parse is faithful (XML)."""
    if target in ('xml', 'xhtml'):
        body = [chain_tree(r, XML_KINDS, XML_WORDS) if r.random() < 0.25 else tree(r, 0, XML_KINDS, XML_WORDS, NAMES)
                for _ in range(r.choice([1, 1, 2]))]
        if r.random() < 0.3:
            body.insert(r.randint(0, len(body)), (r.choice(XML_KINDS), r.choice(XML_WORDS)))
        prolog = '<?xml version="1.0"?>' + r.choice(['', '', '<?xml-stylesheet href="ab"?>', '<!--ab-->'])
        if target == 'xml':
            src = [E('root', body)]
            return prolog + xml_markup(src) + r.choice(['', '', '<?ab zz?>']), 'xml', src
        src = [E('html', [E('head', []), E('body', body)])]
        m = xml_markup(src).replace('<html>', f'<html xmlns="{gen.XHTML}">', 1)
        return prolog + m, 'xml', src
    body = [chain_tree(r, KINDS, WORDS) if r.random() < 0.25 else tree(r, 0, KINDS, WORDS, HTML_NAMES)
            for _ in range(r.choice([1, 1, 2]))]
    if r.random() < 0.3:
        body.insert(r.randint(0, len(body)), (r.choice(KINDS), r.choice(WORDS)))
    return f'<!DOCTYPE html><html><head></head><body>{html_markup(body)}</body></html>', target, None


# ---------------------------------------------------------------------------------------------
# the property, evaluated over a "view" of a tree: children are ('e', node) | ('t', string) | ('x', None)
# ---------------------------------------------------------------------------------------------
class TreeView:
    """The bs4 tree itself: a string node is text unless it belongs to one of the five markup classes."""
    @staticmethod
    def name(n):
        return n.name

    @staticmethod
    def kids(n):
        out = []
        for c in n.contents:
            if isinstance(c, bs4.Tag):
                out.append(('e', c))
            elif isinstance(c, bs4.NavigableString) and not isinstance(c, MARKUP_CLASSES):
                out.append(('t', str(c)))
            else:
                out.append(('x', None))
        return out


class SourceView:
    """The source tree that was written out as XML: character data and CDATA sections are the text, comments and PIs are
    not.  No bs4 class is consulted.  What Beautiful Soup's tree building does with character data is followed: adjacent
    pieces (text, CDATA sections) arrive as one text node, an empty text piece not at all, and a node made only of ASCII
    white space is stored as a single LF (if it has one) or a single space (BeautifulSoup.endData)."""
    @staticmethod
    def name(n):
        return n[1]

    @staticmethod
    def kids(n):
        out = []
        run = None

        def flush():
            if run is not None:
                t = ''.join(run)
                if all(ch in ' \t\n\f\r' for ch in t):
                    t = '\n' if '\n' in t else ' '
                out.append(('t', t))
        for c in n[5]:
            if c[0] in ('t', 'cd'):
                if c[0] == 'cd' or c[1] != '':
                    run = (run or []) + [c[1]]
                continue
            flush()
            run = None
            out.append(('e', c) if c[0] == 'e' else ('x', None))
        flush()
        return out

    @classmethod
    def elements(cls, nodes):
        out = []
        for n in nodes:
            if n[0] == 'e':
                out.append(n)
                out.extend(cls.elements(n[5]))
        return out


class Oracle:
    def __init__(self, view, xml, is_html):
        self.view, self.xml, self.is_html = view, xml, is_html

    def is_iframe(self, n):
        # HTML namespace: every element when there is no namespace support, the XHTML namespace otherwise (all generated
        # elements of html5 / xhtml documents are in it)
        name = self.view.name(n)
        return self.is_html and (name if self.xml else name.lower()) == 'iframe'

    def text(self, n):
        """Concatenation of the text nodes among the descendants in document order, not entering iframes in HTML."""
        if self.is_iframe(n):
            return ''
        return ''.join(self.text(c) if k == 'e' else c if k == 't' else '' for k, c in self.view.kids(n))

    def own(self, n):
        return [] if self.is_iframe(n) else [c for k, c in self.view.kids(n) if k == 't']

    def empty(self, n):
        return not any(k == 'e' or (k == 't' and any(ch not in ' \t\r\n\f' for ch in c)) for k, c in self.view.kids(n))

    def holds(self, n, q):
        form, ws, w2 = q['form'], q['ws'], q.get('w2')
        if form in ('c', 'alias'):
            t = self.text(n)
            return any(w in t for w in ws)
        if form == 'own':
            return any(w in t for w in ws for t in self.own(n))
        if form in ('both', 'both2'):
            t = self.text(n)
            return any(w in t for w in ws) and any(w2 in t for t in self.own(n))
        return self.empty(n)


def selector_of(q):
    lst = ', '.join(gen.q(w) for w in q['ws'])
    form = q['form']
    if form == 'c':
        return f':-soup-contains({lst})'
    if form == 'alias':
        return f':contains({lst})'
    if form == 'own':
        return f':-soup-contains-own({lst})'
    if form in ('both', 'both2'):
        a, b = f':-soup-contains({lst})', f':-soup-contains-own({gen.q(q["w2"])})'
        return a + b if form == 'both' else b + a
    return ':empty'


def html_semantics(kind):
    return kind != 'xml' and kind != 'parsed:xml'


def judge(soup, case):
    """Evaluate the property on one case.  Returns a list of problem descriptions (empty = holds)."""
    q, kind = case['oracle'], case['kind']
    xml = bool(soup._is_xml)
    els = gen.elements(soup)
    problems = []
    try:
        got = [id(e) for e in sv.select(case['selector'], soup)]
    except Exception as e:
        return [{'exception': repr(e)}], els, None
    o = Oracle(TreeView, xml, html_semantics(kind))
    want = [id(e) for e in els if o.holds(e, q)]
    if got != want:
        pos = {id(e): i for i, e in enumerate(els)}
        problems.append({'oracle': 'tree', 'got_elements': [pos.get(i) for i in got], 'want_elements': [pos[i] for i in want]})
    if case.get('source'):
        src_els = SourceView.elements(matchcorr._untuple(case['source']))
        if len(src_els) == len(els) and all(a[1] == b.name for a, b in zip(src_els, els)):
            so = Oracle(SourceView, xml, html_semantics(kind))
            swant = [id(e) for s, e in zip(src_els, els) if so.holds(s, q)]
            if got != swant:
                pos = {id(e): i for i, e in enumerate(els)}
                problems.append({'oracle': 'source', 'got_elements': [pos.get(i) for i in got], 'want_elements': [pos[i] for i in swant]})
        else:
            problems.append(None)       # the parse is not the tree that was written: counted, the source oracle is not applied
    return problems, els, want


def doc_words(soup):
    """Search strings taken from the document: a string node (text or markup) or a piece of one, and the two characters
    on either side of a boundary between consecutive string nodes in document order."""
    strs = [str(d) for d in soup.descendants if isinstance(d, bs4.NavigableString) and str(d)]
    out = []
    for i, t in enumerate(strs):
        out.append(t if len(t) <= 6 else t[:3])
        out.append(t[-2:])
        if i + 1 < len(strs):
            out.append(t[-1] + strs[i + 1][0])
    return out


def make_cases_factory(state):
    def make_cases(rng, n):
        cases = []
        while len(cases) < n:
            if rng.random() < 0.5:
                kind = rng.choice(['html', 'html5', 'xhtml', 'xml'])
                top = [chain_tree(rng) if rng.random() < 0.25 else tree(rng, 0, API_KINDS)]
                base = {'kind': kind, 'tree': top}
            else:
                target = rng.choice(['xml', 'xml', 'xhtml', 'xhtml', 'html.parser', 'lxml', 'html5lib'])
                markup, parser, src = parsed_doc(rng, target)
                base = {'kind': 'parsed:' + target, 'markup': markup, 'parser': parser}
                if src is not None:
                    base['source'] = src
            try:
                soup = matchcorr.materialise(base)
            except bs4.exceptions.ParserRejectedMarkup:
                state['rejected_markup'] += 1
                continue
            state['docs'][base['kind']] += 1
            for d in soup.descendants:
                if not isinstance(d, bs4.Tag):
                    state['classes'][type(d).__name__] += 1
            local = doc_words(soup)
            for _ in range(4):
                def word():
                    return rng.choice(local) if local and rng.random() < 0.5 else rng.choice(WORDS)
                ws = [word() for _ in range(rng.randint(1, 2))]
                q = {'form': rng.choice(['c', 'own', 'alias', 'both', 'both2', 'empty']), 'ws': ws[:1] + [w for w in ws[1:] if w != ws[0]]}
                if q['form'] in ('both', 'both2'):
                    q['w2'] = word()
                case = dict(base, selector=selector_of(q), oracle=q, queries=[('select', [], 0)])
                state['checks'] += 1
                problems, els, want = judge(soup, case)
                if 'source' in case:
                    state['src_skipped' if None in problems else 'src_checks'] += 1
                problems = [p for p in problems if p is not None]
                if want is not None and q['form'] != 'empty':
                    # would the answer differ if every string node counted as text?  (the instances that tell the node kinds apart)
                    lo = Oracle(AllStringsView, bool(soup._is_xml), html_semantics(case['kind']))
                    if want != [id(e) for e in els if lo.holds(e, q)]:
                        state['kind_sensitive'] += 1
                for p in problems:
                    state['bad'].append({'case': case, **p})
                cases.append(case)
        return cases[:n]
    return make_cases


class AllStringsView(TreeView):
    """Not the property: every string node taken as text.  Only used to count how many instances depend on the node kind."""
    @staticmethod
    def kids(n):
        return [('e', c) if isinstance(c, bs4.Tag) else ('t', str(c)) for c in n.contents]


def run(chk):
    state = {'checks': 0, 'bad': [], 'docs': Counter(), 'classes': Counter(), 'src_checks': 0, 'src_skipped': 0, 'kind_sensitive': 0, 'rejected_markup': 0}
    orig = chk.finish

    def finish(**kw):
        chk.coverage.update({'oracle_instances': state['checks'], 'oracle_violations': len(state['bad']),
                             'oracle_violations_by_origin': dict(Counter(b['case']['kind'] + '/' + b.get('oracle', 'exception')
                                                                         for b in state['bad'])),
                             'oracle_documents_by_origin': dict(state['docs']),
                             'string_node_classes_in_documents': dict(state['classes'].most_common()),
                             'source_oracle_instances': state['src_checks'],
                             'source_oracle_not_applicable': state['src_skipped'],
                             'markup_rejected_by_parser': state['rejected_markup'],
                             'instances_whose_answer_depends_on_node_kind': state['kind_sensitive']})
        for i, b in enumerate(state['bad'][:5]):
            chk.violation(f'text{i}', {'what': 'text pseudo-class differs from the structural definition of content', **b,
                                       'replay_with': f'bin/check {PID} --replay <this file>'}, concrete=True)
        return orig(**kw)
    chk.finish = finish
    return common_match.run(chk, PID, SOURCES, make_cases_factory(state), 1600, 80000, RULE,
                            'SoupVerif.Properties.C19 / correspondence PY select ≡ Model select (text pseudo-classes)')


def replay(chk, path):
    rc = common_match.replay(chk, path, PID)
    case = json.load(open(path))['case']
    if 'oracle' in case and 'kind' in case:
        problems, _, _ = judge(matchcorr.materialise(case), case)
        problems = [p for p in problems if p is not None]
        print(json.dumps({'property_oracle': problems or 'holds'}, default=repr))
        if problems:
            if rc == 0:
                print(f'VIOLATION property={PID} replay={path}')
            rc = 1
    return rc
