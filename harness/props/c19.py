"""C19: text pseudo-classes see exactly the character data CSS/HTML count as content."""
import json
import random
import warnings

import bs4
import soupsieve as sv

import enc
import gen
from props import common_match

warnings.simplefilter('ignore')
PID = 'C19'
SOURCES = ['SoupVerif/Properties/C19.lean', 'SoupVerif/Spec/Text.lean', 'SoupVerif/Model/TextWalk.lean', 'SoupVerif/Lemmas/Text.lean',
           'SoupVerif/Model/Match.lean']
RULE = ('API-built trees with every interleaving of text, comment, CDATA, processing-instruction, doctype, declaration and element '
        'nodes at any depth (parsers cannot produce all of them everywhere), nested iframes, as html / html5 / xhtml / xml; '
        'search strings that span node boundaries, are empty, occur only inside special nodes, contain quotes / commas / '
        'escapes; :-soup-contains, :-soup-contains-own, :contains, both in one compound, and :empty. Checked on PY against '
        'an independent structural text extraction (the property) and PY = Lean matcher model. Non-trivial = non-empty result.')

WORDS = ['ab', 'a', 'b', 'x y', '', ' ', 'zz', 'a"b', "c'd", 'p,q', '\n', 'b a',
         # blank for CSS (space, tab, LF, FF, CR) vs blank only for Python's str.strip / \s: the latter is content
         '\t\r\f', '\xa0', '\u2003', '\u3000', '\x0b', '\x1c', '\x85', '\u2028', ' \xa0 ']
KINDS = ['t', 't', 't', 'c', 'cd', 'pi', 'dt', 'dc']


def tree(r, depth=0):
    kids = []
    for _ in range(r.randint(0, 4) if depth else r.randint(1, 4)):
        x = r.random()
        if x < 0.45:
            kids.append((r.choice(KINDS), r.choice(WORDS)))
        elif depth < 3:
            kids.append(tree(r, depth + 1))
    name = r.choice(['div', 'p', 'span', 'iframe', 'IFRAME', 'b'])
    return ('e', name, None, None, [], kids)


def chain_tree(r):
    """An iframe that ends a chain of last children k levels deep, with text following further up: where the walk resumes
    after a skipped iframe is decided by what follows it in document order, at any distance."""
    inner = ('e', r.choice(['iframe', 'IFRAME']), None, None, [], r.choice([[], [('t', 'zz')], [('e', 'p', None, None, [], [('t', 'ab')])]]))
    node = inner
    for _ in range(r.randint(0, 3)):
        before = [(r.choice(KINDS), r.choice(WORDS)) for _ in range(r.randint(0, 2))]
        node = ('e', r.choice(['div', 'p', 'span', 'b']), None, None, [], before + [node])
    after = [r.choice([('t', r.choice(['ab', 'b', 'zz', 'x y'])), ('e', 'span', None, None, [], [('t', r.choice(['ab', 'a', 'zz']))]),
                       ('c', 'ab')]) for _ in range(r.randint(0, 2))]
    return ('e', 'div', None, None, [], [(r.choice(KINDS), r.choice(WORDS)) for _ in range(r.randint(0, 1))] + [node] + after)


def text_of(node, cut_iframes, xml, top=True):
    """Independent oracle: concatenation of plain text nodes among the descendants, not entering iframes."""
    out = []
    for c in node.contents:
        if isinstance(c, bs4.Tag):
            is_iframe = (c.name if xml else c.name.lower()) == 'iframe'
            if not (cut_iframes and is_iframe):
                out.append(text_of(c, cut_iframes, xml, False))
        elif type(c) is bs4.NavigableString:
            out.append(str(c))
    return ''.join(out)


def own_texts(node):
    return [str(c) for c in node.contents if type(c) is bs4.NavigableString]


def make_cases_factory(state):
    def make_cases(rng, n):
        cases = []
        while len(cases) < n:
            kind = rng.choice(['html', 'html5', 'xhtml', 'xml'])
            top = [chain_tree(rng) if rng.random() < 0.25 else tree(rng)]
            soup = gen.build_doc(kind, top)
            xml = bool(soup._is_xml)
            is_html = (not xml) or kind == 'xhtml'
            els = gen.elements(soup)
            for _ in range(4):
                ws = rng.sample(WORDS, rng.randint(1, 2))
                lst = ', '.join(gen.q(w) for w in ws)
                form = rng.choice(['c', 'own', 'alias', 'both', 'both2', 'empty'])
                state['checks'] += 1

                def is_iframe_el(e):
                    if (e.name if xml else e.name.lower()) != 'iframe':
                        return False
                    return is_html       # HTML namespace: every element when there is no namespace support, XHTML ns otherwise

                def T(e):
                    if is_html and is_iframe_el(e):
                        return ''
                    return text_of(e, is_html, xml)
                if form == 'c' or form == 'alias':
                    sel = (':-soup-contains(' if form == 'c' else ':contains(') + lst + ')'
                    want = [id(e) for e in els if any(w in T(e) for w in ws)]
                elif form == 'own':
                    sel = f':-soup-contains-own({lst})'
                    want = [id(e) for e in els if not (is_html and is_iframe_el(e)) and any(w in t for w in ws for t in own_texts(e))]
                elif form in ('both', 'both2'):
                    w2 = rng.choice(WORDS)
                    a, b = f':-soup-contains({lst})', f':-soup-contains-own({gen.q(w2)})'
                    sel = a + b if form == 'both' else b + a
                    want = [id(e) for e in els if any(w in T(e) for w in ws)
                            and not (is_html and is_iframe_el(e)) and any(w2 in t for t in own_texts(e))]
                else:
                    sel = ':empty'
                    want = [id(e) for e in els if not any(isinstance(c, bs4.Tag) for c in e.contents)
                            and not any(type(c) is bs4.NavigableString and any(ch not in ' \t\r\n\f' for ch in str(c)) for c in e.contents)]
                try:
                    got = [id(e) for e in sv.select(sel, soup)]
                except Exception as e:
                    state['bad'].append({'selector': sel, 'kind': kind, 'tree': top, 'exception': repr(e)})
                    continue
                # iframe elements in html5/xhtml are in the XHTML namespace (built that way); in 'html' there is no ns support
                if got != want:
                    state['bad'].append({'selector': sel, 'kind': kind, 'tree': top, 'got': len(got), 'want': len(want)})
                cases.append({'kind': kind, 'tree': top, 'selector': sel, 'queries': [('select', [], 0)]})
        return cases[:n]
    return make_cases


def run(chk):
    state = {'checks': 0, 'bad': []}
    orig = chk.finish

    def finish(**kw):
        chk.coverage.update({'oracle_instances': state['checks'], 'oracle_violations': len(state['bad'])})
        for i, b in enumerate(state['bad'][:5]):
            chk.violation(f'text{i}', {'what': 'text pseudo-class differs from the structural definition of content', **b}, concrete=True)
        return orig(**kw)
    chk.finish = finish
    return common_match.run(chk, PID, SOURCES, make_cases_factory(state), 1600, 80000, RULE,
                            'SoupVerif.Properties.C19 / correspondence PY select ≡ Model select (text pseudo-classes)')


def replay(chk, path):
    return common_match.replay(chk, path, PID)
