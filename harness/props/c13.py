"""C13: :lang() is RFC 4647 extended filtering over the inherited language."""
import itertools
import json
import random

import bs4
import soupsieve as sv
from soupsieve import css_match as cm

import driver
import enc
import framework
import gen
import matchcorr

PID = 'C13'
SOURCES = ['SoupVerif/Properties/C13.lean', 'SoupVerif/Spec/Rfc4647.lean', 'SoupVerif/Lemmas/Lang.lean',
           'SoupVerif/Model/Lang.lean', 'SoupVerif/Model/Match.lean']
RULE = ('(range, tag) pairs: every sequence of up to k subtags over {a, b, de, DE, x (singleton), *, empty} on both sides '
        '(exhaustive for the tier\'s k; the RFC reference judges only ranges without empty subtags, or the lone empty range), checked three ways: PY extended_language_filter vs an independent RFC 4647 '
        'section 3.3.2 reference (the property itself), PY vs the Lean model, Lean model vs the reference; plus '
        'documents with lang / xml:lang / <meta> placements at every depth in html, html5, xhtml and xml against '
        ':lang() selectors through the matcher model, among them compound selectors with two or three :lang() and negated '
        ':lang() (the language has to be accepted by each positive one and by no negated one; every :lang() judged on its own by '
        'the independent reading of the rule). Non-trivial pair = the reference says match.')

ALPHA = ['a', 'b', 'de', 'DE', 'x', '*', '', 'latn']


def rfc4647(rng_, tag):
    """Independent reference: RFC 4647 3.3.2 on the text, plus the property's two edge rules."""
    if rng_ == '':
        return tag == ''
    r = rng_.lower().split('-')
    t = tag.lower().split('-')
    if r[0] == '*':
        if tag == '':
            return False
    elif r[0] != t[0]:
        return False
    ri, ti = 1, 1
    while ri < len(r):
        if r[ri] == '*':
            ri += 1
            continue
        if ti >= len(t):
            return False
        if r[ri] == '':
            return False          # an empty range subtag cannot equal a (non-empty) subtag … see note
        if t[ti] == r[ri]:
            ri += 1
            ti += 1
        elif len(t[ti]) == 1:
            return False
        else:
            ti += 1
    return True


def element_language(soup, el):
    """The property's rule, read independently of the library: the nearest lang attribute (xml:lang for an element that is
    not an HTML element, in a namespace-aware tree) on the element or an ancestor within the same document (an iframe's
    content is a document of its own), otherwise the content-language <meta> pragma of that document when the tree is
    HTML / XHTML, otherwise None."""
    roots = [c for c in soup.contents if isinstance(c, bs4.Tag)] if isinstance(soup, bs4.BeautifulSoup) else [soup]
    is_xml = bool(getattr(soup, '_is_xml', False))
    root_html_ns = bool(roots) and roots[0].namespace == gen.XHTML
    is_html = (not is_xml) or root_html_ns
    has_ns = is_xml or root_html_ns

    def html_el(e):
        return is_html and (not has_ns or e.namespace == gen.XHTML)

    def nm(e):
        return e.name if is_xml else e.name.lower()
    cur, last = el, el
    while cur is not None:
        if not isinstance(cur, bs4.BeautifulSoup):
            own_html = cur.namespace == gen.XHTML
            for k, v in cur.attrs.items():
                kns, kname = getattr(k, 'namespace', None), getattr(k, 'name', None)
                if (not has_ns or own_html) and (k if is_xml else k.lower()) == 'lang':
                    return v
                if has_ns and not own_html and kns == gen.XMLNS and kname is not None and (kname if is_xml else kname.lower()) == 'lang':
                    return v
        last = cur
        par = cur.parent
        if is_html and par is not None and not isinstance(par, bs4.BeautifulSoup) and nm(par) == 'iframe' and html_el(par):
            break                       # the embedding document is another document
        cur = par
    if not is_html:
        return None

    def child(p, name):
        return next((c for c in p.contents if isinstance(c, bs4.Tag) and nm(c) == name and html_el(c)), None)
    html = last if (not isinstance(last, bs4.BeautifulSoup) and nm(last) == 'html' and html_el(last)) else child(last, 'html')
    head = child(html, 'head') if html is not None else None
    if head is None:
        return None
    for m in head.contents:
        if isinstance(m, bs4.Tag) and nm(m) == 'meta' and html_el(m):     # the pragma is an HTML element (fix: foreign <x:meta> ignored)
            decl, content = False, None
            for k, v in m.attrs.items():
                if k.lower() == 'http-equiv' and isinstance(v, str) and v.lower() == 'content-language':
                    decl = True
                if k.lower() == 'content':
                    content = v
                if decl and content:
                    return content
    return None


def lang_docs(rng, n):
    cases = []
    langs = ['en', 'en-US', 'de', '', 'de-DE-1996', 'fr', 'de-Latn-DE', 'x-y']
    ranges = ['en', '"de-*"', '"*-DE"', '""', '"*"', 'de-DE', '"de-*-DE"', 'fr, en', '"*-*"', 'EN', '"de-"', 'x']

    def document(p_lang=0.4):
        kind = rng.choice(['html', 'html5', 'xhtml', 'xml'])
        depth = rng.randint(1, 4)

        def chain(d):
            attrs = []
            if rng.random() < p_lang:
                attrs.append(('lang', rng.choice(langs)))
            if rng.random() < 0.15:
                attrs.append(('xml:lang', rng.choice(langs)))
            kids = [('t', 'a')] if rng.random() < 0.3 else []
            if d > 0 and kind != 'xml' and rng.random() < 0.2:
                # an embedded document with its own (or no) language information
                ih = [('lang', rng.choice(langs))] if rng.random() < 0.2 else []
                imeta = [('e', 'meta', None, None, [('http-equiv', 'content-language'), ('content', rng.choice(langs))], [])] if rng.random() < 0.5 else []
                inner = ('e', 'html', None, None, ih, [('e', 'head', None, None, [], imeta), ('e', 'body', None, None, [], [chain(d - 1)])])
                kids.append(('e', 'iframe', None, None, [], [inner]))
            if d > 0:
                kids.append(chain(d - 1))
                if rng.random() < 0.4:
                    kids.append(chain(0))
            ns = gen.SVG if (kind != 'html' and rng.random() < 0.25) else None     # a foreign-namespace link in the chain
            return ('e', rng.choice(['div', 'p', 'span']) if ns is None else rng.choice(['svg', 'g', 'circle']), None, ns, attrs, kids)
        body = ('e', 'body', None, None, [], [chain(depth)])
        head_kids = []
        if rng.random() < 0.5:
            m = [('http-equiv', rng.choice(['content-language', 'Content-Language', 'x'])), ('content', rng.choice(langs))]
            rng.shuffle(m)
            # now and then a <meta> of a foreign namespace: not the HTML pragma
            mns = gen.SVG if (kind != 'html' and rng.random() < 0.25) else None
            head_kids.append(('e', 'meta', None, mns, m, []))
        if rng.random() < 0.2:
            head_kids.append(('e', 'meta', None, None, [('http-equiv', 'content-language'), ('content', 'de')], []))
        html_attrs = [('lang', rng.choice(langs))] if rng.random() < 0.25 else []
        html = ('e', 'html', None, None, html_attrs, [('e', 'head', None, None, [], head_kids), body])
        return kind, [html]

    def queries(kind, top, ops=('match',)):
        els = gen.elements(gen.build_doc(kind, top))
        return [('select', [], 0)] + [(rng.choice(ops), enc.path_of(rng.choice(els)), 0) for _ in range(2)]

    for _ in range(n):
        kind, top = document()
        sel = ':lang(' + rng.choice(ranges) + ')'
        if rng.random() < 0.3:
            sel = rng.choice(['p', 'div', ':not(p)']) + sel
        cases.append({'kind': kind, 'tree': top, 'selector': sel, 'queries': queries(kind, top),
                      'lang_lists': [sel[sel.index(':lang(') + 6:-1]], 'not_lang_lists': [], 'prefix': sel[:sel.index(':lang(')]})
    # One compound selector carrying SEVERAL :lang() (and negated :lang()): the statement holds for every :lang() of a selector,
    # so the element's language has to be accepted by each of them (":lang(en):lang('*-US')" = "English and US region"), and by
    # none of the negated ones.  Range lists of one to three ranges, in every order, with the other simple selectors before,
    # between and after them.
    singles = ['en', '"de-*"', '"*-DE"', '""', '"*"', 'de-DE', '"de-*-DE"', '"*-*"', 'EN', 'x', 'de', 'fr', '"*-US"', '"en-*"', 'de-1996',
               '"*-Latn"', 'x-y', '"*-y"', '"de-"']
    for _ in range(n // 2):
        kind, top = document(p_lang=0.55)

        def range_list():
            return ', '.join(rng.sample(singles, rng.choice([1, 1, 1, 2, 2, 3])))
        pos = [range_list() for _ in range(rng.choice([2, 2, 2, 3]))]
        neg = [range_list() for _ in range(rng.choice([0, 0, 0, 1]))]
        if rng.random() < 0.15:
            pos.append(rng.choice(pos))                     # the same :lang() twice
        parts = [':lang(' + r + ')' for r in pos] + [':not(:lang(' + r + '))' for r in neg]
        rng.shuffle(parts)
        prefix = rng.choice(['', '', '', 'p', 'div', ':not(p)', '*'])
        extra = rng.choice(['', '', '', ':not(p)', ':not(div, span)'])       # a simple selector between / after the :lang()s
        if extra:
            parts.insert(rng.randint(1, len(parts)), extra)
        sel = prefix + ''.join(parts)
        cases.append({'kind': kind, 'tree': top, 'selector': sel, 'queries': queries(kind, top, ('match', 'closest', 'filter')),
                      'lang_lists': pos, 'not_lang_lists': neg, 'prefix': (prefix or '*') + extra})
    # parser-built documents: html5lib (SVG/MathML under lang), lxml-xml (xml:lang as a namespaced attribute)
    for _ in range(max(20, n // 6)):
        l1, l2 = rng.choice(langs[:3] + ['de-CH', 'fr-CA']), rng.choice(langs[:3] + ['de-CH', 'fr-CA'])
        if rng.random() < 0.5:
            markup = (f'<html><body><div lang="{l1}"><svg id="s1"><circle id="c1"/><foreignObject><p id="h2">x</p></foreignObject></svg>'
                      f'<math id="m1" lang="{l2}"><mi>x</mi></math><p id="h1">y</p></div></body></html>')
            parser = 'html5lib'
        else:
            markup = (f'<?xml version="1.0"?><r xmlns:s="{gen.SVG}" xml:lang="{l1}"><a id="a1"><s:g id="g1" xml:lang="{l2}"><b id="b1"/></s:g></a>'
                      f'<c lang="{l2}" id="c1"><d/></c></r>')
            parser = 'xml'
        sel = ':lang(' + rng.choice(['de', 'fr', 'en', '"de-*"', '"*-CH"', '""', '"*"', 'de-CH']) + ')'
        cases.append({'markup': markup, 'parser': parser, 'selector': sel, 'queries': [('select', [], 0)]})
    return cases


def run(chk):
    proof_ok = framework.lean_pipeline(chk, SOURCES)
    driver_ok = proof_ok or chk.build(['svdriver'])[0]
    rng = random.Random(chk.seed)
    quick = chk.tier == 'quick'
    k = 3 if quick else 4
    tags = ['-'.join(s) for L in range(1, k + 1) for s in itertools.product(ALPHA[:7], repeat=L)]
    ranges = ['-'.join(s) for L in range(1, k + 1) for s in itertools.product(ALPHA[:7], repeat=L)]
    tags_s = tags if not quick else rng.sample(tags, 160)
    pairs = [(r, t) for r in ranges for t in tags_s]
    if quick:
        pairs = rng.sample(pairs, 40000)
    filt = cm.CSSMatch.extended_language_filter
    py_bad = []
    lines = []
    pyv = []
    matches = 0
    for r, t in pairs:
        got = filt(None, r, t)
        wf = r == '' or all(r.split('-'))      # RFC 4647 defines nothing for ranges with empty subtags
        exp = rfc4647(r, t) if wf else got
        matches += exp
        pyv.append(got)
        if got != exp:
            py_bad.append({'range': r, 'tag': t, 'py': got, 'rfc4647': exp})
        lines.append(f'(2 {enc.s(r)} {enc.s(t)})')
    model_bad = []
    corr_bad = []
    doc_bad = []
    ndocs = 0
    if driver_ok:
        resp = driver.run(lines)
        for (r, t), g, line in zip(pairs, pyv, resp):
            m = line.strip() == '1'
            if m != g:
                corr_bad.append({'range': r, 'tag': t, 'py': g, 'model': m})
            if (r == '' or all(r.split('-'))) and m != rfc4647(r, t):
                model_bad.append({'range': r, 'tag': t, 'model': m, 'rfc4647': rfc4647(r, t)})
        cases = lang_docs(rng, 600 if quick else 20000)
        ndocs = len(cases)
        for rec in matchcorr.run_cases(cases):
            if not rec['agree']:
                doc_bad.append({'case': rec['case'], 'py': rec['py'], 'model': rec['lean']})
    # the inherited-language rule itself, on the real code, against the independent reading above
    rule_bad = []
    rule_docs = rule_compound = rule_split = 0
    for case in (cases if driver_ok else lang_docs(rng, 600 if quick else 20000)):
        if 'lang_lists' not in case:
            continue
        # every :lang() of the compound selector is judged on its own: the language has to be accepted by some range of each
        # positive one and by no range of a negated one
        pos = [[r_.strip().strip('"') for r_ in text.split(',')] for text in case['lang_lists']]
        neg = [[r_.strip().strip('"') for r_ in text.split(',')] for text in case['not_lang_lists']]
        if not all(r_ == '' or all(r_.split('-')) for ranges_ in pos + neg for r_ in ranges_):
            continue
        rule_docs += 1
        rule_compound += len(pos) + len(neg) > 1

        def accepts(ranges_, lg):
            return lg is not None and isinstance(lg, str) and any(rfc4647(r_, lg) for r_ in ranges_)
        soup = matchcorr.materialise(case)
        want = []
        for e in gen.elements(soup):
            if case['prefix'] and not sv.match(case['prefix'], e):
                continue
            lg = element_language(soup, e)
            verdicts = [accepts(ranges_, lg) for ranges_ in pos] + [not accepts(ranges_, lg) for ranges_ in neg]
            rule_split += len(set(verdicts)) > 1
            if all(verdicts):
                want.append(enc.path_of(e))
        got = [enc.path_of(e) for e in sv.select(case['selector'], soup)]
        if got != want:
            rule_bad.append({'case': {k: v for k, v in case.items() if k in ('kind', 'tree', 'selector', 'lang_lists', 'not_lang_lists')}
                             | {'queries': [('select', [], 0)]}, 'py': got, 'expected': want})
    chk.coverage['inherited_language_rule_documents'] = rule_docs
    chk.coverage['inherited_language_rule_compound_selectors'] = rule_compound      # selectors with two or more :lang()
    chk.coverage['inherited_language_rule_elements_split'] = rule_split             # elements on which the :lang()s of one selector disagree
    chk.coverage['inherited_language_rule_failures'] = len(rule_bad)
    for i, bad in enumerate(rule_bad[:3]):
        chk.violation(f'rule{i}', {'what': ':lang() differs from "nearest lang within the same document, else that document\'s content-language pragma, else unknown"', **bad}, concrete=True)
    chk.samples = [{'range': r, 'tag': t, 'py': g} for (r, t), g in list(zip(pairs, pyv))[:3]] + \
                  [{'range': r, 'tag': t, 'py': g} for (r, t), g in zip(pairs, pyv) if g][:4]
    chk.coverage.update({'pairs': len(pairs), 'pairs_matching': matches, 'exhaustive': not quick, 'max_subtags': k,
                         'py_vs_rfc_mismatches': len(py_bad), 'py_vs_model_mismatches': len(corr_bad),
                         'model_vs_rfc_mismatches': len(model_bad), 'lang_documents': ndocs, 'document_mismatches': len(doc_bad)})
    for i, bad in enumerate(py_bad[:5]):
        chk.violation(f'py{i}', {'what': 'extended_language_filter differs from RFC 4647 extended filtering', **bad}, concrete=True)
    for i, bad in enumerate(doc_bad[:3]):
        chk.violation(f'doc{i}', {'what': ':lang() on a document: PY differs from the model of the inherited-language rule', **bad}, concrete=True)
    if not py_bad:
        for i, bad in enumerate(corr_bad[:3]):
            chk.violation(f'corr{i}', {'what': 'PY differs from the Lean model; the RFC reference agrees with PY',
                                       'correspondence': 'extended_language_filter ≡ Lang.extendedFilter', **bad}, concrete=False)
    for i, bad in enumerate(model_bad[:3]):
        if not corr_bad:
            chk.violation(f'model{i}', {'what': 'Lean model differs from the RFC reference', 'theorem': 'SoupVerif.C13.filterCore_eq_rfc', **bad}, concrete=False)
    if not proof_ok and not (py_bad or corr_bad or model_bad or doc_bad or rule_bad):
        chk.violation('proof', {'what': 'proof obligation no longer checks; the pair sweep found no failing input',
                                'theorem_or_correspondence': 'SoupVerif.Properties.C13', 'detail': chk.notes.get('proof_broken')}, concrete=False)
    return chk.finish(rule=RULE, evaluations=len(pairs) + ndocs, distinct=matches)


def replay(chk, path):
    data = json.load(open(path))
    if 'range' in data:
        got = cm.CSSMatch.extended_language_filter(None, data['range'], data['tag'])
        exp = rfc4647(data['range'], data['tag'])
        print(json.dumps({'py': got, 'rfc4647': exp}))
        if got != exp:
            print(f'VIOLATION property={PID} replay={path}')
            return 1
        return 0
    from props import common_match
    return common_match.replay(chk, path, PID)
