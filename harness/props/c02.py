"""C02: positional pseudo-classes implement An+B exactly."""
import itertools
import json
import random

import bs4
import soupsieve as sv

import driver
import enc
import framework
import gen
import matchcorr

PID = 'C02'
SOURCES = ['SoupVerif/Properties/C02.lean', 'SoupVerif/Spec/Nth.lean', 'SoupVerif/Lemmas/Nth.lean',
           'SoupVerif/Model/Nth.lean', 'SoupVerif/Model/Match.lean',
           'SoupVerif/Generated/PyAnB.lean', 'SoupVerif/Model/PyStr.lean', 'SoupVerif/Properties/C02Gen.lean',
           'SoupVerif/Generated/PyNth.lean', 'SoupVerif/Model/PyWhile.lean', 'SoupVerif/Properties/C02GenNth.lean', 'SoupVerif/Properties/C02GenNthTerm.lean',
           'SoupVerif/Generated/PyAttrs.lean', 'SoupVerif/Properties/C02GenType.lean']
RULE = ('sibling sequences over {E=li, X=other element, T=text, C=comment} (all sequences up to a length, then random '
        'longer ones), every (A,B) in a square around 0 plus ±len, ±(len±1), the four pseudo-classes, `of S` filters and '
        'keyword forms, plus XML sibling sequences whose `li` elements live in two namespaces queried with a default namespace declared (positions count every element sibling; the type of -of-type is (namespace, name)); each case is checked three ways: PY select vs the brute-force "exists n>=0" oracle (the '
        'property itself), PY vs the Lean matcher model on the same document, and the Lean Nth.matchOne on the abstract '
        'walk vs the oracle. Compound sweep: for every sibling sequence, selectors with 2-4 positional pseudo-classes in ONE compound '
        '(terms over all four pseudo-classes, keyword forms, even/odd, `of S`, `:not(...)`-wrapped terms, optional type prefix; B also drawn from '
        '[-(2*nodes+4), 2*nodes+4] so that terms start below 1 and above the last sibling in the same compound), also as selector lists and inside '
        '`:is(..., ...)` followed by a further term; expected set = conjunction / union of the per-term oracle; redrawn up to 8 times towards a '
        'non-empty expected answer; keyword equivalences are also evaluated with another positional term before or after. Whole-document sweep: random '
        'documents to depth 4 whose element names include those the matcher treats specially when it walks the tree (iframe, html, body, template, '
        'form, svg) next to li/x/p/..., with text, comment, CDATA and processing-instruction nodes between siblings, as HTML built through the bs4 API '
        '(with and without the XHTML namespace), HTML parsed by html.parser / lxml / html5lib, XHTML and plain XML (API-built and parsed, some elements '
        'in a second namespace); selectors = optional `P >` / `P ` (P in iframe, ul, div, html, body, *, :not(iframe)) + optional type + 1-3 positional '
        'terms (keywords, even/odd, bare integers, An+B, `of S` with S in .s, li, :not(.s), a list, *, x.s; :not()-wrapped), also lists; EVERY element of '
        'the document is decided by the An+B definition against the element children of its own parent (bs4 only) for `select` from the document, '
        '`select` from a random scope element, `match` on every element, and again after a random subtree was detached (a parentless root is 1 of 1); '
        'a sample also goes through the Lean matcher model. Non-trivial = at least one element of the sequence matches and at least one does not.')

NAMES = [(':nth-child', False, False), (':nth-last-child', True, False),
         (':nth-of-type', False, True), (':nth-last-of-type', True, True)]


NS_A, NS_B = 'urn:a', 'urn:b'
NSMAP = {'': NS_A, 'b': NS_B}


def build(kinds, top_level=False, detached=False, nsmode=False):
    """nsmode: an XML document whose `li` siblings live in two namespaces (E: urn:a, N: urn:b), queried with a
    namespace map that declares urn:a as the default namespace."""
    soup = bs4.BeautifulSoup('', 'xml' if nsmode else 'html.parser')
    par = soup.new_tag('ul', namespace=NS_A) if nsmode else soup.new_tag('ul')
    if not top_level:
        soup.append(par)
    holder = soup if top_level else par
    for k in kinds:
        if k == 'T':
            holder.append(bs4.NavigableString('t'))
        elif k == 'C':
            holder.append(bs4.Comment('c'))
        else:
            if nsmode:
                el = (soup.new_tag('li', namespace=NS_A) if k == 'E' else soup.new_tag('li', namespace=NS_B, nsprefix='b') if k == 'N'
                      else soup.new_tag('x', namespace=NS_A))
            else:
                el = soup.new_tag('li' if k in 'EN' else 'x')
            if k in 'EN':
                el['class'] = ['s']
            holder.append(el)
    return soup, holder


SEPS = ['', ' ', '  ', '\n', '/**/', ' /* x */ ', '/*+*/', '\t/**/']


def anb_text(a, b, r=None):
    """`An+B`; with a generator, whitespace and comments are put around the sign between the two terms (the only
    place the micro-syntax allows them) and the variable is written in either case."""
    if r is None or r.random() < 0.6:
        return f'{a}n{"+" if b >= 0 else "-"}{abs(b)}'
    return f'{a}{r.choice("nN")}{r.choice(SEPS)}{"+" if b >= 0 else "-"}{r.choice(SEPS)}{abs(b)}'


def oracle(els, e, a, b, last, of_type, of_s):
    sibs = [x for x in els if (not of_type or (x.name, x.namespace) == (e.name, e.namespace)) and (not of_s or x.get('class') == ['s'])]
    if of_s and e.get('class') != ['s']:
        return False
    if last:
        sibs = sibs[::-1]
    pos = [i for i, x in enumerate(sibs) if x is e][0] + 1
    if a == 0:
        return b == pos
    n, r = divmod(pos - b, a)
    return r == 0 and n >= 0


# --- compounds of several positional pseudo-classes ---------------------------------------------------------------
# keyword forms as the An+B instances the property names: (selector text, [(a, b, last, of_type), ...])
KEYWORD_TERMS = [(':first-child', [(0, 1, False, False)]), (':last-child', [(0, 1, True, False)]),
                 (':first-of-type', [(0, 1, False, True)]), (':last-of-type', [(0, 1, True, True)]),
                 (':only-child', [(0, 1, False, False), (0, 1, True, False)]),
                 (':only-of-type', [(0, 1, False, True), (0, 1, True, True)])]
PREFIXES = [('', None), ('', None), ('*', None), ('li', 'li'), ('x', 'x')]


def gen_term(r, n_nodes, n_els, span, nsmode):
    """One positional simple selector: (text, [(a, b, last, of_type, of_s)...], negated).  B is drawn from the small
    square, from the boundary values of the sibling list, or from a range reaching well past the number of child nodes
    on both sides, so that in a compound the terms can start below 1 and above the last sibling at the same time."""
    u = r.random()
    if u < 0.12:
        text, parts = r.choice(KEYWORD_TERMS)
        return text, [p + (False,) for p in parts], False
    name, last, of_type = r.choice(NAMES)
    if u < 0.22:
        word, a, b = r.choice([('even', 2, 0), ('odd', 2, 1), ('EVEN', 2, 0), ('Odd', 2, 1)])
        return f'{name}({word})', [(a, b, last, of_type, False)], False
    a = r.choice([-1, 1, -1, 1, -2, 2, 3, -3, 0]) if r.random() < 0.7 else r.randint(-span, span)
    v = r.random()
    wide = 2 * n_nodes + 4
    if v < 0.3:
        b = r.randint(-span, span)
    elif v < 0.5:
        b = r.choice([0, 1, -1, n_nodes, -n_nodes, n_nodes + 1, n_nodes - 1, n_els, n_els + 1, -n_els])
    else:
        b = r.randint(-wide, wide)
    of_s = (not of_type) and r.random() < 0.15
    text = f'{name}({anb_text(a, b, r)}{(" of *|*.s" if nsmode else " of .s") if of_s else ""})'
    neg = r.random() < 0.12
    if neg:
        text = f':not({text})'
    return text, [(a, b, last, of_type, of_s)], neg


def gen_compound(r, n_nodes, n_els, span, nsmode):
    """prefix + 2..4 positional terms.  Returns (text, predicate(els, e))."""
    k = r.choice([2, 2, 2, 3, 3, 4])
    terms = [gen_term(r, n_nodes, n_els, span, nsmode) for _ in range(k)]
    prefix, want_name = ('*|*', None) if nsmode else r.choice(PREFIXES)
    text = prefix + ''.join(t[0] for t in terms)

    def pred(els, e):
        if want_name is not None and e.name != want_name:
            return False
        for _, parts, neg in terms:
            ok = all(oracle(els, e, a, b, last, of_type, of_s) for a, b, last, of_type, of_s in parts)
            if ok == neg:
                return False
        return True
    # does the compound hold terms that start on both sides of the sibling positions 1..n_els?
    plain = [p for _, parts, neg in terms for p in parts if p[0] != 0]
    both = any(p[1] < 1 for p in plain) and any(p[1] > n_els for p in plain)
    return text, pred, both, k


def compound_sweep(chk, rng, seqs, span, quick, py_bad, doc_cases):
    """Selectors that put several positional pseudo-classes in ONE compound (`li:nth-child(-n+10):nth-child(even)`,
    `:nth-last-child(-n+20):nth-child(3n-3):last-of-type`, with `:not(...)`-wrapped terms, keyword terms, `of S`,
    type prefixes) and selector lists / `:is()` of such compounds: an element is selected iff it satisfies every term
    (some compound of the list).  Each term is decided by the same brute-force `exists n >= 0` oracle."""
    evaluations = nontrivial = both_sides = lists = 0
    per_seq = 6 if quick else 12
    for kinds in seqs:
        nsmode = kinds[0] == 'NS'
        if nsmode:
            kinds = kinds[1:]
        top_level = rng.random() < 0.05
        soup, holder = build(kinds, top_level, nsmode=nsmode)
        els = [c for c in holder.contents if isinstance(c, bs4.Tag)]
        if not els:
            continue
        def draw():
            text, pred, both, _k = gen_compound(rng, len(kinds), len(els), span, nsmode)
            form = rng.random()
            if form < 0.12:          # selector list: union
                text2, pred2, both2, _ = gen_compound(rng, len(kinds), len(els), span, nsmode)
                sel = text + rng.choice([',', ', ', ' , ']) + text2
                return sel, [e for e in els if pred(els, e) or pred2(els, e)], both or both2, 1
            if form < 0.2:           # :is(list) followed by another positional term, all in one compound
                text2, pred2, both2, _ = gen_compound(rng, len(kinds), len(els), span, nsmode)
                t3 = gen_term(rng, len(kinds), len(els), span, nsmode)
                sel = ('*|*' if nsmode else '') + f':is({text}, {text2})' + t3[0]
                return sel, [e for e in els if (pred(els, e) or pred2(els, e))
                             and (all(oracle(els, e, *p) for p in t3[1]) != t3[2])], both or both2, 1
            return text, [e for e in els if pred(els, e)], both, 0

        for _ in range(per_seq):
            # most random conjunctions select nothing; redraw a few times so that the bulk of the cases expects a
            # non-empty answer (an implementation that wrongly rejects everything is invisible on the empty ones)
            keep_empty = rng.random() < 0.15
            for _try in range(8):
                sel, exp, both, is_list = draw()
                if exp or keep_empty:
                    break
            lists += is_list
            got = sv.select(sel, holder, namespaces=NSMAP if nsmode else None)
            evaluations += 1
            both_sides += both
            if 0 < len(exp) < len(els):
                nontrivial += 1
            if {id(e) for e in exp} != {id(e) for e in got} or len(got) != len(exp):
                py_bad.append({'kinds': ''.join(kinds), 'selector': sel, 'top_level': top_level, 'nsmode': nsmode,
                               'py': [enc.path_of(e) for e in got], 'expected': [enc.path_of(e) for e in exp],
                               'compound': True})
            if rng.random() < (0.05 if quick else 0.01):
                doc_cases.append({'markup': None, 'kinds': ''.join(kinds), 'top_level': top_level, 'selector': sel,
                                  'nsmode': nsmode, 'ns': NSMAP if nsmode else None,
                                  'queries': [('select', enc.path_of(holder), 0)]})
    chk.coverage.update({'compound_selectors': evaluations, 'compound_nontrivial': nontrivial,
                         'compound_terms_start_on_both_sides_of_sibling_range': both_sides,
                         'compound_lists_or_is': lists})
    return evaluations, nontrivial


# --- whole documents: the sibling list sits under every kind of parent ----------------------------------------------
# The sweeps above always hang the sibling sequence under one `ul` (or directly under the document object).  The
# property speaks of "the element's position among its element siblings" whatever the parent is, so here whole random
# documents are generated - HTML built through the API, HTML parsed by the three HTML parsers, XHTML and plain XML
# (API-built and parsed) - whose element names include the ones the matcher treats specially while walking the tree
# (`iframe`, `html`, `body`, `template`, `form`, `svg`), nested to depth 4, with text / comment / CDATA / processing
# instruction nodes between the siblings.  Every element of the document is then decided by the An+B definition with
# respect to ITS parent's element children (bs4 only), for `select` from the document, `select` from a random scope
# element, `match` on every element, and once more after a random subtree has been detached (its root has no parent:
# position 1 of 1).
TREE_NAMES = ['li', 'li', 'li', 'x', 'x', 'p', 'span', 'div', 'ul', 'iframe', 'iframe', 'iframe', 'html', 'body',
              'template', 'form', 'svg', 'section']
TREE_CONTAINERS = ('iframe', 'ul', 'div', 'html', 'body', 'template', 'form', 'svg', 'section')
TREE_MODES = [('html', 'api'), ('html', 'api'), ('html5', 'api'), ('html', 'html.parser'), ('html', 'html.parser'),
              ('html', 'html.parser'), ('html', 'lxml'), ('html', 'html5lib'), ('xhtml', 'api'), ('xhtml', 'xml'),
              ('xhtml', 'xml'), ('xml', 'api'), ('xml', 'xml')]


def gen_tree_nodes(r, kind, depth, budget, parse):
    """A list of sibling nodes in the tuple format of harness/gen.py: ('e', name, prefix, ns, attrs, kids) | (kind, text)."""
    out = []
    n = r.choice([1, 2, 3]) if depth == 0 else r.choice([0, 1, 2, 3, 3, 4, 5, 6, 8])
    for _ in range(n):
        u = r.random()
        if u < 0.62 and budget[0] > 0:
            budget[0] -= 1
            name = r.choice(TREE_NAMES)
            ns = None
            attrs = []
            if kind in ('xhtml', 'xml') and r.random() < 0.12:      # same local names in another namespace
                ns = r.choice([NS_B, NS_A, gen.XHTML])
                if parse:
                    attrs.append(('xmlns', ns))
            cls = r.choice([None, None, 's', 's', 's t', 'u'])
            if cls is not None:
                attrs.append(('class', cls.split() if kind in ('html', 'html5') and not parse else cls))
            deeper = depth < 3 and r.random() < (0.8 if name in TREE_CONTAINERS else 0.3)
            kids = gen_tree_nodes(r, kind, depth + 1, budget, parse) if deeper else []
            out.append(('e', name, None, ns, attrs, kids))
        elif u < 0.80:
            out.append(('t', r.choice(['t', ' ', '\n', 'text '])))
        elif u < 0.92:
            out.append(('c', 'c'))
        elif u < 0.96:
            out.append(('cd', 'cd'))
        else:
            out.append(('pi', 'pi x'))
    return out



def gen_tree_case(r):
    """{'kind', 'tree'} (API-built) or {'markup', 'parser'} (parsed): the document part of a case."""
    kind, how = r.choice(TREE_MODES)
    parse = how != 'api'
    budget = [r.randint(6, 30)]
    nodes = gen_tree_nodes(r, kind, 1 if kind != 'html' or r.random() < 0.6 else 0, budget, parse)
    if kind in ('xhtml', 'xml') or r.random() < 0.6:
        # a single root element; sometimes the usual html/body wrapper
        if kind == 'xml':
            root = ('e', r.choice(['r', 'html', 'iframe', 'ul']), None, None, [('xmlns', NS_A)] if parse and r.random() < 0.3 else [], nodes)
        else:
            if r.random() < 0.5:
                nodes = [('e', 'body', None, None, [], nodes)]
            root = ('e', 'html', None, None, [('xmlns', gen.XHTML)] if parse and kind == 'xhtml' else [], nodes)
        nodes = [root]
    if not parse:
        return {'kind': kind, 'tree': nodes}
    markup = gen.to_markup(nodes, xml=(how == 'xml'))
    if how == 'xml':
        markup = '<?xml version="1.0"?>' + markup
    return {'markup': markup, 'parser': how}


def t_has(e, c):
    v = e.get('class')
    if v is None:
        return False
    if isinstance(v, str):
        v = v.split()
    return c in v


def t_real_parent(e):
    p = e.parent
    return p if isinstance(p, bs4.Tag) and not isinstance(p, bs4.BeautifulSoup) else None


def tree_oracle(e, a, b, last, of_type, s_pred):
    """`exists n >= 0: a*n + b == position of e among its (filtered) element siblings`, from bs4 alone."""
    if s_pred is not None and not s_pred(e):
        return False
    sibs = [e] if e.parent is None else [x for x in e.parent.contents if isinstance(x, bs4.Tag)]
    if of_type:
        sibs = [x for x in sibs if (x.name, x.namespace or '') == (e.name, e.namespace or '')]
    if s_pred is not None:
        sibs = [x for x in sibs if s_pred(x)]
    if last:
        sibs = sibs[::-1]
    pos = [i for i, x in enumerate(sibs) if x is e][0] + 1
    if a == 0:
        return b == pos
    n, rem = divmod(pos - b, a)
    return rem == 0 and n >= 0


S_FILTERS = [(' of .s', lambda e: t_has(e, 's')), (' of li', lambda e: e.name == 'li'),
             (' of :not(.s)', lambda e: not t_has(e, 's')), (' of li, .s', lambda e: e.name == 'li' or t_has(e, 's')),
             (' of *', lambda e: True), (' of x.s', lambda e: e.name == 'x' and t_has(e, 's')), (' of .s', lambda e: t_has(e, 's'))]
TREE_RELS = [None] * 5 + [('iframe', '>'), ('iframe', '>'), ('iframe', ' '), ('ul', '>'), ('div', '>'), ('*', '>'),
                          ('html', '>'), ('body', ' '), (':not(iframe)', '>')]


def tree_term(r, span):
    u = r.random()
    if u < 0.15:
        text, parts = r.choice(KEYWORD_TERMS)
        parts = [p + (None,) for p in parts]
    else:
        name, last, of_type = r.choice(NAMES)
        if u < 0.22:
            word, a, b = r.choice([('even', 2, 0), ('odd', 2, 1), ('EVEN', 2, 0), ('Odd', 2, 1)])
            text, parts = f'{name}({word})', [(a, b, last, of_type, None)]
        else:
            a = r.choice([-1, 1, -1, 1, -2, 2, 3, 0, 0]) if r.random() < 0.8 else r.randint(-span, span)
            b = r.randint(-3, 6) if r.random() < 0.75 else r.randint(-12, 12)
            s = r.choice(S_FILTERS) if (not of_type and r.random() < 0.2) else None
            arg = str(b) if (a == 0 and r.random() < 0.6) else anb_text(a, b, r)
            text, parts = f'{name}({arg}{s[0] if s else ""})', [(a, b, last, of_type, s[1] if s else None)]
    neg = r.random() < 0.1
    return (f':not({text})' if neg else text), parts, neg


def tree_compound(r, span):
    terms = [tree_term(r, span) for _ in range(r.choice([1, 1, 1, 2, 2, 3]))]
    prefix = r.choice(['', '', '', '', '*', 'li', 'x', 'p', 'iframe', 'html'])
    rel = r.choice(TREE_RELS)
    text = prefix + ''.join(t[0] for t in terms)
    if rel:
        text = rel[0] + (' > ' if rel[1] == '>' else ' ') + text

    def left(p):
        return p is not None and (rel[0] == '*' or (p.name != 'iframe' if rel[0] == ':not(iframe)' else p.name == rel[0]))

    def pred(e):
        if prefix not in ('', '*') and e.name != prefix:
            return False
        if rel:
            p = t_real_parent(e)
            if rel[1] == '>':
                if not left(p):
                    return False
            else:
                while p is not None and not left(p):
                    p = t_real_parent(p)
                if p is None:
                    return False
        return all(all(tree_oracle(e, *part) for part in parts) != neg for _, parts, neg in terms)
    return text, pred


def tree_selector(r, span):
    text, pred = tree_compound(r, span)
    if r.random() < 0.1:
        text2, pred2 = tree_compound(r, span)
        return text + r.choice([',', ', ']) + text2, (lambda e: pred(e) or pred2(e))
    return text, pred


def tree_elements(top):
    out = [top] if not isinstance(top, bs4.BeautifulSoup) else []
    out.extend(top.find_all(True))
    return out


def tree_call(case, top):
    """Run the recorded library call of a whole-document case on `top`; element paths in the order returned."""
    if case['call'] == 'select':
        return [enc.path_of(e) for e in sv.select(case['selector'], enc.node_at(top, case['scope']))]
    return [enc.path_of(e) for e in tree_elements(top) if sv.match(case['selector'], e)]


def tree_materialise(case):
    top = matchcorr.materialise(case)
    if case.get('detach') is not None:
        top = enc.node_at(top, case['detach']).extract()
    return top


def tree_sweep(chk, rng, span, quick, py_bad, model_lines):
    n_docs = 400 if quick else 4000
    per_doc = 8 if quick else 14
    evaluations = nontrivial = 0
    stats = {'documents': 0, 'elements': 0, 'parents_with_2+_element_children': 0, 'iframe_parents_with_2+_element_children_html': 0,
             'elements_under_iframe_ancestor': 0, 'detached_subtrees': 0, 'scoped_selects': 0, 'match_calls': 0, 'by_mode': {}}

    def evaluate(doc, top, detach, sel, pred, call, scope):
        nonlocal evaluations, nontrivial
        case = dict(doc, whole_document=True, selector=sel, call=call, scope=enc.path_of(scope), detach=detach)
        pool = tree_elements(top) if call == 'match' else scope.find_all(True)
        exp = [enc.path_of(e) for e in pool if pred(e)]
        got = tree_call(case, top)
        evaluations += 1
        if 0 < len(exp) < len(pool):
            nontrivial += 1
        if call == 'match':
            stats['match_calls'] += len(pool)
        if got != exp:
            py_bad.append(dict(case, py=got, expected=exp))

    for _ in range(n_docs):
        doc = gen_tree_case(rng)
        top = matchcorr.materialise(doc)
        els = tree_elements(top)
        if len(els) < 2:
            continue
        mode = doc.get('parser') or ('api-' + doc['kind'])
        stats['by_mode'][mode] = stats['by_mode'].get(mode, 0) + 1
        stats['documents'] += 1
        stats['elements'] += len(els)
        html_kind = not top.is_xml or (els[0].namespace == gen.XHTML)
        for e in els:
            k = sum(1 for c in e.contents if isinstance(c, bs4.Tag))
            if k >= 2:
                stats['parents_with_2+_element_children'] += 1
                if e.name == 'iframe' and html_kind and (not top.is_xml or e.namespace == gen.XHTML):
                    stats['iframe_parents_with_2+_element_children_html'] += 1
            if any(p.name == 'iframe' for p in e.parents):
                stats['elements_under_iframe_ancestor'] += 1
        for j in range(per_doc):
            sel, pred = tree_selector(rng, span)
            for _try in range(6):          # towards selectors that select something here
                if any(pred(e) for e in els) or rng.random() < 0.15:
                    break
                sel, pred = tree_selector(rng, span)
            evaluate(doc, top, None, sel, pred, 'select', top)
            u = rng.random()
            if u < 0.3:
                evaluate(doc, top, None, sel, pred, 'match', top)
            elif u < 0.6:
                stats['scoped_selects'] += 1
                evaluate(doc, top, None, sel, pred, 'select', rng.choice(els))
            if model_lines is not None and rng.random() < (0.04 if quick else 0.01):
                c = {'selector': sel, 'ns': None, 'queries': [('select', [], 0)]}
                model_lines.append((dict(doc, whole_document=True, selector=sel), matchcorr.lean_line(c, top, sv.compile(sel)),
                                    matchcorr.lean_line_e2e(c, top), [[enc.path_of(e) for e in sv.select(sel, top)]]))
        # a subtree cut out of the document: its root has no parent at all
        cands = [e for e in els if e.parent is not None and e.find(True) is not None] or els
        victim = rng.choice(cands)
        detach = enc.path_of(victim)
        sub = victim.extract()
        stats['detached_subtrees'] += 1
        for j in range(3):
            sel, pred = tree_selector(rng, span)
            evaluate(doc, sub, detach, sel, pred, 'match', sub)
            evaluate(doc, sub, detach, sel, pred, 'select', sub)
    chk.coverage['whole_documents'] = stats
    return evaluations, nontrivial


def run(chk):
    proof_ok = framework.lean_pipeline(chk, SOURCES)
    driver_ok = proof_ok or chk.build(['svdriver'])[0]
    rng = random.Random(chk.seed)
    quick = chk.tier == 'quick'
    maxlen = 4 if quick else 6
    span = 4 if quick else 9
    seqs = [s for L in range(1, maxlen + 1) for s in itertools.product('EXT', repeat=L) if any(k != 'T' for k in s)]
    for _ in range(150 if quick else 3000):
        L = rng.randint(maxlen + 1, 12)
        seqs.append(tuple(rng.choice('EEXTC') for _ in range(L)))
    for _ in range(120 if quick else 2500):
        seqs.append(('NS',) + tuple(rng.choice('EENNXT') for _ in range(rng.randint(1, 9))))
    evaluations = 0
    nontrivial = 0
    py_bad = []      # PY vs oracle  (the property itself)
    lines = []
    line_info = []
    doc_cases = []
    for kinds in seqs:
        top_level = rng.random() < 0.08
        nsmode = kinds[0] == 'NS'
        if nsmode:
            kinds = kinds[1:]
        soup, holder = build(kinds, top_level, nsmode=nsmode)
        els = [c for c in holder.contents if isinstance(c, bs4.Tag)]
        if not els:
            continue
        n_nodes = len(kinds)
        abs_ = [(a, b) for a in range(-span, span + 1) for b in range(-span, span + 1)]
        extra = {0, 1, -1, n_nodes, -n_nodes, n_nodes + 1, n_nodes - 1, len(els), len(els) + 1}
        abs_ += [(a, b) for a in (-2, -1, 0, 1, 2, 3) for b in extra]
        if quick:
            abs_ = rng.sample(abs_, 14)
        for a, b in abs_:
            name, last, of_type = rng.choice(NAMES) if quick else NAMES[(a + b) % 4]
            of_s = (not of_type) and rng.random() < 0.2
            sel = f'{name}({anb_text(a, b, rng)}{" of .s" if of_s else ""})'
            if nsmode:
                sel = '*|*' + (f'{name}({anb_text(a, b, rng)}{" of *|*.s" if of_s else ""})')
            got = sv.select(sel, holder, namespaces=NSMAP if nsmode else None)
            gotset = {id(e) for e in got}
            exp = [e for e in els if oracle(els, e, a, b, last, of_type, of_s)]
            evaluations += 1
            if 0 < len(exp) < len(els):
                nontrivial += 1
            if {id(e) for e in exp} != gotset:
                py_bad.append({'kinds': ''.join(kinds), 'selector': sel, 'top_level': top_level, 'nsmode': nsmode,
                               'py': [enc.path_of(e) for e in got], 'expected': [enc.path_of(e) for e in exp]})
            # abstract walk for the Lean Nth service: one request per element
            walk_nodes = list(holder.contents)
            if last:
                walk_nodes = walk_nodes[::-1]
            if rng.random() < (0.3 if quick else 0.1):
                for e in els:
                    if of_s and e.get('class') != ['s']:
                        continue
                    counted = [1 if (isinstance(x, bs4.Tag) and (not of_type or (x.name, x.namespace) == (e.name, e.namespace))
                                     and (not of_s or x.get('class') == ['s'])) else 0 for x in walk_nodes]
                    idx = [i for i, x in enumerate(walk_nodes) if x is e][0]
                    lines.append(f'(1 {a} {b} 1 ({" ".join(map(str, counted))}) {idx})')
                    line_info.append((''.join(kinds), sel, enc.path_of(e), oracle(els, e, a, b, last, of_type, of_s)))
            if rng.random() < (0.06 if quick else 0.02) or (nsmode and rng.random() < 0.15):
                doc_cases.append({'markup': None, 'kinds': ''.join(kinds), 'top_level': top_level, 'selector': sel, 'nsmode': nsmode,
                                  'ns': NSMAP if nsmode else None,
                                  'queries': [('select', enc.path_of(holder), 0)]})
    # several positional pseudo-classes in one compound selector
    ev2, nt2 = compound_sweep(chk, rng, seqs, span, quick, py_bad, doc_cases)
    evaluations += ev2
    nontrivial += nt2
    # whole documents: every kind of parent (iframe, html, template, ...), every document kind, detached subtrees
    tree_model = [] if driver_ok else None
    ev3, nt3 = tree_sweep(chk, rng, span, quick, py_bad, tree_model)
    evaluations += ev3
    nontrivial += nt3
    # keyword forms coincide with An+B instances
    kw = [(':first-child', ':nth-child(1)'), (':last-child', ':nth-last-child(1)'), (':first-of-type', ':nth-of-type(1)'),
          (':last-of-type', ':nth-last-of-type(1)'), (':only-child', ':nth-child(1):nth-last-child(1)'),
          (':only-of-type', ':nth-of-type(1):nth-last-of-type(1)'), (':nth-child(even)', ':nth-child(2n)'),
          (':nth-child(odd)', ':nth-child(2n+1)'), (':nth-child(ODD)', ':nth-child(2N + 1)'),
          (':nth-child(-n+3)', ':nth-child(-1n+3)'), (':nth-child(+5)', ':nth-child(0n+5)'), (':nth-child(n)', ':nth-child(1n+0)'),
          (':nth-child( 2n + 1 )', ':nth-child(2n+1)'), (':nth-child(+n-1)', ':nth-child(1n-1)')]
    for kinds in seqs[:200] + [q for q in seqs if q[0] == 'NS'][:80]:
        nsmode = kinds[0] == 'NS'
        soup, holder = build(kinds[1:] if nsmode else kinds, nsmode=nsmode)
        n_k = len(kinds) - (1 if nsmode else 0)
        # the equivalence must also hold when another positional pseudo-class precedes / follows in the same compound
        other = gen_term(rng, n_k, n_k, span, nsmode)[0] if rng.random() < 0.5 else ''
        before = rng.random() < 0.5
        for k1, k2 in kw:
            evaluations += 1
            k1, k2 = (other + k1, other + k2) if before else (k1 + other, k2 + other)
            if nsmode:
                k1, k2 = '*|*' + k1, '*|*' + k2
            r1 = [id(e) for e in sv.select(k1, holder, NSMAP if nsmode else None)]
            r2 = [id(e) for e in sv.select(k2, holder, NSMAP if nsmode else None)]
            if r1 != r2:
                py_bad.append({'kinds': ''.join(kinds), 'selector': k1, 'equivalent': k2, 'py': len(r1), 'expected': len(r2)})
    # Lean side
    model_bad = []
    corr_bad = []
    if driver_ok:
        resp = driver.run(lines)
        for info, r in zip(line_info, resp):
            if (r.strip() == '1') != info[3]:
                model_bad.append({'kinds': info[0], 'selector': info[1], 'element': info[2], 'oracle': info[3], 'model': r})
        cases = []
        for c in doc_cases:
            soup, holder = build(tuple(c['kinds']), c['top_level'], nsmode=c['nsmode'])
            cases.append((c, soup))
        lines2 = []
        for c, soup in cases:
            compiled = sv.compile(c['selector'], c['ns'])
            lines2.append(matchcorr.lean_line(c, soup, compiled))
            lines2.append(matchcorr.lean_line_e2e(c, soup))       # selector text -> parser model -> matcher model
        resp2 = driver.run(lines2)
        for i, (c, soup) in enumerate(cases):
            py = [[enc.path_of(e) for e in sv.select(c['selector'], enc.node_at(soup, c['queries'][0][1]), c['ns'])]]
            ir, e2e = enc.parse_sx(resp2[2 * i]), enc.parse_sx(resp2[2 * i + 1])
            if ir != py or e2e != [0, py]:
                corr_bad.append({'case': c, 'py': py, 'model': ir, 'model_end_to_end': e2e})
        resp3 = driver.run([l for _, l1, l2, _ in tree_model for l in (l1, l2)])
        for i, (c, _l1, _l2, py) in enumerate(tree_model):
            ir, e2e = enc.parse_sx(resp3[2 * i]), enc.parse_sx(resp3[2 * i + 1])
            if ir != py or e2e != [0, py]:
                corr_bad.append({'case': c, 'py': py, 'model': ir, 'model_end_to_end': e2e})
    chk.samples = [{'kinds': i[0], 'selector': i[1], 'element': i[2], 'matches': i[3]} for i in line_info[:6]]
    chk.coverage.update({'sibling_sequences': len(seqs), 'py_vs_oracle_mismatches': len(py_bad),
                         'model_matchOne_requests': len(lines), 'model_vs_oracle_mismatches': len(model_bad),
                         'py_vs_model_documents': len(doc_cases) + len(tree_model or []), 'py_vs_model_mismatches': len(corr_bad)})
    for i, bad in enumerate(py_bad[:5]):
        chk.violation(f'py{i}', {'what': 'PY select differs from "exists n>=0: A*n+B = position"', **bad}, concrete=True)
    for i, bad in enumerate(corr_bad[:3]):
        if not py_bad:
            chk.violation(f'corr{i}', {'what': 'PY differs from the Lean matcher model (the brute-force oracle agrees with PY)',
                                       'correspondence': 'PY select ≡ Model select (nth)', **bad}, concrete=False)
    for i, bad in enumerate(model_bad[:3]):
        chk.violation(f'model{i}', {'what': 'Lean Nth.matchOne differs from the oracle: the theorem statement would be false here',
                                    'theorem': 'SoupVerif.C02.matchOne_iff', **bad}, concrete=False)
    if not proof_ok and not (py_bad or corr_bad or model_bad):
        chk.violation('proof', {'what': 'proof obligation no longer checks; no failing input found by the An+B oracle sweep',
                                'theorem_or_correspondence': 'SoupVerif.Properties.C02', 'detail': chk.notes.get('proof_broken')},
                      concrete=False)
    return chk.finish(rule=RULE, evaluations=evaluations, distinct=nontrivial)


def replay(chk, path):
    data = json.load(open(path))
    if data.get('whole_document'):
        got = tree_call(data, tree_materialise(data))
        print(json.dumps({'py': got, 'expected': data.get('expected')}))
        if 'expected' in data and got != data['expected']:
            print(f'VIOLATION property={PID} replay={path}')
            return 1
        return 0
    soup, holder = build(tuple(data['kinds']), data.get('top_level', False), nsmode=data.get('nsmode', False))
    got = [enc.path_of(e) for e in sv.select(data['selector'], holder, NSMAP if data.get('nsmode') else None)]
    print(json.dumps({'py': got, 'expected': data.get('expected')}))
    if 'expected' in data and got != data['expected']:
        print(f'VIOLATION property={PID} replay={path}')
        return 1
    return 0
