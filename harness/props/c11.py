"""C11: name and value case rules follow the document type."""
import json
import random
import warnings
from collections import Counter, defaultdict

import bs4
import soupsieve as sv

import enc
import gen
from props import common_match

warnings.simplefilter('ignore')
PID = 'C11'
SOURCES = ['SoupVerif/Properties/C11.lean', 'SoupVerif/Lemmas/Names.lean', 'SoupVerif/Model/Match.lean',
           'SoupVerif/Properties/C11Gen.lean', 'SoupVerif/Generated/PyStrings.lean', 'SoupVerif/Model/PyStrings.lean',
           'SoupVerif/Properties/C11GenAttrSel.lean', 'SoupVerif/Generated/PyAttrSel.lean', 'SoupVerif/Model/AttrSelDyn.lean']
RULE = ('one logical tree (mixed-case tag names, attribute names and values, a type attribute; made element names, attribute names '
        'and values -- custom elements, data-* like and unknown words, in any case -- whose letters are dealt from a reshuffled '
        'alphabet so that every ASCII letter is folded in both directions (selector upper / stored lower and the reverse; see '
        'coverage letters_folded_*), some with a letter outside ASCII that has a Unicode case mapping (never folded: ASCII case); '
        'inline SVG / MathML whose element '
        'and attribute names -- viewBox, preserveAspectRatio, definitionURL, ... -- html5lib stores with upper-case letters, '
        'xlink:* attributes) materialised by html.parser, lxml, html5lib, as XHTML (lxml-xml with the XHTML namespace) and as '
        'plain XML, and stored through the bs4 object API (plain HTML, namespace-aware HTML, XHTML, XML) with attribute names in '
        'arbitrary case and namespaced attribute keys; selectors over the names that occur in each document and over the '
        'vocabulary, every name and value case-permuted (as given, lower, upper, random masks), with and without the i / s flags, '
        'with and without a namespace prefix on the attribute, plus HTML-only pseudo-classes. Checked on PY against an oracle '
        'that reads only the stored tree: in HTML documents [a] / tag selects exactly the elements with a stored name equal '
        'to it up to ASCII case, A-Z only (so every ASCII-case variant selects the same elements, and what str.lower / upper / '
        'swapcase make of a name with letters outside ASCII selects by the same rule), in XML/XHTML exactly the equal ones; [a=v] '
        'selects exactly the elements whose stored value equals v (case-insensitively iff a is "type" or the i flag is given; s '
        'forces exact); [p|a] / [*|a] follow the same rule on the local name; HTML-only pseudo-classes select nothing in plain '
        'XML. And PY = Lean matcher model on the tree each parser / the API stored. Non-trivial = non-empty result.')

TAGS = ['div', 'Div', 'P', 'span', 'SPAN', 'a']
FOREIGN = ['foreignObject', 'linearGradient', 'clipPath', 'circle', 'textPath']
MATHML = ['mi', 'mrow', 'annotation-xml']
ANAMES = ['title', 'Title', 'DATA-X', 'type', 'Type', 'lang']
# attribute names that a conforming HTML tree builder (html5lib) stores with upper-case letters on SVG / MathML elements,
# whatever their spelling in the source; html.parser and lxml lower-case them; XML keeps the source spelling
SVG_ATTRS = ['viewBox', 'preserveAspectRatio', 'gradientUnits', 'gradientTransform', 'patternUnits', 'clipPathUnits', 'refX',
             'startOffset', 'stdDeviation', 'textLength', 'attributeName', 'baseFrequency']
MATH_ATTRS = ['definitionURL']
XLINK_ATTRS = ['xlink:href', 'xlink:title', 'xlink:type']
AVALS = ['abc', 'ABC', 'Abc', 'x', 'X', 'text', 'TEXT', 'Radio']
HTML_ONLY = [':checked', ':disabled', ':enabled', ':required', ':optional', ':read-write', ':read-only', ':link', ':any-link',
             ':default', ':indeterminate', ':placeholder-shown', ':in-range', ':out-of-range', ':dir(ltr)', ':dir(rtl)', ':defined']
MATHML_NS = 'http://www.w3.org/1998/Math/MathML'
XMLNS_NS = 'http://www.w3.org/2000/xmlns/'
NSMAP = {'xl': gen.XLINK}
NS_OF_PREFIX = {'xlink': gen.XLINK, 'xmlns': XMLNS_NS}
SELECT_ALL = [('select', [], 0)]
ALPHABET = 'abcdefghijklmnopqrstuvwxyz'
# names to which a parser gives a content model of its own (raw text, void, table parts, head / body / frameset switches,
# ...): a made name that happens to spell one of them is drawn again, so that made elements are ordinary containers everywhere
RESERVED = set(
    'a abbr acronym address applet area article aside audio b base basefont bdi bdo bgsound big blink blockquote body br button '
    'canvas caption center cite code col colgroup command data datalist dd del details dfn dialog dir div dl dt em embed fieldset '
    'figcaption figure font footer form frame frameset h1 h2 h3 h4 h5 h6 head header hgroup hr html i iframe image img input ins '
    'isindex kbd keygen label legend li link listing main map mark marquee math menu menuitem meta meter multicol nav nextid '
    'nobr noembed noframes noscript object ol optgroup option output p param picture plaintext pre progress q rb rp rt rtc ruby '
    's samp script search section select slot small source spacer span strike strong style sub summary sup svg table tbody td '
    'template textarea tfoot th thead time title tr track tt u ul var video wbr xmp'.split())


# letters outside ASCII that have a case mapping of their own -- some of them onto an ASCII letter: str.lower() takes the Kelvin
# sign to 'k' and U+0130 to 'i' + U+0307, str.upper() takes U+017F to 'S', U+0131 to 'I' and U+00DF to 'SS'.  "ASCII case" leaves
# every one of them alone: in no kind of document does a name match a spelling that differs in one of these
NON_ASCII = '\u00e9\u00c9\u00f6\u00d6\u00df\u0131\u0130\u017f\u212a\u03c3\u03a3\u0434\u0414'


def ascii_lower(s):
    """ASCII case folding by the book (HTML: "ASCII lowercase"): A-Z -> a-z and nothing else."""
    return ''.join(chr(ord(c) + 32) if 'A' <= c <= 'Z' else c for c in s)


def ascii_upper(s):
    return ''.join(chr(ord(c) - 32) if 'a' <= c <= 'z' else c for c in s)


class Deck:
    """Letters dealt from a shuffled alphabet that is shuffled again whenever it runs out: any 26 consecutive letters dealt
    are the whole alphabet, so the names made from them use every ASCII letter about equally often, whatever the seed.
    (The fixed vocabulary above spells its names with 25 of the 26 letters; a rule about "ASCII case" is about all of them.)"""

    def __init__(self):
        self.left = []

    def letters(self, r, n):
        out = []
        for _ in range(n):
            if not self.left:
                self.left = r.sample(ALPHABET, 26)
            out.append(self.left.pop())
        return ''.join(out)

    def word(self, r, lo=2, hi=5):
        """A word as an author might spell it: lower, UPPER, Title or mixed case."""
        w = self.letters(r, r.randint(lo, hi))
        return r.choice([w, w, ascii_upper(w), w.title(), recase(r, w)])

    def name(self, r):
        """A made name (custom element, data-* like attribute, unknown word), valid in HTML, in XML and as a CSS identifier
        without escapes: words joined by '-' or '_', or a word followed by a digit."""
        while True:
            form = r.random()
            if form < 0.4:
                n = self.word(r, 3, 6)
            elif form < 0.8:
                n = self.word(r, 1, 4) + '-' + self.word(r, 1, 5)
            elif form < 0.9:
                n = self.word(r, 2, 4) + '_' + self.word(r, 1, 3)
            else:
                n = self.word(r, 2, 4) + r.choice('0123456789')
            if ascii_lower(n) in RESERVED or ascii_lower(n).startswith('xml'):
                continue
            if r.random() < 0.12:
                i = r.randint(1, len(n))            # never first: HTML tag names start with an ASCII letter
                n = n[:i] + r.choice(NON_ASCII) + n[i:]
            return n


class Decks:
    """One deck each for element names, attribute names and attribute values (a fresh set per run: deterministic per seed)."""

    def __init__(self):
        self.tag, self.attr, self.value = Deck(), Deck(), Deck()


def spelled(r, name):
    """Source spelling of a foreign attribute name: mostly canonical, sometimes all lower / all upper case."""
    return r.choice([name, name, name, name.lower(), name.upper()])


def foreign_attrs(r, pool, lo=0, hi=2):
    out = [('title', r.choice(AVALS))] if r.random() < 0.6 else []
    for a in r.sample(pool, min(len(pool), r.randint(lo, hi))):
        out.append((spelled(r, a), r.choice(AVALS)))
    if r.random() < 0.35:
        out.append((r.choice(XLINK_ATTRS), r.choice(AVALS)))
    r.shuffle(out)
    return out


def value(r, decks):
    """An attribute value: from the small vocabulary, or a made word (letters of the whole alphabet, any case)."""
    return r.choice(AVALS) if r.random() < 0.7 else decks.value.word(r, 2, 5)


def tree(r, decks, depth=0):
    attrs = []
    for a in r.sample(ANAMES, r.randint(0, 3)):
        if a.lower() not in [x[0].lower() for x in attrs]:
            attrs.append((a, value(r, decks)))
    if r.random() < 0.45:
        # made attribute names: what an HTML parser stores in lower case whatever the author wrote, XML as written
        for _ in range(r.randint(1, 2)):
            a = decks.attr.name(r)
            if a.lower() not in [x[0].lower() for x in attrs]:
                attrs.append((a, value(r, decks)))
    kids = []
    if depth < 3:
        for _ in range(r.randint(0, 3)):
            kids.append(tree(r, decks, depth + 1) if r.random() < 0.7 else ('t', r.choice(['x', ' ', 'Abc'])))
    # the element's name: from the vocabulary, or a made one (custom element / unknown element)
    name = r.choice(TAGS + ['input', 'INPUT']) if r.random() < 0.7 else decks.tag.name(r)
    if name.lower() == 'input':
        kids = []
    if depth < 2 and r.random() < 0.3:
        # inline SVG with mixed-case element names and mixed-case attribute names (html5lib keeps / restores them and puts
        # the elements in the SVG namespace, xlink:* attributes in the XLink namespace)
        inner = [('e', r.choice(FOREIGN), None, gen.SVG, foreign_attrs(r, SVG_ATTRS),
                  [tree(r, decks, 3)] if r.random() < 0.5 else [])
                 for _ in range(r.randint(1, 3))]
        kids.append(('e', 'svg', None, gen.SVG, [('xmlns:xlink', gen.XLINK)] + foreign_attrs(r, SVG_ATTRS, 1, 2), inner))
    if depth < 2 and r.random() < 0.15:
        inner = [('e', r.choice(MATHML), None, MATHML_NS, foreign_attrs(r, MATH_ATTRS, 0, 1), [('t', 'x')] if r.random() < 0.5 else [])
                 for _ in range(r.randint(1, 2))]
        kids.append(('e', 'math', None, MATHML_NS, [('xmlns:xlink', gen.XLINK)] + foreign_attrs(r, MATH_ATTRS, 0, 1), inner))
    return ('e', name, None, None, attrs, kids)


def recase(r, s):
    """A random ASCII-case variant: every ASCII letter keeps or swaps its case, nothing else changes."""
    return ''.join(c.swapcase() if c.isascii() and c.isalpha() and r.random() < 0.5 else c for c in s)


def api_tree(r, t):
    """The same tree for the bs4 object API: `p:name` keys become namespaced keys ([prefix, local name, URI]) and -- because
    nothing lower-cases what a program stores -- about half of the attribute names get a random ASCII case (never two names
    of one element that differ only in case)."""
    if t[0] != 'e':
        return t
    _, name, prefix, ns, attrs, kids = t
    out, seen = [], set()
    for k, v in attrs:
        pfx, _, local = k.rpartition(':')
        if pfx != 'xmlns' and r.random() < 0.5:
            local = recase(r, local)
        key = [pfx, local, NS_OF_PREFIX[pfx]] if pfx else local
        if (pfx, local.lower()) in seen:
            continue
        seen.add((pfx, local.lower()))
        out.append((key, v))
    return ('e', name, prefix, ns, out, [api_tree(r, c) for c in kids])


def case_variants(r, s):
    """The name as given, all lower, all upper, and three random case masks (ASCII case; distinct, in that order); for a name
    with letters outside ASCII also what str.lower / str.upper / str.swapcase make of it -- different names in every document."""
    out = [s, ascii_lower(s), ascii_upper(s)] + [recase(r, s) for _ in range(3)]
    if not s.isascii():
        out += [s.lower(), s.upper(), s.swapcase()]
    return [v for i, v in enumerate(out) if v not in out[:i]]


def stored(e, name, xml):
    for k, v in e.attrs.items():
        if (str(k) == name) if xml else (ascii_lower(str(k)) == ascii_lower(name)):
            return v if isinstance(v, str) else ' '.join(v)
    return None


SCAFFOLD = {'html', 'head', 'body', 'root', 'xmlns'}


def pick(r, present, vocabulary, k, made=0):
    """Up to k names that occur in the document plus one from the vocabulary (which may or may not occur), plus up to
    `made` of the names in the document that are neither in the vocabulary nor part of the document scaffold."""
    present = sorted(present)
    out = r.sample(present, min(k, len(present))) + [r.choice(vocabulary)]
    if made:
        known = {ascii_lower(v) for v in vocabulary} | SCAFFOLD
        fresh = [p for p in present if ascii_lower(p) not in known]
        out += r.sample(fresh, min(made, len(fresh)))
    return [v for i, v in enumerate(out) if v not in out[:i]]


def eval_rules(rng, state, label, soup, nsaware, plain_xml, base_case):
    """The case rules of the property, evaluated with an oracle that reads only what the tree stores.
    `base_case` holds the document part of a replayable correspondence case."""
    xml = bool(soup._is_xml)
    els = gen.elements(soup)
    n0 = len(state['bad'])

    def eq(a, b):
        return a == b if xml else ascii_lower(a) == ascii_lower(b)

    def bad(rule, selector, ns=None, **kw):
        state['bad'].append({'rule': rule, 'document': label, 'selector': selector, **kw,
                             'case': {**base_case, 'selector': selector, 'ns': ns, 'queries': SELECT_ALL}})

    def sel(s, ns=None):
        return [id(e) for e in sv.select(s, soup, namespaces=ns)]

    def folded(v, names):
        """Coverage: the letters on which selector name `v` and a stored name it has to match differ in case (HTML)."""
        for k in names:
            if len(k) == len(v) and k != v and ascii_lower(k) == ascii_lower(v):
                for a, b in zip(v, k):
                    if a != b:
                        state['fold_selector_upper' if 'A' <= a <= 'Z' else 'fold_stored_upper'].add(ascii_lower(a))

    state['checks'] += 1
    state['docs'][label] += 1
    try:
        # ---- tag names
        for tag in pick(rng, {e.name for e in els if ':' not in e.name}, TAGS + FOREIGN + MATHML + ['svg', 'math'], 2, 2):
            base = sel(tag)
            for v in case_variants(rng, tag):
                got = sel(v)
                state['tag_variants'] += 1
                if not xml:
                    folded(v, {e.name for e in els})
                state['non_ascii_name_variants'] += not v.isascii()
                if not xml and got != base and ascii_lower(v) == ascii_lower(tag):
                    bad('HTML tag names fold', v, base_selector=tag)
                if got != [id(e) for e in els if eq(e.name, v)]:
                    bad('tag name rule (fold in HTML, exact in XML/XHTML) against the stored names', v)
        # ---- attribute names, no namespace prefix in the selector: the whole stored key is compared
        keys = {str(k) for e in els for k in e.attrs}
        plain = {k for k in keys if ':' not in k}
        for an in pick(rng, plain, ANAMES + SVG_ATTRS + MATH_ATTRS, 3, 2):
            base = sel(f'[{an}]')
            for v in case_variants(rng, an):
                got = sel(f'[{v}]')
                state['attr_variants'] += 1
                if not xml:
                    folded(v, keys)
                if any('A' <= c <= 'Z' for k in keys if ascii_lower(k) == ascii_lower(v) for c in k) and not xml:
                    state['attr_variants_on_stored_uppercase_html'] += 1
                state['non_ascii_name_variants'] += not v.isascii()
                if not xml and got != base and ascii_lower(v) == ascii_lower(an):
                    bad('HTML attribute names fold', f'[{v}]', base_selector=f'[{an}]')
                if got != [id(e) for e in els if any(eq(str(k), v) for k in e.attrs)]:
                    bad('attribute name rule (fold in HTML, exact in XML/XHTML) against the stored names', f'[{v}]')
        # ---- attribute values
        for an in pick(rng, plain, ANAMES + SVG_ATTRS, 2, 1):
            vals = sorted({x for e in els for x in [stored(e, an, False)] if x is not None and x.isalnum()})
            for av in pick(rng, vals, AVALS, 1):
                av = rng.choice([av, recase(rng, av)])
                for name_v in [an, recase(rng, an)]:
                    flag = rng.choice(['', '', ' i', ' s'])
                    s = f'[{name_v}="{av}"{flag}]'
                    got = sel(s)
                    state['value_checks'] += 1
                    insens = flag == ' i' or (flag == '' and ascii_lower(name_v) == 'type' and not xml)
                    want = []
                    for e in els:
                        sval = stored(e, name_v, xml)
                        if sval is not None and ((sval.lower() == av.lower()) if insens else (sval == av)):
                            want.append(id(e))
                    if got != want:
                        bad('value case rule', s, got=len(got), want=len(want))
        # ---- attribute names with a namespace prefix in the selector: the local name follows the same case rule
        locals_ = {k.name for e in els for k in e.attrs if getattr(k, 'namespace', None) == gen.XLINK}
        for local in pick(rng, locals_, ['href', 'title', 'type', 'viewBox'], 1):
            for tmpl in ('[xl|{}]', '[*|{}]'):
                base = sel(tmpl.format(local), NSMAP)
                for v in case_variants(rng, local):
                    s = tmpl.format(v)
                    got = sel(s, NSMAP)
                    state['ns_attr_variants'] += 1
                    if not xml and got != base:
                        bad('HTML attribute names fold (namespaced attribute selector)', s, NSMAP, base_selector=tmpl.format(local))
                    if nsaware:
                        if tmpl[1] == '*':
                            want = [id(e) for e in els if any(eq(str(k) if getattr(k, 'namespace', None) is None else k.name, v)
                                                              for k in e.attrs)]
                        else:
                            want = [id(e) for e in els if any(getattr(k, 'namespace', None) == gen.XLINK and eq(k.name, v)
                                                              for k in e.attrs)]
                        if got != want:
                            bad('namespaced attribute name rule against the stored names', s, NSMAP)
        if plain_xml:
            for h in HTML_ONLY:
                if sv.select(h, soup):
                    bad('HTML-only pseudo-class matched in plain XML', h)
    except Exception as e:
        state['bad'].append({'rule': f'exception {type(e).__name__}: {e}', 'document': label, 'case': base_case})
    del state['bad'][n0 + 3:]        # at most three records per document


def corr_selectors(rng, soup):
    """Selectors for the PY ≡ model comparison: names taken from the document and from the vocabulary, case-permuted."""
    els = gen.elements(soup)
    keys = sorted({str(k) for e in els for k in e.attrs if ':' not in str(k)})
    names = sorted({e.name for e in els if ':' not in e.name})
    def variant(name):
        # an ASCII-case variant; of a name with letters outside ASCII sometimes what str.lower / upper / swapcase make of it
        return recase(rng, name) if name.isascii() or rng.random() < 0.5 else rng.choice([name.lower(), name.upper(), name.swapcase()])

    tag = variant(rng.choice(names)) if names and rng.random() < 0.5 else rng.choice(TAGS + FOREIGN + MATHML + ['svg'])
    an = variant(rng.choice(keys)) if keys and rng.random() < 0.6 else rng.choice(ANAMES + SVG_ATTRS + MATH_ATTRS)
    an2 = rng.choice(ANAMES)
    av = rng.choice(AVALS)
    flag = rng.choice(['', '', ' i', ' s'])
    local = recase(rng, rng.choice(['href', 'title', 'type']))
    return [(tag, None), (f'[{an}]', None), (f'{tag}[{an2}="{av}"{flag}]', None), (f'[{an}="{av}"{flag}]', None),
            (f'[{an2}^="{av[:2]}"{flag}]', None), (rng.choice(HTML_ONLY), None), (f'{tag} > [{an}]', None),
            (rng.choice(['[xl|{}]', '[*|{}]', '[xl|{}="{}" i]']).format(local, av), NSMAP)]


API_KINDS = {'html': 'api:html (no namespaces)', 'html5': 'api:html5 (XHTML namespace, not XML)',
             'xhtml': 'api:xhtml', 'xml': 'api:xml'}


def make_cases_factory(state):
    def make_cases(rng, n):
        cases = []
        decks = Decks()
        while len(cases) < n:
            top = [tree(rng, decks) for _ in range(rng.randint(1, 2))]
            # (1) the tree as markup through every parser
            variants = gen.parse_variants(top)
            for pname, soup in variants.items():
                doc = {'markup': str(soup), 'parser': {'xhtml': 'xml'}.get(pname, pname)}
                eval_rules(rng, state, pname, soup, pname in ('html5lib', 'xhtml', 'xml'), pname == 'xml', doc)
                for s, ns in corr_selectors(rng, soup):
                    cases.append({**doc, 'selector': s, 'ns': ns, 'queries': SELECT_ALL})
            # (2) the tree stored through the bs4 object API, attribute names in whatever case the program chose
            atop = [api_tree(rng, t) for t in top]
            for kind, label in API_KINDS.items():
                soup = gen.build_doc(kind, atop)
                doc = {'kind': kind, 'tree': atop}
                eval_rules(rng, state, label, soup, kind != 'html', kind == 'xml', doc)
                for s, ns in corr_selectors(rng, soup)[:6] if rng.random() < 0.5 else corr_selectors(rng, soup)[2:]:
                    cases.append({**doc, 'selector': s, 'ns': ns, 'queries': SELECT_ALL})
        return cases[:n]
    return make_cases


def run(chk):
    state = defaultdict(int)
    state['bad'] = []
    state['docs'] = Counter()
    state['fold_selector_upper'], state['fold_stored_upper'] = set(), set()
    orig = chk.finish

    def finish(**kw):
        chk.coverage.update({'rule_instances': state['checks'], 'rule_violations': len(state['bad']),
                             'rule_documents': dict(state['docs']),
                             'rule_selector_variants': {k: state[k] for k in ('tag_variants', 'attr_variants',
                                                                              'attr_variants_on_stored_uppercase_html',
                                                                              'value_checks', 'ns_attr_variants',
                                                                              'non_ascii_name_variants')},
                             # letters on which a selector name and the stored HTML name it was checked against differ in case
                             'letters_folded_selector_upper_vs_stored_lower': ''.join(sorted(state['fold_selector_upper'])),
                             'letters_folded_selector_lower_vs_stored_upper': ''.join(sorted(state['fold_stored_upper']))})
        # report up to five, one per kind of document first
        seen, first, rest = set(), [], []
        for b in state['bad']:
            (rest if b['document'] in seen else first).append(b)
            seen.add(b['document'])
        for i, b in enumerate((first + rest)[:5]):
            chk.violation(f'rule{i}', {'what': 'case rule violated on the real code', **b,
                                       'replay_with': f'bin/check {PID} --replay <this file>'}, concrete=True)
        return orig(**kw)
    chk.finish = finish
    return common_match.run(chk, PID, SOURCES, make_cases_factory(state), 2600, 60000, RULE,
                            'SoupVerif.Properties.C11 / correspondence PY select ≡ Model select on parser-built trees')


def replay(chk, path):
    return common_match.replay(chk, path, PID)
