"""C11: name and value case rules follow the document type."""
import json
import random
import warnings

import bs4
import soupsieve as sv

import enc
import gen
from props import common_match

warnings.simplefilter('ignore')
PID = 'C11'
SOURCES = ['SoupVerif/Properties/C11.lean', 'SoupVerif/Lemmas/Names.lean', 'SoupVerif/Model/Match.lean']
RULE = ('one logical tree (mixed-case tag names, attribute names and values, a type attribute) materialised by html.parser, lxml, '
        'html5lib, as XHTML (lxml-xml with the XHTML namespace) and as plain XML; selectors over its vocabulary with every '
        'name and value case-permuted (all masks up to 4 letters), with and without the i / s flags, plus HTML-only '
        'pseudo-classes. Checked on PY: in the HTML materialisations a case-variant of tag/attribute names selects the same '
        'elements; [a=v] selects exactly the elements whose stored value equals v (case-insensitively iff a is "type" or the i '
        'flag is given; s forces exact); in XML/XHTML names and values are exact unless i; HTML-only pseudo-classes select '
        'nothing in plain XML. And PY = Lean matcher model on the tree each parser stored. Non-trivial = non-empty result.')

TAGS = ['div', 'Div', 'P', 'span', 'SPAN', 'a']
FOREIGN = ['foreignObject', 'linearGradient', 'clipPath', 'circle', 'textPath']
ANAMES = ['title', 'Title', 'DATA-X', 'type', 'Type', 'lang']
AVALS = ['abc', 'ABC', 'Abc', 'x', 'X', 'text', 'TEXT', 'Radio']
HTML_ONLY = [':checked', ':disabled', ':enabled', ':required', ':optional', ':read-write', ':read-only', ':link', ':any-link',
             ':default', ':indeterminate', ':placeholder-shown', ':in-range', ':out-of-range', ':dir(ltr)', ':dir(rtl)', ':defined']


def tree(r, depth=0):
    attrs = []
    for a in r.sample(ANAMES, r.randint(0, 3)):
        if a.lower() not in [x[0].lower() for x in attrs]:
            attrs.append((a, r.choice(AVALS)))
    kids = []
    if depth < 3:
        for _ in range(r.randint(0, 3)):
            kids.append(tree(r, depth + 1) if r.random() < 0.7 else ('t', r.choice(['x', ' ', 'Abc'])))
    name = r.choice(TAGS + ['input', 'INPUT'])
    if name.lower() == 'input':
        kids = []
    if depth < 2 and r.random() < 0.25:
        # inline SVG with mixed-case element names (html5lib keeps them and puts them in the SVG namespace)
        inner = [('e', r.choice(FOREIGN), None, None, [('title', r.choice(AVALS))], [tree(r, 3)] if r.random() < 0.5 else [])
                 for _ in range(r.randint(1, 3))]
        kids.append(('e', 'svg', None, None, [], inner))
    return ('e', name, None, None, attrs, kids)


def case_variants(r, s):
    letters = [i for i, c in enumerate(s) if c.isalpha()]
    out = []
    for _ in range(3):
        t = list(s)
        for i in letters:
            if r.random() < 0.5:
                t[i] = t[i].swapcase()
        out.append(''.join(t))
    return out


def stored(e, name, xml):
    for k, v in e.attrs.items():
        if (k == name) if xml else (k.lower() == name.lower()):
            return v if isinstance(v, str) else ' '.join(v)
    return None


def make_cases_factory(state):
    def make_cases(rng, n):
        cases = []
        while len(cases) < n:
            top = [tree(rng) for _ in range(rng.randint(1, 2))]
            variants = gen.parse_variants(top)
            for pname, soup in variants.items():
                xml = bool(soup._is_xml)
                plain_xml = pname == 'xml'
                els = gen.elements(soup)
                tag = rng.choice(TAGS + FOREIGN + ['svg'])
                an = rng.choice(ANAMES)
                av = rng.choice(AVALS)
                flag = rng.choice(['', '', ' i', ' s'])
                sels = [tag, f'[{an}]', f'{tag}[{an}="{av}"{flag}]', f'[{an}="{av}"{flag}]', f'[{an}^="{av[:2]}"{flag}]',
                        rng.choice(HTML_ONLY), f'{tag} > [{an}]']
                state['checks'] += 1
                try:
                    base = [id(e) for e in sv.select(tag, soup)]
                    for v in case_variants(rng, tag):
                        got = [id(e) for e in sv.select(v, soup)]
                        if not xml and got != base:
                            state['bad'].append({'rule': 'HTML tag names fold', 'parser': pname, 'selector': tag, 'variant': v})
                        if xml:
                            want = [id(e) for e in els if e.name == v]
                            if got != want:
                                state['bad'].append({'rule': 'XML tag names are exact', 'parser': pname, 'selector': v})
                    baseA = [id(e) for e in sv.select(f'[{an}]', soup)]
                    for v in case_variants(rng, an):
                        got = [id(e) for e in sv.select(f'[{v}]', soup)]
                        if not xml and got != baseA:
                            state['bad'].append({'rule': 'HTML attribute names fold', 'parser': pname, 'selector': f'[{an}]', 'variant': f'[{v}]'})
                        if xml and got != [id(e) for e in els if v in e.attrs]:
                            state['bad'].append({'rule': 'XML attribute names are exact', 'parser': pname, 'selector': f'[{v}]'})
                    got = [id(e) for e in sv.select(f'[{an}="{av}"{flag}]', soup)]
                    insens = flag == ' i' or (flag == '' and an.lower() == 'type' and not xml)
                    want = []
                    for e in els:
                        sval = stored(e, an, xml)
                        if sval is None:
                            continue
                        if (sval.lower() == av.lower()) if insens else (sval == av):
                            want.append(id(e))
                    if got != want:
                        state['bad'].append({'rule': 'value case rule', 'parser': pname, 'selector': f'[{an}="{av}"{flag}]',
                                             'got': len(got), 'want': len(want)})
                    if plain_xml:
                        for h in HTML_ONLY:
                            if sv.select(h, soup):
                                state['bad'].append({'rule': 'HTML-only pseudo-class matched in plain XML', 'parser': pname, 'selector': h})
                except Exception as e:
                    state['bad'].append({'rule': f'exception {type(e).__name__}: {e}', 'parser': pname})
                for b in state['bad'][-3:]:
                    b.setdefault('markup', str(soup))
                for s in sels:
                    if len(cases) < n:
                        cases.append({'markup': str(soup), 'parser': {'xhtml': 'xml'}.get(pname, pname), 'selector': s,
                                      'queries': [('select', [], 0)]})
        return cases[:n]
    return make_cases


def run(chk):
    state = {'checks': 0, 'bad': []}
    orig = chk.finish

    def finish(**kw):
        chk.coverage.update({'rule_instances': state['checks'], 'rule_violations': len(state['bad'])})
        for i, b in enumerate(state['bad'][:5]):
            chk.violation(f'rule{i}', {'what': 'case rule violated on the real code', **b}, concrete=True)
        return orig(**kw)
    chk.finish = finish
    return common_match.run(chk, PID, SOURCES, make_cases_factory(state), 1400, 60000, RULE,
                            'SoupVerif.Properties.C11 / correspondence PY select ≡ Model select on parser-built trees')


def replay(chk, path):
    return common_match.replay(chk, path, PID)
