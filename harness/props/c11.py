"""C11: name and value case rules follow the document type."""
import json
import random
import warnings
from collections import Counter, defaultdict

import bs4
import soupsieve as sv

import enc
import gen
from props import common_match

warnings.simplefilter('ignore')
PID = 'C11'
SOURCES = ['SoupVerif/Properties/C11.lean', 'SoupVerif/Lemmas/Names.lean', 'SoupVerif/Model/Match.lean']
RULE = ('one logical tree (mixed-case tag names, attribute names and values, a type attribute; inline SVG / MathML whose element '
        'and attribute names -- viewBox, preserveAspectRatio, definitionURL, ... -- html5lib stores with upper-case letters, '
        'xlink:* attributes) materialised by html.parser, lxml, html5lib, as XHTML (lxml-xml with the XHTML namespace) and as '
        'plain XML, and stored through the bs4 object API (plain HTML, namespace-aware HTML, XHTML, XML) with attribute names in '
        'arbitrary case and namespaced attribute keys; selectors over the names that occur in each document and over the '
        'vocabulary, every name and value case-permuted (as given, lower, upper, random masks), with and without the i / s flags, '
        'with and without a namespace prefix on the attribute, plus HTML-only pseudo-classes. Checked on PY against an oracle '
        'that reads only the stored tree: in HTML documents [a] / tag selects exactly the elements with a stored name equal '
        'to it up to ASCII case (so every case-variant selects the same elements), in XML/XHTML exactly the equal ones; [a=v] '
        'selects exactly the elements whose stored value equals v (case-insensitively iff a is "type" or the i flag is given; s '
        'forces exact); [p|a] / [*|a] follow the same rule on the local name; HTML-only pseudo-classes select nothing in plain '
        'XML. And PY = Lean matcher model on the tree each parser / the API stored. Non-trivial = non-empty result.')

TAGS = ['div', 'Div', 'P', 'span', 'SPAN', 'a']
FOREIGN = ['foreignObject', 'linearGradient', 'clipPath', 'circle', 'textPath']
MATHML = ['mi', 'mrow', 'annotation-xml']
ANAMES = ['title', 'Title', 'DATA-X', 'type', 'Type', 'lang']
# attribute names that a conforming HTML tree builder (html5lib) stores with upper-case letters on SVG / MathML elements,
# whatever their spelling in the source; html.parser and lxml lower-case them; XML keeps the source spelling
SVG_ATTRS = ['viewBox', 'preserveAspectRatio', 'gradientUnits', 'gradientTransform', 'patternUnits', 'clipPathUnits', 'refX',
             'startOffset', 'stdDeviation', 'textLength', 'attributeName', 'baseFrequency']
MATH_ATTRS = ['definitionURL']
XLINK_ATTRS = ['xlink:href', 'xlink:title', 'xlink:type']
AVALS = ['abc', 'ABC', 'Abc', 'x', 'X', 'text', 'TEXT', 'Radio']
HTML_ONLY = [':checked', ':disabled', ':enabled', ':required', ':optional', ':read-write', ':read-only', ':link', ':any-link',
             ':default', ':indeterminate', ':placeholder-shown', ':in-range', ':out-of-range', ':dir(ltr)', ':dir(rtl)', ':defined']
MATHML_NS = 'http://www.w3.org/1998/Math/MathML'
XMLNS_NS = 'http://www.w3.org/2000/xmlns/'
NSMAP = {'xl': gen.XLINK}
NS_OF_PREFIX = {'xlink': gen.XLINK, 'xmlns': XMLNS_NS}
SELECT_ALL = [('select', [], 0)]


def spelled(r, name):
    """Source spelling of a foreign attribute name: mostly canonical, sometimes all lower / all upper case."""
    return r.choice([name, name, name, name.lower(), name.upper()])


def foreign_attrs(r, pool, lo=0, hi=2):
    out = [('title', r.choice(AVALS))] if r.random() < 0.6 else []
    for a in r.sample(pool, min(len(pool), r.randint(lo, hi))):
        out.append((spelled(r, a), r.choice(AVALS)))
    if r.random() < 0.35:
        out.append((r.choice(XLINK_ATTRS), r.choice(AVALS)))
    r.shuffle(out)
    return out


def tree(r, depth=0):
    attrs = []
    for a in r.sample(ANAMES, r.randint(0, 3)):
        if a.lower() not in [x[0].lower() for x in attrs]:
            attrs.append((a, r.choice(AVALS)))
    kids = []
    if depth < 3:
        for _ in range(r.randint(0, 3)):
            kids.append(tree(r, depth + 1) if r.random() < 0.7 else ('t', r.choice(['x', ' ', 'Abc'])))
    name = r.choice(TAGS + ['input', 'INPUT'])
    if name.lower() == 'input':
        kids = []
    if depth < 2 and r.random() < 0.3:
        # inline SVG with mixed-case element names and mixed-case attribute names (html5lib keeps / restores them and puts
        # the elements in the SVG namespace, xlink:* attributes in the XLink namespace)
        inner = [('e', r.choice(FOREIGN), None, gen.SVG, foreign_attrs(r, SVG_ATTRS),
                  [tree(r, 3)] if r.random() < 0.5 else [])
                 for _ in range(r.randint(1, 3))]
        kids.append(('e', 'svg', None, gen.SVG, [('xmlns:xlink', gen.XLINK)] + foreign_attrs(r, SVG_ATTRS, 1, 2), inner))
    if depth < 2 and r.random() < 0.15:
        inner = [('e', r.choice(MATHML), None, MATHML_NS, foreign_attrs(r, MATH_ATTRS, 0, 1), [('t', 'x')] if r.random() < 0.5 else [])
                 for _ in range(r.randint(1, 2))]
        kids.append(('e', 'math', None, MATHML_NS, [('xmlns:xlink', gen.XLINK)] + foreign_attrs(r, MATH_ATTRS, 0, 1), inner))
    return ('e', name, None, None, attrs, kids)


def recase(r, s):
    return ''.join(c.swapcase() if c.isalpha() and r.random() < 0.5 else c for c in s)


def api_tree(r, t):
    """The same tree for the bs4 object API: `p:name` keys become namespaced keys ([prefix, local name, URI]) and -- because
    nothing lower-cases what a program stores -- about half of the attribute names get a random ASCII case (never two names
    of one element that differ only in case)."""
    if t[0] != 'e':
        return t
    _, name, prefix, ns, attrs, kids = t
    out, seen = [], set()
    for k, v in attrs:
        pfx, _, local = k.rpartition(':')
        if pfx != 'xmlns' and r.random() < 0.5:
            local = recase(r, local)
        key = [pfx, local, NS_OF_PREFIX[pfx]] if pfx else local
        if (pfx, local.lower()) in seen:
            continue
        seen.add((pfx, local.lower()))
        out.append((key, v))
    return ('e', name, prefix, ns, out, [api_tree(r, c) for c in kids])


def case_variants(r, s):
    """The name as given, all lower, all upper, and three random case masks (distinct, in that order)."""
    out = [s, s.lower(), s.upper()] + [recase(r, s) for _ in range(3)]
    return [v for i, v in enumerate(out) if v not in out[:i]]


def stored(e, name, xml):
    for k, v in e.attrs.items():
        if (str(k) == name) if xml else (str(k).lower() == name.lower()):
            return v if isinstance(v, str) else ' '.join(v)
    return None


def pick(r, present, vocabulary, k):
    """Up to k names that occur in the document plus one from the vocabulary (which may or may not occur)."""
    present = sorted(present)
    out = r.sample(present, min(k, len(present))) + [r.choice(vocabulary)]
    return [v for i, v in enumerate(out) if v not in out[:i]]


def eval_rules(rng, state, label, soup, nsaware, plain_xml, base_case):
    """The case rules of the property, evaluated with an oracle that reads only what the tree stores.
    `base_case` holds the document part of a replayable correspondence case."""
    xml = bool(soup._is_xml)
    els = gen.elements(soup)
    n0 = len(state['bad'])

    def eq(a, b):
        return a == b if xml else a.lower() == b.lower()

    def bad(rule, selector, ns=None, **kw):
        state['bad'].append({'rule': rule, 'document': label, 'selector': selector, **kw,
                             'case': {**base_case, 'selector': selector, 'ns': ns, 'queries': SELECT_ALL}})

    def sel(s, ns=None):
        return [id(e) for e in sv.select(s, soup, namespaces=ns)]

    state['checks'] += 1
    state['docs'][label] += 1
    try:
        # ---- tag names
        for tag in pick(rng, {e.name for e in els if ':' not in e.name}, TAGS + FOREIGN + MATHML + ['svg', 'math'], 2):
            base = sel(tag)
            for v in case_variants(rng, tag):
                got = sel(v)
                state['tag_variants'] += 1
                if not xml and got != base:
                    bad('HTML tag names fold', v, base_selector=tag)
                if got != [id(e) for e in els if eq(e.name, v)]:
                    bad('tag name rule (fold in HTML, exact in XML/XHTML) against the stored names', v)
        # ---- attribute names, no namespace prefix in the selector: the whole stored key is compared
        keys = {str(k) for e in els for k in e.attrs}
        plain = {k for k in keys if ':' not in k}
        for an in pick(rng, plain, ANAMES + SVG_ATTRS + MATH_ATTRS, 3):
            base = sel(f'[{an}]')
            for v in case_variants(rng, an):
                got = sel(f'[{v}]')
                state['attr_variants'] += 1
                if any(c.isupper() for k in keys if k.lower() == v.lower() for c in k) and not xml:
                    state['attr_variants_on_stored_uppercase_html'] += 1
                if not xml and got != base:
                    bad('HTML attribute names fold', f'[{v}]', base_selector=f'[{an}]')
                if got != [id(e) for e in els if any(eq(str(k), v) for k in e.attrs)]:
                    bad('attribute name rule (fold in HTML, exact in XML/XHTML) against the stored names', f'[{v}]')
        # ---- attribute values
        for an in pick(rng, plain, ANAMES + SVG_ATTRS, 2):
            vals = sorted({x for e in els for x in [stored(e, an, False)] if x is not None and x.isalnum()})
            for av in pick(rng, vals, AVALS, 1):
                av = rng.choice([av, recase(rng, av)])
                for name_v in [an, recase(rng, an)]:
                    flag = rng.choice(['', '', ' i', ' s'])
                    s = f'[{name_v}="{av}"{flag}]'
                    got = sel(s)
                    state['value_checks'] += 1
                    insens = flag == ' i' or (flag == '' and name_v.lower() == 'type' and not xml)
                    want = []
                    for e in els:
                        sval = stored(e, name_v, xml)
                        if sval is not None and ((sval.lower() == av.lower()) if insens else (sval == av)):
                            want.append(id(e))
                    if got != want:
                        bad('value case rule', s, got=len(got), want=len(want))
        # ---- attribute names with a namespace prefix in the selector: the local name follows the same case rule
        locals_ = {k.name for e in els for k in e.attrs if getattr(k, 'namespace', None) == gen.XLINK}
        for local in pick(rng, locals_, ['href', 'title', 'type', 'viewBox'], 1):
            for tmpl in ('[xl|{}]', '[*|{}]'):
                base = sel(tmpl.format(local), NSMAP)
                for v in case_variants(rng, local):
                    s = tmpl.format(v)
                    got = sel(s, NSMAP)
                    state['ns_attr_variants'] += 1
                    if not xml and got != base:
                        bad('HTML attribute names fold (namespaced attribute selector)', s, NSMAP, base_selector=tmpl.format(local))
                    if nsaware:
                        if tmpl[1] == '*':
                            want = [id(e) for e in els if any(eq(str(k) if getattr(k, 'namespace', None) is None else k.name, v)
                                                              for k in e.attrs)]
                        else:
                            want = [id(e) for e in els if any(getattr(k, 'namespace', None) == gen.XLINK and eq(k.name, v)
                                                              for k in e.attrs)]
                        if got != want:
                            bad('namespaced attribute name rule against the stored names', s, NSMAP)
        if plain_xml:
            for h in HTML_ONLY:
                if sv.select(h, soup):
                    bad('HTML-only pseudo-class matched in plain XML', h)
    except Exception as e:
        state['bad'].append({'rule': f'exception {type(e).__name__}: {e}', 'document': label, 'case': base_case})
    del state['bad'][n0 + 3:]        # at most three records per document


def corr_selectors(rng, soup):
    """Selectors for the PY ≡ model comparison: names taken from the document and from the vocabulary, case-permuted."""
    els = gen.elements(soup)
    keys = sorted({str(k) for e in els for k in e.attrs if ':' not in str(k)})
    names = sorted({e.name for e in els if ':' not in e.name})
    tag = recase(rng, rng.choice(names)) if names and rng.random() < 0.5 else rng.choice(TAGS + FOREIGN + MATHML + ['svg'])
    an = recase(rng, rng.choice(keys)) if keys and rng.random() < 0.6 else rng.choice(ANAMES + SVG_ATTRS + MATH_ATTRS)
    an2 = rng.choice(ANAMES)
    av = rng.choice(AVALS)
    flag = rng.choice(['', '', ' i', ' s'])
    local = recase(rng, rng.choice(['href', 'title', 'type']))
    return [(tag, None), (f'[{an}]', None), (f'{tag}[{an2}="{av}"{flag}]', None), (f'[{an}="{av}"{flag}]', None),
            (f'[{an2}^="{av[:2]}"{flag}]', None), (rng.choice(HTML_ONLY), None), (f'{tag} > [{an}]', None),
            (rng.choice(['[xl|{}]', '[*|{}]', '[xl|{}="{}" i]']).format(local, av), NSMAP)]


API_KINDS = {'html': 'api:html (no namespaces)', 'html5': 'api:html5 (XHTML namespace, not XML)',
             'xhtml': 'api:xhtml', 'xml': 'api:xml'}


def make_cases_factory(state):
    def make_cases(rng, n):
        cases = []
        while len(cases) < n:
            top = [tree(rng) for _ in range(rng.randint(1, 2))]
            # (1) the tree as markup through every parser
            variants = gen.parse_variants(top)
            for pname, soup in variants.items():
                doc = {'markup': str(soup), 'parser': {'xhtml': 'xml'}.get(pname, pname)}
                eval_rules(rng, state, pname, soup, pname in ('html5lib', 'xhtml', 'xml'), pname == 'xml', doc)
                for s, ns in corr_selectors(rng, soup):
                    cases.append({**doc, 'selector': s, 'ns': ns, 'queries': SELECT_ALL})
            # (2) the tree stored through the bs4 object API, attribute names in whatever case the program chose
            atop = [api_tree(rng, t) for t in top]
            for kind, label in API_KINDS.items():
                soup = gen.build_doc(kind, atop)
                doc = {'kind': kind, 'tree': atop}
                eval_rules(rng, state, label, soup, kind != 'html', kind == 'xml', doc)
                for s, ns in corr_selectors(rng, soup)[:6] if rng.random() < 0.5 else corr_selectors(rng, soup)[2:]:
                    cases.append({**doc, 'selector': s, 'ns': ns, 'queries': SELECT_ALL})
        return cases[:n]
    return make_cases


def run(chk):
    state = defaultdict(int)
    state['bad'] = []
    state['docs'] = Counter()
    orig = chk.finish

    def finish(**kw):
        chk.coverage.update({'rule_instances': state['checks'], 'rule_violations': len(state['bad']),
                             'rule_documents': dict(state['docs']),
                             'rule_selector_variants': {k: state[k] for k in ('tag_variants', 'attr_variants',
                                                                              'attr_variants_on_stored_uppercase_html',
                                                                              'value_checks', 'ns_attr_variants')}})
        # report up to five, one per kind of document first
        seen, first, rest = set(), [], []
        for b in state['bad']:
            (rest if b['document'] in seen else first).append(b)
            seen.add(b['document'])
        for i, b in enumerate((first + rest)[:5]):
            chk.violation(f'rule{i}', {'what': 'case rule violated on the real code', **b,
                                       'replay_with': f'bin/check {PID} --replay <this file>'}, concrete=True)
        return orig(**kw)
    chk.finish = finish
    return common_match.run(chk, PID, SOURCES, make_cases_factory(state), 2600, 60000, RULE,
                            'SoupVerif.Properties.C11 / correspondence PY select ≡ Model select on parser-built trees')


def replay(chk, path):
    return common_match.replay(chk, path, PID)
