"""C14: concurrent compilation and matching behave as if run one at a time."""
import json
import random
import sys
import threading
import warnings

import bs4
import soupsieve as sv
from soupsieve import css_parser as cp

import framework
import gen

warnings.simplefilter('ignore')
PID = 'C14'
SOURCES = ['SoupVerif/Properties/C14.lean', 'SoupVerif/Model/Sched.lean', 'SoupVerif/Generated/Effects.lean']
RULE = ('(1) the sets of stores to shared objects / bs4 objects are re-extracted from the source and the theorems '
        'shared_slots_empty, tree_writes_fresh_only etc. re-checked; (2) controlled schedules on the real code: thread A compiles '
        'pattern pA under a line tracer and is suspended after its k-th line inside soupsieve (every k up to the end of the '
        'compile), thread B then compiles pB to completion, A resumes; for every pair (pA, pB) from a set that exercises each '
        'special pseudo-class handler; A\'s and B\'s results and the pattern cache afterwards must equal the sequential results; '
        'thorough adds two suspension points per run; (3) the same with select()/match() on one shared document, and (3b) with match / select / select_one / closest / filter on different documents and detached fragments (nth tests on a parentless root); (4) '
        'free-running threads with a tiny switch interval as a smoke test; (5) general controlled schedules: calls that OVERLAP (A starts, '
        'B starts, A ends, B ends — in (2)-(3b) B always runs from start to end inside A), two or three threads with one to three '
        'suspension points each in any interleaving, compile / select / select_one / match / filter / closest, ordinary patterns and '
        'machine-generated long ones (nesting of :not/:is/:where/:has 20-900 levels deep — below, and beyond, what one thread\'s stack '
        'takes alone — long lists, compounds, combinator chains, attribute runs), long patterns suspended where their stack is deepest; '
        'every call must give what it gives alone (value, or kind of exception), also when made again afterwards with the cache as '
        'left behind, AND the interpreter-wide settings that are not soupsieve\'s (recursion limit, switch interval, int-digits limit, '
        'warnings filters, locale, trace/profile hooks, sys.modules / sys.path / import hooks, std streams, except hooks, gc, cwd, '
        'environment, signal handlers, time zone, global random state, builtins, logging root, bs4 class dictionaries, live threads, '
        're cache) must be after the schedule what they were before it, and after a call that ran from start to end while the others '
        'stood still what they were before that call; lines at which a call run alone has such a setting changed are found by the '
        'tracer and used as suspension points; the same work load with free-running threads. Non-trivial = schedules in which B runs while A is '
        'inside the tokenizer or the parser loop (not before its first or after its last line).')

PATTERNS = [':nth-child(2n+1)', ':lang(en, "de-*")', ':-soup-contains("x", y)', ':dir(rtl)', ':nth-of-type(3)', 'a > b.c[d=e]:not(f)',
            ':nth-last-child(odd of p, q)', ':is(a, :lang(fr)) + :nth-child(even)', ':--k', 'p:checked ~ :default']
CUSTOM = {':--k': 'div > :nth-child(2)'}
FILES = ('css_parser.py', 'css_match.py', 'util.py', 'css_types.py', '__init__.py')


_fresh = __import__('itertools').count()


def fragment_calls():
    import bs4

    def frag(markup, name):
        return bs4.BeautifulSoup(markup, 'html.parser').find(name).extract()
    f1 = frag('<ul class="a"><li>1</li><li class="x">2</li><li>3</li></ul>', 'ul')
    f2 = frag('<ol><li class="x">1</li><li>2</li></ol>', 'ol')
    d2 = bs4.BeautifulSoup('<div><p class="x">a</p><p>b</p><span>c</span></div>', 'html.parser')

    def ids(v):
        if v is None or isinstance(v, bool):
            return v
        if isinstance(v, bs4.Tag):
            return id(v)
        return [id(e) for e in v]
    calls = [
        ('match(ul:first-child, frag1)', lambda: ids(sv.match('ul:first-child', f1))),
        ('match(ol:nth-child(1), frag2)', lambda: ids(sv.match('ol:nth-child(1)', f2))),
        ('match(:only-child, frag2)', lambda: ids(sv.match(':only-child', f2))),
        ('select(:first-child > li:nth-child(2), frag1)', lambda: ids(sv.select(':last-child > li:nth-child(2)', f1))),
        ('select(li:nth-last-child(1), frag2)', lambda: ids(sv.select('li:nth-last-child(1)', f2))),
        ('closest(ul:last-child, li of frag1)', lambda: ids(sv.closest('ul:last-child', f1.li))),
        ('filter(.x, frag2)', lambda: ids(sv.filter('.x', f2))),
        ('filter(:nth-of-type(1), [frag1, frag2])', lambda: ids(sv.filter(':nth-of-type(1)', [f1, f2]))),
        ('select(p:nth-child(2), doc2)', lambda: ids(sv.select('p:nth-child(2), :root:first-child', d2))),
        ('select_one(:has(> .x), frag1)', lambda: ids(sv.select_one(':root:has(> .x)', f1) or sv.match(':root:has(> .x)', f1))),
        # names never seen before (misses of every process-wide string cache, which has been filled beyond its bound first)
        ('select(p[Data-<fresh>], doc2)', lambda: ids(sv.select(f'P[Data-N{next(_fresh)}], p.x', d2))),
        ('match(li[Title-<fresh>=V], li of frag1)', lambda: ids(sv.match(f'LI:not([Title-M{next(_fresh)}=V])', f1.li))),
    ]
    from soupsieve import util as _util
    for i in range(700):
        _util.lower(f'Warm-{i}-{next(_fresh)}')
    return calls


class Paused(threading.Thread):
    """Run fn; suspend after the k-th traced line in soupsieve code until released."""

    def __init__(self, fn, pauses):
        super().__init__(daemon=True)
        self.fn, self.pauses = fn, sorted(pauses)
        self.count = 0
        self.at = threading.Event()
        self.go = threading.Event()
        self.done = threading.Event()
        self.result = None
        self.lines = 0
        self.depth = self.maxdepth = 0      # frames of soupsieve code on this thread's stack (now / at most)
        self.paused_at_depth = []
        self.profile = []                   # (line count, depth) every 32 lines
        self.watch = None                   # ambient_light() before the call: look for lines at which a setting differs
        self.window = []

    def tracer(self, frame, event, arg):
        if not frame.f_code.co_filename.endswith(FILES) or '/soupsieve/' not in frame.f_code.co_filename:
            return None
        if event == 'call':
            self.depth += 1
            if self.depth > self.maxdepth:
                self.maxdepth = self.depth
        elif event == 'return':
            self.depth -= 1
        if event == 'line':
            self.count += 1
            if not self.count & 31:
                self.profile.append((self.count, self.depth))
            if self.watch is not None and (self.count < 4096 or not self.count & 15) and len(self.window) < 4096 \
                    and ambient_light() != self.watch:
                self.window.append(self.count)
            if self.pauses and self.count == self.pauses[0]:
                self.pauses.pop(0)
                self.paused_at_depth.append(self.depth)
                self.at.set()
                self.go.wait()
                self.go.clear()
        return self.tracer

    def run(self):
        sys.settrace(self.tracer)
        try:
            self.result = ('ok', self.fn())
        except BaseException as e:
            self.result = ('exc', type(e).__name__, str(e).split('\n')[0])
        finally:
            sys.settrace(None)
            self.lines = self.count
            self.done.set()
            self.at.set()


def interleave(fa, fb, pauses):
    """A runs to each pause point, B runs completely at the first one, A finishes. Returns (resA, resB, linesA)."""
    a = Paused(fa, list(pauses))
    a.start()
    a.at.wait()
    resb = None
    first = True
    while not a.done.is_set():
        a.at.clear()
        if first:
            try:
                resb = ('ok', fb())
            except BaseException as e:
                resb = ('exc', type(e).__name__, str(e).split('\n')[0])
            first = False
        a.go.set()
        a.at.wait()
    a.join()
    if first:
        try:
            resb = ('ok', fb())
        except BaseException as e:
            resb = ('exc', type(e).__name__, str(e).split('\n')[0])
    return a.result, resb, a.lines


# ---------------------------------------------------------------------------------------------------------------------
# (5) general controlled schedules (overlapping calls, two or three threads), machine-generated long patterns, and the
#     interpreter-wide settings that are not soupsieve's own objects
# ---------------------------------------------------------------------------------------------------------------------

def ambient_light():
    """The cheap part of ambient(): taken by a traced thread at (nearly) every line of a call that runs alone, to find the lines at
    which the call has an interpreter-wide setting changed — the suspension points that matter for overlapping calls."""
    import locale
    return (sys.getrecursionlimit(), sys.getswitchinterval(), sys.get_int_max_str_digits(), threading.stack_size(),
            id(warnings.filters), len(warnings.filters), id(warnings.showwarning), locale.setlocale(locale.LC_ALL),
            id(sys.stdout), id(sys.stderr), id(sys.excepthook), len(sys.modules), len(sys.path), len(sys.meta_path),
            id(getattr(threading, '_trace_hook', None)), id(getattr(threading, '_profile_hook', None)))


def ambient():
    """Snapshot of interpreter-wide state that does not belong to soupsieve but that a call could change (and put back):
    everything here is shared by all threads of the interpreter.  Values are comparable with ==."""
    import builtins
    import gc
    import locale
    import logging
    import os
    import random as _random
    import re
    import signal
    import time
    s = {}
    s['sys.getrecursionlimit()'] = sys.getrecursionlimit()
    s['sys.getswitchinterval()'] = sys.getswitchinterval()
    s['sys.get_int_max_str_digits()'] = sys.get_int_max_str_digits() if hasattr(sys, 'get_int_max_str_digits') else None
    s['threading.stack_size()'] = threading.stack_size()
    s['warnings.filters'] = tuple(warnings.filters)
    s['warnings.filters (the list object)'] = id(warnings.filters)
    s['warnings.showwarning / defaultaction'] = (id(warnings.showwarning), id(getattr(warnings, '_showwarnmsg_impl', None)),
                                                 getattr(warnings, 'defaultaction', None))
    try:
        s['locale.setlocale(LC_ALL)'] = locale.setlocale(locale.LC_ALL)
    except Exception as e:     # noqa: BLE001
        s['locale.setlocale(LC_ALL)'] = repr(e)
    s['threading trace / profile hooks'] = (id(getattr(threading, '_trace_hook', None)), id(getattr(threading, '_profile_hook', None)))
    s['sys.gettrace() / sys.getprofile() of the controlling thread'] = (id(sys.gettrace()), id(sys.getprofile()))
    s['sys.path'] = tuple(map(str, sys.path))
    s['sys.meta_path / sys.path_hooks'] = (tuple(map(id, sys.meta_path)), tuple(map(id, sys.path_hooks)))
    s['sys.stdin / stdout / stderr'] = (id(sys.stdin), id(sys.stdout), id(sys.stderr))
    s['excepthooks'] = (id(sys.excepthook), id(sys.displayhook), id(sys.unraisablehook), id(threading.excepthook))
    s['sys.dont_write_bytecode / tracebacklimit'] = (sys.dont_write_bytecode, getattr(sys, 'tracebacklimit', None))
    s['gc enabled / threshold / debug'] = (gc.isenabled(), gc.get_threshold(), gc.get_debug())
    s['os.getcwd()'] = os.getcwd()
    s['os.environ'] = tuple(sorted(os.environ.items()))
    s['signal handlers'] = tuple(id(signal.getsignal(x)) for x in (signal.SIGALRM, signal.SIGINT, signal.SIGTERM))
    s['time.tzname / timezone'] = (time.tzname, time.timezone)
    s['random.getstate()'] = hash(_random.getstate())
    s['builtins'] = tuple(sorted((k, id(v)) for k, v in vars(builtins).items()))
    s['logging root level / disable / handlers'] = (logging.root.level, logging.root.manager.disable, tuple(map(id, logging.root.handlers)),
                                                   logging.raiseExceptions)
    s['bs4 classes'] = tuple((c.__name__, tuple(sorted((k, id(v)) for k, v in vars(c).items())))
                             for c in (bs4.PageElement, bs4.Tag, bs4.NavigableString, bs4.BeautifulSoup))
    s['live threads'] = threading.active_count()
    # grow-only tables: entries may be added by a call (lazy imports, compiled regular expressions), never removed or replaced
    s['sys.modules'] = {k: id(v) for k, v in list(sys.modules.items())}
    s['re cache'] = frozenset(getattr(re, '_cache', {}))
    return s


def ambient_diff(before, after):
    """Names (with both values) of the interpreter-wide settings that differ between two snapshots."""
    import re
    out = []
    for k, v in before.items():
        w = after.get(k)
        if k == 'sys.modules':
            gone = sorted(m for m in v if m not in w)
            swapped = sorted(m for m in v if m in w and w[m] != v[m])
            if gone or swapped:
                out.append({'setting': k, 'entries_removed': gone[:10], 'entries_replaced': swapped[:10]})
        elif k == 're cache':
            gone = [x for x in v if x not in w]
            if gone and len(w) < getattr(re, '_MAXCACHE', 512):       # not explained by the cache's own eviction
                out.append({'setting': k, 'entries_removed': len(gone), 'size_before': len(v), 'size_after': len(w)})
        elif v != w:
            if isinstance(v, tuple) and isinstance(w, tuple) and len(repr(v)) > 300:
                only_b = [x for x in v if x not in w][:4]
                only_a = [x for x in w if x not in v][:4]
                out.append({'setting': k, 'only_before': repr(only_b)[:400], 'only_after': repr(only_a)[:400]})
            else:
                out.append({'setting': k, 'before': repr(v)[:300], 'after': repr(w)[:300]})
    return out


def ambient_restore(before):
    """Put back what can be put back, so that one leak is not reported again by every later schedule."""
    import locale
    try:
        sys.setrecursionlimit(before['sys.getrecursionlimit()'])
        sys.setswitchinterval(before['sys.getswitchinterval()'])
        if before['sys.get_int_max_str_digits()'] is not None:
            sys.set_int_max_str_digits(before['sys.get_int_max_str_digits()'])
        warnings.filters[:] = list(before['warnings.filters'])
        locale.setlocale(locale.LC_ALL, before['locale.setlocale(LC_ALL)'])
    except Exception:       # noqa: BLE001
        pass


STEP_LIMIT_S = 60


def run_order(fns, pauses, order, watch=False):
    """General controlled schedule.  Thread i runs fns[i] under the line tracer with the suspension points pauses[i] (counts of
    lines executed inside soupsieve).  `order` says which thread is let run next — from its start or from where it is suspended,
    until its next suspension point or its end; entries naming a finished thread are skipped; when `order` is used up, whoever
    is not finished is let run in index order.  Exactly one thread runs at any time.
    Returns (results, lines, steps taken, settings changed by a call that ran from start to end in ONE step)."""
    ths = [Paused(f, list(p)) for f, p in zip(fns, pauses)]
    if watch:
        for t in ths:
            t.watch = ambient_light()
    started = [False] * len(ths)
    steps, whole = [], []

    def step(i):
        t = ths[i]
        if t.done.is_set():
            return
        fresh = not started[i]
        before = ambient() if fresh else None
        if fresh:
            started[i] = True
            t.start()
        else:
            t.at.clear()
            t.go.set()
        if not t.at.wait(STEP_LIMIT_S):
            t.result = ('exc', 'LibraryDidNotTerminate', f'no progress for {STEP_LIMIT_S} s')
            t.done.set()
        steps.append(i)
        if fresh and t.done.is_set():
            # the whole call ran while every other thread stood still: it must have left every setting as it found it
            d = ambient_diff(before, ambient())
            if d:
                whole.append({'thread': i, 'changed': d})
    for i in order:
        step(i)
    while not all(t.done.is_set() for t in ths):
        for i in range(len(ths)):
            step(i)
    for t in ths:
        t.join(STEP_LIMIT_S)
    run_order.maxdepth = [t.maxdepth for t in ths]
    run_order.pause_depth = [max(t.paused_at_depth, default=0) for t in ths]
    run_order.profile = [t.profile for t in ths]
    run_order.window = [t.window for t in ths]
    return [t.result for t in ths], [t.lines for t in ths], steps, whole


WDOC_MARKUP = ('<html lang="en"><body><div id="d1" class="box"><p id="a">alpha</p><p id="b" class="k">beta</p>'
               '<span id="s" lang="fr">x</span></div><div id="d2"><p id="c" class="k m">gamma</p><ul><li id="l1">1</li>'
               '<li id="l2" class="k">2</li><li id="l3">3</li></ul><a href="#x" id="e">l</a></div></body></html>')
_wdoc = []


def wdoc():
    if not _wdoc:
        _wdoc.append(bs4.BeautifulSoup(WDOC_MARKUP, 'html.parser'))
    return _wdoc[0]


def flat(obj):
    """Fingerprint of a selector structure, computed without recursion (the structures compared here may be nested
    hundreds of levels deep, which ==, repr and pickle cannot walk)."""
    import hashlib
    from soupsieve import css_types as ct
    h = hashlib.sha1()
    n = 0
    stack = [obj]
    while stack:
        o = stack.pop()
        n += 1
        if isinstance(o, ct.Immutable):
            h.update(b'<' + type(o).__name__.encode())
            stack.extend(getattr(o, k) for k in reversed(o.__slots__) if k != '_hash')
        elif isinstance(o, (tuple, list)):
            h.update(b'(%d' % len(o))
            stack.extend(reversed(o))
        elif isinstance(o, (ct.ImmutableDict, dict)):
            h.update(b'{%d' % len(o))
            for k, v in sorted(o.items(), key=repr):
                stack.extend((v, k))
        elif hasattr(o, 'pattern') and hasattr(o, 'flags'):
            h.update(b'/' + repr((o.pattern, o.flags)).encode())
        else:
            h.update(b'=' + repr(o).encode('utf-8', 'backslashreplace'))
    return f'{n}:{h.hexdigest()[:16]}'


_frag = {}


def make_call(spec):
    """A call into the library from its JSON-able description; the value returned is a comparable account of the result."""
    op, p = spec['op'], spec.get('pattern')
    custom = CUSTOM if spec.get('custom') else None
    if op == 'fragment':
        if not _frag:
            _frag.update(fragment_calls())      # one set of documents, so that results (element identities) are comparable
        return _frag[spec['name']]
    if op == 'compile':
        def f():
            c = sv.compile(p, custom=custom)
            return (type(c).__name__, c.pattern == p, flat(c.selectors))
        return f
    soup = wdoc()

    def ident(v):
        if v is None or isinstance(v, bool):
            return v
        if isinstance(v, bs4.Tag):
            return v.get('id') or v.name
        return [e.get('id') or e.name for e in v]
    if op == 'select':
        return lambda: ident(sv.select(p, soup, custom=custom))
    if op == 'select_one':
        return lambda: ident(sv.select_one(p, soup, custom=custom))
    if op == 'match':
        return lambda: [ident(sv.match(p, e, custom=custom)) for e in soup.find_all('p')]
    if op == 'filter':
        return lambda: ident(sv.filter(p, soup.find_all(True), custom=custom))
    if op == 'closest':
        return lambda: ident(sv.closest(p, soup.find(id='l2'), custom=custom))
    raise ValueError(op)


def kind_of(res):
    """What a call gave: its value, or the KIND of exception (the message of a RecursionError depends on where the stack ran out)."""
    return res if res is None or res[0] == 'ok' else res[:2]


# Nesting that the recursive-descent parser / matcher takes (alone) with a wide margin, and nesting that it does not take:
# a thread stopped at its deepest point needs a few frames for the tracer itself, so the band next to the limit is left out.
DEEP_OK = (150, 285)
DEEP_FAIL = (345, 460)
DEEP_FAR = (600, 900)


def long_pattern(rng, band=None):
    """A machine-generated selector: one of the long shapes a program (not a person) writes."""
    shape = rng.choice(['nest', 'nest', 'nest', 'nest_mixed', 'list', 'compound', 'chain', 'nested_list', 'attrs']) if band is None else 'nest'
    if shape in ('nest', 'nest_mixed'):
        lo, hi = band or rng.choice([(20, 120), DEEP_OK, DEEP_OK, DEEP_FAIL, DEEP_FAIL, DEEP_FAR])
        d = rng.randint(lo, hi)
        fs = [':not(', ':is(', ':where(', ':has(> ', ':not(p, ', ':is(q, ']
        if shape == 'nest':
            f = rng.choice(fs[:4])
            body = f * d
        else:
            body = ''.join(rng.choice(fs) for _ in range(d))
        return rng.choice(['p', 'li', '*', 'div ', '']) + body + rng.choice(['.k', 'p', '[id]', ':nth-child(2n+1)', ':lang(fr)']) + ')' * d
    if shape == 'list':
        n = rng.randint(100, 400)
        return ', '.join(f'x{i}' for i in range(n)) + rng.choice([', p.m', ', li:nth-child(2)', ', :lang(fr)'])
    if shape == 'compound':
        return 'p' + ''.join(f':not(.c{i})' for i in range(rng.randint(100, 300))) + '.k'
    if shape == 'chain':
        n = rng.randint(100, 280)
        return ''.join(rng.choice(['* ', '* > ', 'html ', ':is(body, div) ']) for _ in range(n)) + 'li.k'
    if shape == 'nested_list':
        d = rng.randint(20, 90)
        return 'p' + ':is(a, b, :not(c, ' * d + '.zz' + '))' * d
    n = rng.randint(100, 300)
    return 'p' + ''.join(f'[data-a{i}]' for i in range(n)) + ', ' + 'a' + ''.join(f'[href^="#"]' for i in range(n))


def short_pattern(rng):
    return rng.choice(PATTERNS + ['p.k', 'div > p', 'li:nth-child(2n+1)', ':lang(fr)', 'p:-soup-contains("beta")', 'div:has(> ul) p',
                                  'li:nth-last-child(1)', '#d1 ~ div li', 'p:not(.k)', ':is(p, li):where(.k)', 'a:any-link', ':root :empty'])


def gen_call(rng, long_p=0.5, band=None):
    if band is not None or rng.random() < long_p:
        p = long_pattern(rng, band)
        return {'op': rng.choice(['compile', 'compile', 'select', 'match']), 'pattern': p}
    p = short_pattern(rng)
    return {'op': rng.choice(['compile', 'compile', 'select', 'select_one', 'match', 'filter', 'closest']), 'pattern': p, 'custom': True}


def describe(spec):
    p = spec.get('pattern') or spec.get('name')
    return f"{spec['op']}({p if len(p) <= 60 else p[:40] + '…' + p[-12:] + f' [{len(p)} chars]'})"


def alone(spec):
    """The call on its own: in a thread of its own, under the same tracer, nothing else running, compiled afresh."""
    sv.purge()
    res, lines, _, _ = run_order([make_call(spec)], [[]], [0], watch=True)
    top = run_order.maxdepth[0]
    return kind_of(res[0]), lines[0], [k for k, d in run_order.profile[0] if d >= 0.92 * top], run_order.window[0]


def controlled(specs, pauses, order, refs=None):
    """Run one controlled schedule of the described calls; returns None when everything is as if the calls had run one at a
    time, else the description of what is not."""
    fns = [make_call(s) for s in specs]
    if refs is None:
        refs = [alone(s)[0] for s in specs]
    sv.purge()
    before = ambient()
    res, lines, steps, whole = run_order(fns, pauses, order)
    after = ambient()
    controlled.pause_depth = max(run_order.pause_depth)
    wrong = [i for i, r in enumerate(res) if kind_of(r) != refs[i]]
    changed = ambient_diff(before, after)
    later = []
    if not wrong:
        for i, s in enumerate(specs):           # afterwards, alone again, with the cache as the schedule left it
            r, _, _, _ = run_order([fns[i]], [[]], [0])
            if kind_of(r[0]) != refs[i]:
                later.append({'call': i, 'alone': repr(refs[i])[:200], 'afterwards': repr(kind_of(r[0]))[:200]})
    if changed or whole:
        ambient_restore(before)
    if not (wrong or changed or whole or later):
        return None
    what = []
    if wrong:
        what.append('a call gave something else than it gives alone')
    if later:
        what.append('a call made afterwards (alone, cache as left behind) gave something else than before')
    if changed:
        what.append('interpreter-wide settings were not left as they were found: ' + ', '.join(c['setting'] for c in changed))
    if whole:
        what.append('a call that ran from start to end while the other threads stood still changed interpreter-wide settings')
    return {'what': 'controlled schedule: ' + '; '.join(what), 'calls': specs, 'described': [describe(s) for s in specs],
            'suspension_points': pauses, 'order': order, 'steps_taken': steps,
            'results': [repr(kind_of(r))[:200] for r in res], 'alone': [repr(r)[:200] for r in refs],
            'settings_changed': changed, 'settings_changed_by_whole_call': whole, 'afterwards': later}


def free_running(specs_per_thread, refs, rounds, switch=1e-6):
    """Free-running threads on the described calls (fresh spellings, so that every call compiles).  Returns (problems, calls)."""
    problems, ncalls = [], [0]
    lock = threading.Lock()
    before = ambient()
    old = sys.getswitchinterval()
    sys.setswitchinterval(switch)
    try:
        for rnd in range(rounds):
            sv.purge()
            start = threading.Barrier(len(specs_per_thread))

            first_done = threading.Event()

            def work(k, specs, rnd=rnd, first_done=first_done, start=start):
                start.wait()
                n = 0
                # thread 0 goes through its calls once; the others keep going round theirs until it has finished
                while n == 0 or (k and not first_done.is_set() and n < 40):
                    for j, s in enumerate(specs):
                        s2 = dict(s, pattern=s['pattern'] + ' ' * (1 + (rnd * 7 + k * 3 + j + n * 5) % 23))
                        try:
                            r = ('ok', make_call(s2)())
                        except BaseException as e:      # noqa: BLE001
                            r = ('exc', type(e).__name__)
                        with lock:
                            ncalls[0] += 1
                            if r != refs[json.dumps(s, sort_keys=True)] and len(problems) < 50:
                                problems.append({'call': describe(s), 'alone': repr(refs[json.dumps(s, sort_keys=True)])[:200],
                                                 'concurrently': repr(r)[:200]})
                    n += 1
                if k == 0:
                    first_done.set()
            ts = [threading.Thread(target=work, args=(k, specs), daemon=True) for k, specs in enumerate(specs_per_thread)]
            [t.start() for t in ts]
            [t.join(STEP_LIMIT_S * 3) for t in ts]
            sys.setswitchinterval(old)
            changed = ambient_diff(before, ambient())
            if changed:
                problems.append({'settings_changed': changed, 'after_round': rnd})
            if problems:
                break
            sys.setswitchinterval(switch)
    finally:
        sys.setswitchinterval(old)
    return problems, ncalls[0]


def free_alone(spec):
    """Reference for the free-running part: same call depth as a worker thread's call, no tracer."""
    sv.purge()
    out = []

    def work(k, specs):
        try:
            out.append(('ok', make_call(spec)()))
        except BaseException as e:      # noqa: BLE001
            out.append(('exc', type(e).__name__))
    t = threading.Thread(target=work, args=(0, None), daemon=True)
    t.start()
    t.join(STEP_LIMIT_S * 3)
    return out[0] if out else ('exc', 'LibraryDidNotTerminate')


def run(chk):
    proof_ok = framework.lean_pipeline(chk, SOURCES)
    rng = random.Random(chk.seed)
    quick = chk.tier == 'quick'
    bad = []
    schedules = inside = 0

    def comp(p):
        return lambda: sv.compile(p, custom=CUSTOM).selectors
    ref = {}
    for p in PATTERNS:
        sv.purge()
        ref[p] = comp(p)()
    pairs = [(a, b) for a in PATTERNS for b in PATTERNS if a != b]
    if quick:
        pairs = rng.sample(pairs, 14)
    for pa, pb in pairs:
        sv.purge()
        _, _, n = interleave(comp(pa), comp(pb), [])
        ks = list(range(1, n + 1))
        if quick and len(ks) > 60:
            ks = sorted(rng.sample(ks, 60))
        for k in ks:
            sv.purge()
            pauses = [k] if quick or rng.random() < 0.7 else sorted({k, rng.randint(k, n)})
            ra, rb, _ = interleave(comp(pa), comp(pb), pauses)
            schedules += 1
            if 1 < k < n:
                inside += 1
            after_a, after_b = comp(pa)(), comp(pb)()
            if ra != ('ok', ref[pa]) or rb != ('ok', ref[pb]) or after_a != ref[pa] or after_b != ref[pb]:
                bad.append({'what': 'interleaved compiles differ from sequential compiles', 'thread_A': pa, 'thread_B': pb, 'A_suspended_after_line': pauses,
                            'A_result': repr(ra)[:200], 'B_result': repr(rb)[:200], 'cache_A_ok': after_a == ref[pa], 'cache_B_ok': after_b == ref[pb]})
                break
    # (2b) two different patterns that use the same custom selector from an equal, never-seen-before custom table
    cust_pairs = [(':--k', 'p :--k'), (':--k > a', ':is(:--k, b)'), ('p :--k', ':--k'), (':not(:--k)', ':--k ~ c')]
    tag = [0]

    def comp_c(p):
        t = tag[0]
        return lambda: sv.compile(p, custom={':--k': 'div > :nth-child(2)', f':--u{t}': 'u'}).selectors
    for pa, pb in cust_pairs:
        tag[0] += 1
        refa, refb = comp_c(pa)(), comp_c(pb)()
        tag[0] += 1
        sv.purge()
        _, _, n = interleave(comp_c(pa), comp_c(pb), [])
        ks = list(range(1, n + 1))
        if quick and len(ks) > 80:
            ks = sorted(rng.sample(ks, 80))
        for k in ks:
            tag[0] += 1
            sv.purge()
            ra, rb, _ = interleave(comp_c(pa), comp_c(pb), [k])
            schedules += 1
            inside += 1
            if ra != ('ok', refa) or rb != ('ok', refb):
                bad.append({'what': 'interleaved compiles of two patterns sharing a custom selector differ from sequential compiles', 'thread_A': pa,
                            'thread_B': pb, 'custom': {':--k': 'div > :nth-child(2)', ':--u<fresh>': 'u'}, 'A_suspended_after_line': [k],
                            'A_result': repr(ra)[:200], 'B_result': repr(rb)[:200]})
                break
    # (3) matching on a shared document
    kind, top = gen.gen_state_doc(rng)
    soup = gen.build_doc('html', top)
    sels = [':default', ':indeterminate', ':lang(en)', 'div :dir(ltr)', 'input:enabled', ':has(> input)']
    for sa in sels:
        for sb in rng.sample(sels, 2):
            refa = [id(e) for e in sv.select(sa, soup)]
            refb = [id(e) for e in sv.select(sb, soup)]
            _, _, n = interleave(lambda: [id(e) for e in sv.select(sa, soup)], lambda: [id(e) for e in sv.select(sb, soup)], [])
            for k in sorted(rng.sample(range(1, n + 1), min(n, 12 if quick else 80))):
                ra, rb, _ = interleave(lambda: [id(e) for e in sv.select(sa, soup)], lambda: [id(e) for e in sv.select(sb, soup)], [k])
                schedules += 1
                inside += 1
                if ra != ('ok', refa) or rb != ('ok', refb):
                    bad.append({'what': 'interleaved select() calls differ from sequential ones', 'thread_A': sa, 'thread_B': sb,
                                'A_suspended_after_line': [k]})
                    break
    # (3b) different documents and detached fragments through every entry point
    calls = fragment_calls()
    _frag.clear()
    _frag.update(calls)
    cpairs = [(a, b) for a in calls for b in calls if a is not b]
    if quick:
        cpairs = rng.sample(cpairs, 24) + [(calls[-2], calls[-1]), (calls[-1], calls[-2]), (calls[-1], calls[-1])]
    for (na, fa), (nb, fb) in cpairs:
        refa, refb = fa(), fb()
        _, _, n = interleave(fa, fb, [])
        every = '<fresh>' in na and '<fresh>' in nb        # cache-miss pairs: every suspension point
        for k in sorted(rng.sample(range(1, n + 1), min(n, n if every or not quick else 40))):
            ra, rb, _ = interleave(fa, fb, [k])
            schedules += 1
            inside += 1
            if ra != ('ok', refa) or rb != ('ok', refb):
                bad.append({'what': 'a call on one tree changed its result because a call on another tree ran in the middle of it',
                            'thread_A': na, 'thread_B': nb, 'A_suspended_after_line': [k], 'A_result': repr(ra), 'A_alone': repr(refa),
                            'B_result': repr(rb), 'B_alone': repr(refb)})
                break
    # (5) general schedules: calls that OVERLAP (A starts, B starts, A ends, B ends — above, B always ran from start to end inside
    #     A), two or three threads, ordinary and machine-generated long patterns; besides the results, the interpreter-wide
    #     settings (recursion limit, warnings filters, locale, sys.modules, …) must be as they were before the schedule
    import time
    t5 = time.time()
    amb0 = ambient()
    over = {'schedules': 0, 'overlapping': 0, 'three_threads': 0, 'long_patterns': 0, 'long_fail_alone': 0,
            'suspended_deeper_than_700_frames': 0, 'calls_that_change_a_setting_midway': 0, 'suspended_inside_a_changed_setting': 0,
            'violations': 0}
    gbad = []
    ref_cache = {}

    def ref_of(spec):
        key = json.dumps(spec, sort_keys=True)
        if key not in ref_cache:
            ref_cache[key] = alone(spec)
            over['calls_that_change_a_setting_midway'] += bool(ref_cache[key][3])
        return ref_cache[key]

    def orders(n, pauses):
        """A random interleaving of the threads' segments in which some thread runs while another is suspended."""
        segs = [i for i in range(n) for _ in range(len(pauses[i]) + 1)]
        for _ in range(20):
            rng.shuffle(segs)
            if any(segs[j] != segs[j + 1] and segs[j] in segs[j + 1:] for j in range(len(segs) - 1)):
                break
        return list(segs)

    def try_schedule(specs, pauses, order):
        refs = [ref_of(s)[0] for s in specs]
        b = controlled(specs, pauses, order, refs)
        over['schedules'] += 1
        first = {}
        for pos, i in enumerate(order):
            first.setdefault(i, pos)
        last = {i: len(order) - 1 - order[::-1].index(i) for i in first}
        if any(first[i] < first[j] < last[i] < last[j] for i in first for j in first if i != j):
            over['overlapping'] += 1
        over['three_threads'] += len(specs) > 2
        over['suspended_deeper_than_700_frames'] += controlled.pause_depth > 700
        if b:
            over['violations'] += 1
            if len(gbad) < 80:
                gbad.append(b)
        return b

    def pick_pauses(spec, n):
        _, lines, deepest, window = ref_of(spec)
        if window and rng.random() < 0.6:
            # lines at which the call, run alone, had an interpreter-wide setting changed: suspend it there
            over['suspended_inside_a_changed_setting'] += 1
            return sorted(rng.sample(window, min(n, len(window))))
        if deepest and len(spec.get('pattern', '')) > 200 and rng.random() < 0.7:
            # a long pattern: suspended where its stack is (nearly) at its deepest
            return sorted(rng.sample(deepest, min(n, len(deepest))))
        return sorted(rng.sample(range(1, lines + 1), min(n, lines)))
    # (5a) ordinary patterns, compile × compile, overlapping
    opairs = [(a, b) for a in PATTERNS for b in PATTERNS if a != b]
    for pa, pb in rng.sample(opairs, 10 if quick else 60):
        sa, sb = {'op': 'compile', 'pattern': pa, 'custom': True}, {'op': 'compile', 'pattern': pb, 'custom': True}
        for _ in range(8 if quick else 40):
            if try_schedule([sa, sb], [pick_pauses(sa, 1), pick_pauses(sb, 1)], [0, 1, 0, 1]):
                break
    # (5a') calls that, run alone, have an interpreter-wide setting changed at some of their lines: every such call next to a few
    #       others of them, both suspended at such a line (however few these lines are)
    wspecs = [{'op': 'compile', 'pattern': p, 'custom': True} for p in PATTERNS] + [
        {'op': op, 'pattern': p, 'custom': True} for op, p in (('select', 'p.k'), ('match', 'p:nth-child(2)'), ('filter', ':lang(fr)'),
                                                               ('closest', 'div:has(li)'), ('select_one', 'p:-soup-contains("beta")'))]
    withwin = [s for s in wspecs if ref_of(s)[3]]
    for sa in withwin:
        for sb in rng.sample(withwin, min(len(withwin), 3 if quick else 8)):
            over['suspended_inside_a_changed_setting'] += 1
            try_schedule([sa, sb], [[rng.choice(ref_of(sa)[3])], [rng.choice(ref_of(sb)[3])]], [0, 1, 0, 1])
    t5a = time.time()
    # (5b) every entry point on different documents / detached fragments, overlapping
    fspecs = [{'op': 'fragment', 'name': n} for n, _ in calls if '<fresh>' not in n]
    for _ in range(10 if quick else 80):
        sa, sb = rng.sample(fspecs, 2)
        for _ in range(3 if quick else 10):
            if try_schedule([sa, sb], [pick_pauses(sa, 1), pick_pauses(sb, 1)], [0, 1, 0, 1]):
                break
    t5b = time.time()
    # (5c) one call that needs (nearly, or more than) the whole stack next to an ordinary one, both orders of starting
    for band in ([DEEP_OK, DEEP_FAIL] if quick else [DEEP_OK, DEEP_FAIL, DEEP_OK, DEEP_FAIL, DEEP_FAR, (20, 120)] * 3):
        deep = gen_call(rng, band=band)
        light = gen_call(rng, long_p=0.0)
        over['long_patterns'] += 1
        over['long_fail_alone'] += ref_of(deep)[0][0] != 'ok'
        for specs in ([light, deep], [deep, light]):
            for _ in range(3 if quick else 8):
                pauses = [pick_pauses(s, 1) for s in specs]
                if try_schedule(specs, pauses, [0, 1, 0, 1]):
                    break
    t5c = time.time()
    # (5d) random mixes: two or three threads, any of the long shapes, one to three suspension points each, any interleaving
    for _ in range(8 if quick else 120):
        n = 3 if rng.random() < 0.3 else 2
        specs = [gen_call(rng, long_p=0.5) for _ in range(n)]
        for s in specs:
            if len(s['pattern']) > 200:
                over['long_patterns'] += 1
                over['long_fail_alone'] += ref_of(s)[0][0] != 'ok'
        pauses = [pick_pauses(s, 1 if quick else rng.randint(1, 3)) for s in specs]
        try_schedule(specs, pauses, orders(n, pauses))
    t5d = time.time()
    kinds = {}
    for b in gbad:
        kinds.setdefault(b['what'], []).append(b)
    over['kinds_of_violation'] = {k: len(v) for k, v in kinds.items()}
    picked = [v[0] for v in kinds.values()] + [b for v in kinds.values() for b in v[1:]]       # one of every kind first
    bad.extend(picked[:5])
    # (5e) free-running threads on the same kind of work load: one thread with long patterns, three with ordinary ones
    heavy = [gen_call(rng, band=b) for b in (DEEP_OK, DEEP_OK, DEEP_FAIL, DEEP_FAIL, DEEP_FAR)] + [gen_call(rng, long_p=1.0) for _ in range(2)]
    lights = [[gen_call(rng, long_p=0.0) for _ in range(12)] for _ in range(3)]
    for s in heavy:
        s['op'] = rng.choice(['compile', 'select'])
    frefs = {json.dumps(s, sort_keys=True): free_alone(s) for s in heavy + sum(lights, [])}
    fprob, fcalls = free_running([heavy] + lights, frefs, 3 if quick else 60)
    if fprob:
        bad.append({'what': 'free-running threads (one compiling long machine-generated patterns, three compiling ordinary ones): a call gave '
                            'something else than it gives alone, or interpreter-wide settings were not left as they were found',
                    'free_running': {'threads': [heavy] + lights, 'rounds': 3 if quick else 60}, 'problems': fprob[:6], 'count': len(fprob)})
    ambient_restore(amb0)
    over['seconds_5a_5b_5c_5d_5e'] = [round(x, 1) for x in (t5a - t5, t5b - t5a, t5c - t5b, t5d - t5c, time.time() - t5d)]
    chk.coverage.update({'general_schedules': over, 'free_running_mixed_calls': fcalls,
                         'interpreter_wide_settings_watched': sorted(amb0)})
    # (4) free-running smoke test
    old = sys.getswitchinterval()
    sys.setswitchinterval(1e-6)
    errs = []

    def worker(i):
        for j in range(300 if quick else 5000):
            p = PATTERNS[(i + j) % len(PATTERNS)]
            try:
                if cp.CSSParser(p, custom=cp.process_custom(sv.ct.CustomSelectors(CUSTOM))).process_selectors() != ref[p]:
                    errs.append(('wrong', p))
            except Exception as e:
                errs.append((type(e).__name__, p))
    ts = [threading.Thread(target=worker, args=(i,)) for i in range(8)]
    [t.start() for t in ts]
    [t.join() for t in ts]
    sys.setswitchinterval(old)
    if errs:
        bad.append({'what': 'free-running threads: exceptions or wrong structures', 'count': len(errs), 'first': repr(errs[:3])})
    sv.purge()
    chk.samples = [{'thread_A': pairs[0][0], 'thread_B': pairs[0][1]}, {'patterns': PATTERNS}]
    chk.coverage.update({'pattern_pairs': len(pairs), 'schedules': schedules, 'schedules_inside_window': inside, 'violations': len(bad),
                         'free_running_parses': 8 * (300 if quick else 5000)})
    for i, b in enumerate(bad[:5]):
        chk.violation(f'sched{i}', b, concrete=True)
    if not proof_ok and not bad:
        chk.violation('proof', {'what': 'proof obligation no longer checks (a store to a shared or tree object was extracted from the source, or the '
                                        'scheduling theorems broke); the controlled-schedule search found no failing interleaving',
                                'theorem_or_correspondence': 'SoupVerif.C14.shared_slots_empty / noninterference',
                                'detail': chk.notes.get('proof_broken')}, concrete=False)
    return chk.finish(rule=RULE, evaluations=schedules, distinct=inside)


def replay(chk, path):
    data = json.load(open(path))
    if 'thread_A' in data and data.get('what', '').startswith('interleaved compiles'):
        pa, pb = data['thread_A'], data['thread_B']
        sv.purge()
        refa = sv.compile(pa, custom=CUSTOM).selectors
        refb = sv.compile(pb, custom=CUSTOM).selectors
        sv.purge()
        ra, rb, _ = interleave(lambda: sv.compile(pa, custom=CUSTOM).selectors, lambda: sv.compile(pb, custom=CUSTOM).selectors,
                               data['A_suspended_after_line'])
        ok = ra == ('ok', refa) and rb == ('ok', refb)
        print(json.dumps({'ok': ok}))
        if not ok:
            print(f'VIOLATION property={PID} replay={path}')
            return 1
    elif 'calls' in data and 'order' in data:
        b = controlled(data['calls'], data['suspension_points'], data['order'])
        print(json.dumps({'ok': b is None, 'found': b and {k: b[k] for k in ('what', 'results', 'alone', 'settings_changed', 'afterwards')}}, default=repr))
        if b:
            print(f'VIOLATION property={PID} replay={path}')
            return 1
    elif 'free_running' in data:
        threads = data['free_running']['threads']
        frefs = {json.dumps(s, sort_keys=True): free_alone(s) for s in sum(threads, [])}
        prob, n = free_running(threads, frefs, max(40, 10 * data['free_running']['rounds']))
        print(json.dumps({'ok': not prob, 'calls': n, 'problems': prob[:4]}, default=repr))
        if prob:
            print(f'VIOLATION property={PID} replay={path}')
            return 1
    elif str(data.get('what', '')).startswith('a call on one tree'):
        calls = dict(fragment_calls())
        fa, fb = calls[data['thread_A']], calls[data['thread_B']]
        refa, refb = fa(), fb()
        ra, rb, _ = interleave(fa, fb, data['A_suspended_after_line'])
        ok = ra == ('ok', refa) and rb == ('ok', refb)
        print(json.dumps({'ok': ok, 'A': repr(ra), 'A_alone': repr(refa)}))
        if not ok:
            print(f'VIOLATION property={PID} replay={path}')
            return 1
    return 0
