"""C14: concurrent compilation and matching behave as if run one at a time."""
import json
import random
import sys
import threading
import warnings

import bs4
import soupsieve as sv
from soupsieve import css_parser as cp

import framework
import gen

warnings.simplefilter('ignore')
PID = 'C14'
SOURCES = ['SoupVerif/Properties/C14.lean', 'SoupVerif/Model/Sched.lean', 'SoupVerif/Generated/Effects.lean']
RULE = ('(1) the sets of stores to shared objects / bs4 objects are re-extracted from the source and the theorems '
        'shared_slots_empty, tree_writes_fresh_only etc. re-checked; (2) controlled schedules on the real code: thread A compiles '
        'pattern pA under a line tracer and is suspended after its k-th line inside soupsieve (every k up to the end of the '
        'compile), thread B then compiles pB to completion, A resumes; for every pair (pA, pB) from a set that exercises each '
        'special pseudo-class handler; A\'s and B\'s results and the pattern cache afterwards must equal the sequential results; '
        'thorough adds two suspension points per run; (3) the same with select()/match() on one shared document, and (3b) with match / select / select_one / closest / filter on different documents and detached fragments (nth tests on a parentless root); (4) '
        'free-running threads with a tiny switch interval as a smoke test. Non-trivial = schedules in which B runs while A is '
        'inside the tokenizer or the parser loop (not before its first or after its last line).')

PATTERNS = [':nth-child(2n+1)', ':lang(en, "de-*")', ':-soup-contains("x", y)', ':dir(rtl)', ':nth-of-type(3)', 'a > b.c[d=e]:not(f)',
            ':nth-last-child(odd of p, q)', ':is(a, :lang(fr)) + :nth-child(even)', ':--k', 'p:checked ~ :default']
CUSTOM = {':--k': 'div > :nth-child(2)'}
FILES = ('css_parser.py', 'css_match.py', 'util.py', 'css_types.py', '__init__.py')


_fresh = __import__('itertools').count()


def fragment_calls():
    import bs4

    def frag(markup, name):
        return bs4.BeautifulSoup(markup, 'html.parser').find(name).extract()
    f1 = frag('<ul class="a"><li>1</li><li class="x">2</li><li>3</li></ul>', 'ul')
    f2 = frag('<ol><li class="x">1</li><li>2</li></ol>', 'ol')
    d2 = bs4.BeautifulSoup('<div><p class="x">a</p><p>b</p><span>c</span></div>', 'html.parser')

    def ids(v):
        if v is None or isinstance(v, bool):
            return v
        if isinstance(v, bs4.Tag):
            return id(v)
        return [id(e) for e in v]
    calls = [
        ('match(ul:first-child, frag1)', lambda: ids(sv.match('ul:first-child', f1))),
        ('match(ol:nth-child(1), frag2)', lambda: ids(sv.match('ol:nth-child(1)', f2))),
        ('match(:only-child, frag2)', lambda: ids(sv.match(':only-child', f2))),
        ('select(:first-child > li:nth-child(2), frag1)', lambda: ids(sv.select(':last-child > li:nth-child(2)', f1))),
        ('select(li:nth-last-child(1), frag2)', lambda: ids(sv.select('li:nth-last-child(1)', f2))),
        ('closest(ul:last-child, li of frag1)', lambda: ids(sv.closest('ul:last-child', f1.li))),
        ('filter(.x, frag2)', lambda: ids(sv.filter('.x', f2))),
        ('filter(:nth-of-type(1), [frag1, frag2])', lambda: ids(sv.filter(':nth-of-type(1)', [f1, f2]))),
        ('select(p:nth-child(2), doc2)', lambda: ids(sv.select('p:nth-child(2), :root:first-child', d2))),
        ('select_one(:has(> .x), frag1)', lambda: ids(sv.select_one(':root:has(> .x)', f1) or sv.match(':root:has(> .x)', f1))),
        # names never seen before (misses of every process-wide string cache, which has been filled beyond its bound first)
        ('select(p[Data-<fresh>], doc2)', lambda: ids(sv.select(f'P[Data-N{next(_fresh)}], p.x', d2))),
        ('match(li[Title-<fresh>=V], li of frag1)', lambda: ids(sv.match(f'LI:not([Title-M{next(_fresh)}=V])', f1.li))),
    ]
    from soupsieve import util as _util
    for i in range(700):
        _util.lower(f'Warm-{i}-{next(_fresh)}')
    return calls


class Paused(threading.Thread):
    """Run fn; suspend after the k-th traced line in soupsieve code until released."""

    def __init__(self, fn, pauses):
        super().__init__(daemon=True)
        self.fn, self.pauses = fn, sorted(pauses)
        self.count = 0
        self.at = threading.Event()
        self.go = threading.Event()
        self.done = threading.Event()
        self.result = None
        self.lines = 0

    def tracer(self, frame, event, arg):
        if not frame.f_code.co_filename.endswith(FILES) or '/soupsieve/' not in frame.f_code.co_filename:
            return None
        if event == 'line':
            self.count += 1
            if self.pauses and self.count == self.pauses[0]:
                self.pauses.pop(0)
                self.at.set()
                self.go.wait()
                self.go.clear()
        return self.tracer

    def run(self):
        sys.settrace(self.tracer)
        try:
            self.result = ('ok', self.fn())
        except BaseException as e:
            self.result = ('exc', type(e).__name__, str(e).split('\n')[0])
        finally:
            sys.settrace(None)
            self.lines = self.count
            self.done.set()
            self.at.set()


def interleave(fa, fb, pauses):
    """A runs to each pause point, B runs completely at the first one, A finishes. Returns (resA, resB, linesA)."""
    a = Paused(fa, list(pauses))
    a.start()
    a.at.wait()
    resb = None
    first = True
    while not a.done.is_set():
        a.at.clear()
        if first:
            try:
                resb = ('ok', fb())
            except BaseException as e:
                resb = ('exc', type(e).__name__, str(e).split('\n')[0])
            first = False
        a.go.set()
        a.at.wait()
    a.join()
    if first:
        try:
            resb = ('ok', fb())
        except BaseException as e:
            resb = ('exc', type(e).__name__, str(e).split('\n')[0])
    return a.result, resb, a.lines


def run(chk):
    proof_ok = framework.lean_pipeline(chk, SOURCES)
    rng = random.Random(chk.seed)
    quick = chk.tier == 'quick'
    bad = []
    schedules = inside = 0

    def comp(p):
        return lambda: sv.compile(p, custom=CUSTOM).selectors
    ref = {}
    for p in PATTERNS:
        sv.purge()
        ref[p] = comp(p)()
    pairs = [(a, b) for a in PATTERNS for b in PATTERNS if a != b]
    if quick:
        pairs = rng.sample(pairs, 14)
    for pa, pb in pairs:
        sv.purge()
        _, _, n = interleave(comp(pa), comp(pb), [])
        ks = list(range(1, n + 1))
        if quick and len(ks) > 60:
            ks = sorted(rng.sample(ks, 60))
        for k in ks:
            sv.purge()
            pauses = [k] if quick or rng.random() < 0.7 else sorted({k, rng.randint(k, n)})
            ra, rb, _ = interleave(comp(pa), comp(pb), pauses)
            schedules += 1
            if 1 < k < n:
                inside += 1
            after_a, after_b = comp(pa)(), comp(pb)()
            if ra != ('ok', ref[pa]) or rb != ('ok', ref[pb]) or after_a != ref[pa] or after_b != ref[pb]:
                bad.append({'what': 'interleaved compiles differ from sequential compiles', 'thread_A': pa, 'thread_B': pb, 'A_suspended_after_line': pauses,
                            'A_result': repr(ra)[:200], 'B_result': repr(rb)[:200], 'cache_A_ok': after_a == ref[pa], 'cache_B_ok': after_b == ref[pb]})
                break
    # (2b) two different patterns that use the same custom selector from an equal, never-seen-before custom table
    cust_pairs = [(':--k', 'p :--k'), (':--k > a', ':is(:--k, b)'), ('p :--k', ':--k'), (':not(:--k)', ':--k ~ c')]
    tag = [0]

    def comp_c(p):
        t = tag[0]
        return lambda: sv.compile(p, custom={':--k': 'div > :nth-child(2)', f':--u{t}': 'u'}).selectors
    for pa, pb in cust_pairs:
        tag[0] += 1
        refa, refb = comp_c(pa)(), comp_c(pb)()
        tag[0] += 1
        sv.purge()
        _, _, n = interleave(comp_c(pa), comp_c(pb), [])
        ks = list(range(1, n + 1))
        if quick and len(ks) > 80:
            ks = sorted(rng.sample(ks, 80))
        for k in ks:
            tag[0] += 1
            sv.purge()
            ra, rb, _ = interleave(comp_c(pa), comp_c(pb), [k])
            schedules += 1
            inside += 1
            if ra != ('ok', refa) or rb != ('ok', refb):
                bad.append({'what': 'interleaved compiles of two patterns sharing a custom selector differ from sequential compiles', 'thread_A': pa,
                            'thread_B': pb, 'custom': {':--k': 'div > :nth-child(2)', ':--u<fresh>': 'u'}, 'A_suspended_after_line': [k],
                            'A_result': repr(ra)[:200], 'B_result': repr(rb)[:200]})
                break
    # (3) matching on a shared document
    kind, top = gen.gen_state_doc(rng)
    soup = gen.build_doc('html', top)
    sels = [':default', ':indeterminate', ':lang(en)', 'div :dir(ltr)', 'input:enabled', ':has(> input)']
    for sa in sels:
        for sb in rng.sample(sels, 2):
            refa = [id(e) for e in sv.select(sa, soup)]
            refb = [id(e) for e in sv.select(sb, soup)]
            _, _, n = interleave(lambda: [id(e) for e in sv.select(sa, soup)], lambda: [id(e) for e in sv.select(sb, soup)], [])
            for k in sorted(rng.sample(range(1, n + 1), min(n, 12 if quick else 80))):
                ra, rb, _ = interleave(lambda: [id(e) for e in sv.select(sa, soup)], lambda: [id(e) for e in sv.select(sb, soup)], [k])
                schedules += 1
                inside += 1
                if ra != ('ok', refa) or rb != ('ok', refb):
                    bad.append({'what': 'interleaved select() calls differ from sequential ones', 'thread_A': sa, 'thread_B': sb,
                                'A_suspended_after_line': [k]})
                    break
    # (3b) different documents and detached fragments through every entry point
    calls = fragment_calls()
    cpairs = [(a, b) for a in calls for b in calls if a is not b]
    if quick:
        cpairs = rng.sample(cpairs, 24) + [(calls[-2], calls[-1]), (calls[-1], calls[-2]), (calls[-1], calls[-1])]
    for (na, fa), (nb, fb) in cpairs:
        refa, refb = fa(), fb()
        _, _, n = interleave(fa, fb, [])
        every = '<fresh>' in na and '<fresh>' in nb        # cache-miss pairs: every suspension point
        for k in sorted(rng.sample(range(1, n + 1), min(n, n if every or not quick else 40))):
            ra, rb, _ = interleave(fa, fb, [k])
            schedules += 1
            inside += 1
            if ra != ('ok', refa) or rb != ('ok', refb):
                bad.append({'what': 'a call on one tree changed its result because a call on another tree ran in the middle of it',
                            'thread_A': na, 'thread_B': nb, 'A_suspended_after_line': [k], 'A_result': repr(ra), 'A_alone': repr(refa),
                            'B_result': repr(rb), 'B_alone': repr(refb)})
                break
    # (4) free-running smoke test
    old = sys.getswitchinterval()
    sys.setswitchinterval(1e-6)
    errs = []

    def worker(i):
        for j in range(300 if quick else 5000):
            p = PATTERNS[(i + j) % len(PATTERNS)]
            try:
                if cp.CSSParser(p, custom=cp.process_custom(sv.ct.CustomSelectors(CUSTOM))).process_selectors() != ref[p]:
                    errs.append(('wrong', p))
            except Exception as e:
                errs.append((type(e).__name__, p))
    ts = [threading.Thread(target=worker, args=(i,)) for i in range(8)]
    [t.start() for t in ts]
    [t.join() for t in ts]
    sys.setswitchinterval(old)
    if errs:
        bad.append({'what': 'free-running threads: exceptions or wrong structures', 'count': len(errs), 'first': repr(errs[:3])})
    sv.purge()
    chk.samples = [{'thread_A': pairs[0][0], 'thread_B': pairs[0][1]}, {'patterns': PATTERNS}]
    chk.coverage.update({'pattern_pairs': len(pairs), 'schedules': schedules, 'schedules_inside_window': inside, 'violations': len(bad),
                         'free_running_parses': 8 * (300 if quick else 5000)})
    for i, b in enumerate(bad[:5]):
        chk.violation(f'sched{i}', b, concrete=True)
    if not proof_ok and not bad:
        chk.violation('proof', {'what': 'proof obligation no longer checks (a store to a shared or tree object was extracted from the source, or the '
                                        'scheduling theorems broke); the controlled-schedule search found no failing interleaving',
                                'theorem_or_correspondence': 'SoupVerif.C14.shared_slots_empty / noninterference',
                                'detail': chk.notes.get('proof_broken')}, concrete=False)
    return chk.finish(rule=RULE, evaluations=schedules, distinct=inside)


def replay(chk, path):
    data = json.load(open(path))
    if 'thread_A' in data and data.get('what', '').startswith('interleaved compiles'):
        pa, pb = data['thread_A'], data['thread_B']
        sv.purge()
        refa = sv.compile(pa, custom=CUSTOM).selectors
        refb = sv.compile(pb, custom=CUSTOM).selectors
        sv.purge()
        ra, rb, _ = interleave(lambda: sv.compile(pa, custom=CUSTOM).selectors, lambda: sv.compile(pb, custom=CUSTOM).selectors,
                               data['A_suspended_after_line'])
        ok = ra == ('ok', refa) and rb == ('ok', refb)
        print(json.dumps({'ok': ok}))
        if not ok:
            print(f'VIOLATION property={PID} replay={path}')
            return 1
    elif str(data.get('what', '')).startswith('a call on one tree'):
        calls = dict(fragment_calls())
        fa, fb = calls[data['thread_A']], calls[data['thread_B']]
        refa, refb = fa(), fb()
        ra, rb, _ = interleave(fa, fb, data['A_suspended_after_line'])
        ok = ra == ('ok', refa) and rb == ('ok', refb)
        print(json.dumps({'ok': ok, 'A': repr(ra), 'A_alone': repr(refa)}))
        if not ok:
            print(f'VIOLATION property={PID} replay={path}')
            return 1
    return 0
