"""C16: importing works in either order and Beautiful Soup can always select."""
import itertools
import json
import os
import random
import subprocess
from concurrent.futures import ThreadPoolExecutor

import driver
import enc
import framework

PID = 'C16'
SOURCES = ['SoupVerif/Properties/C16.lean', 'SoupVerif/Model/Imports.lean', 'SoupVerif/Lemmas/Imports.lean', 'SoupVerif/Generated/Imports.lean']
RULE = ('every sequence of import statements of length <= k (exhaustive) over the eight entry points {import bs4; from bs4 import '
        'BeautifulSoup; import bs4.element; import soupsieve; import soupsieve.css_match; import soupsieve.css_parser; import '
        'soupsieve.css_types; from soupsieve import *}, each in a FRESH interpreter (python -W error -c ...), followed by '
        'BeautifulSoup(markup, parser).select(selector) and soupsieve.select on the same markup: exit status 0, empty stdout and '
        'stderr apart from the result line, and the two results equal and equal across sequences (the property itself); the Lean '
        'import model (event lists regenerated from the sources of soupsieve and the installed bs4) must predict the same '
        'outcome for each sequence. Non-trivial = the sequence starts with a bs4 statement or mixes both packages.')

ENTRY = ['import bs4', 'from bs4 import BeautifulSoup', 'import bs4.element', 'import soupsieve', 'import soupsieve.css_match',
         'import soupsieve.css_parser', 'import soupsieve.css_types', 'from soupsieve import *']
PROBE = ("import bs4, soupsieve; s = bs4.BeautifulSoup('<!DOCTYPE html><!-- c --><html><body><div><p id=a><!--x--></p><p class=b>y</p>"
         "<input type=radio></div></body></html>', 'html.parser'); "
         "q = 'div > p:nth-child(2), :indeterminate, :root, p:empty, p:-soup-contains(x)'; "
         "a = [str(e)[:20] for e in s.select(q)]; b = [str(e)[:20] for e in soupsieve.select(q, s)]; "
         "print('RESULT', a == b, len(a), a)")


def run_seq(seq):
    code = '; '.join(ENTRY[i] for i in seq) + '; ' + PROBE
    env = dict(os.environ)
    env.pop('PYTHONPATH', None)
    if os.environ.get('SOUPVERIF_REPO'):        # isolated-copy mode: the fresh interpreter must import that tree too
        env['PYTHONPATH'] = os.environ['SOUPVERIF_REPO']
    p = subprocess.run(['/venv/bin/python', '-W', 'error', '-c', code], stdout=subprocess.PIPE, stderr=subprocess.PIPE, cwd='/tmp',
                       env=env, timeout=120)
    out = p.stdout.decode()
    lines = [l for l in out.splitlines() if l.strip()]
    return {'seq': list(seq), 'rc': p.returncode, 'stdout_extra': [l for l in lines if not l.startswith('RESULT')],
            'result': next((l for l in lines if l.startswith('RESULT')), None), 'stderr': p.stderr.decode()[-400:]}


def run(chk):
    proof_ok = framework.lean_pipeline(chk, SOURCES)
    driver_ok = proof_ok or chk.build(['svdriver'])[0]
    quick = chk.tier == 'quick'
    k = 2 if quick else 3
    seqs = [s for n in range(1, k + 1) for s in itertools.product(range(8), repeat=n)]
    with ThreadPoolExecutor(max_workers=14) as ex:
        results = list(ex.map(run_seq, seqs))
    bad = []
    ref = None
    nontriv = 0
    for r in results:
        if r['seq'][0] < 3 or (any(i < 3 for i in r['seq']) and any(i >= 3 for i in r['seq'])):
            nontriv += 1
        ok = r['rc'] == 0 and not r['stdout_extra'] and not r['stderr'].strip() and r['result'] and r['result'].startswith('RESULT True 4 ')
        if ok:
            ref = ref or r['result']
            ok = r['result'] == ref
        if not ok:
            bad.append({'imports': [ENTRY[i] for i in r['seq']], **r, 'replay_command': "cd /tmp && /venv/bin/python -W error -c " + json.dumps('; '.join(ENTRY[i] for i in r['seq']) + '; ' + PROBE)})
    corr_bad = []
    if driver_ok:
        resp = driver.run([f'(16 ({" ".join(map(str, s))}))' for s in seqs])
        for s, r, line in zip(seqs, results, resp):
            m = enc.parse_sx(line)
            model_ok = isinstance(m, list) and m[0] == 1 and (len(m) < 2 or m[1] == 1)
            if model_ok != (r['rc'] == 0):
                corr_bad.append({'imports': [ENTRY[i] for i in s], 'interpreter_rc': r['rc'], 'model': m})
    chk.samples = [{'imports': [ENTRY[i] for i in seqs[j]], 'result': results[j]['result']} for j in (0, 8, 40)]
    chk.coverage.update({'sequences': len(seqs), 'max_length': k, 'exhaustive': True, 'failures': len(bad), 'model_mismatches': len(corr_bad)})
    for i, b in enumerate(bad[:5]):
        chk.violation(f'imp{i}', {'what': 'import sequence fails, prints, or the two select paths disagree', **b}, concrete=True)
    for i, b in enumerate(corr_bad[:3]):
        chk.violation(f'corr{i}', {'correspondence': 'fresh interpreter ≡ Lean import model', **b}, concrete=False)
    if not proof_ok and not (bad or corr_bad):
        chk.violation('proof', {'what': 'proof obligation no longer checks (regenerated import-time event lists); every import sequence '
                                        'tried succeeds in a fresh interpreter', 'theorem_or_correspondence': 'SoupVerif.Properties.C16',
                                'detail': chk.notes.get('proof_broken')}, concrete=False)
    return chk.finish(rule=RULE, evaluations=len(seqs), distinct=nontriv)


def replay(chk, path):
    data = json.load(open(path))
    r = run_seq(data['seq'])
    print(json.dumps(r))
    if r['rc'] != 0 or r['stdout_extra'] or r['stderr'].strip():
        print(f'VIOLATION property={PID} replay={path}')
        return 1
    return 0
