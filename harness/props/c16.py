"""C16: importing works in either order and Beautiful Soup can always select."""
import itertools
import json
import os
import random
import re
import subprocess
import tempfile
from concurrent.futures import ThreadPoolExecutor

import driver
import enc
import framework
import gen

PID = 'C16'
SOURCES = ['SoupVerif/Properties/C16.lean', 'SoupVerif/Model/Imports.lean', 'SoupVerif/Lemmas/Imports.lean', 'SoupVerif/Generated/Imports.lean']
RULE = ('every sequence of import statements of length <= k (exhaustive) over the eight entry points {import bs4; from bs4 import '
        'BeautifulSoup; import bs4.element; import soupsieve; import soupsieve.css_match; import soupsieve.css_parser; import '
        'soupsieve.css_types; from soupsieve import *}, each in a FRESH interpreter (python -W error -c ...), followed by '
        'BeautifulSoup(markup, parser).select(selector) and soupsieve.select on the same markup: exit status 0, empty stdout and '
        'stderr apart from the result line, and the two results equal and equal across sequences (the property itself); the Lean '
        'import model (event lists regenerated from the sources of soupsieve and the installed bs4) must predict the same '
        'outcome for each sequence. Non-trivial = the sequence starts with a bs4 statement or mixes both packages. '
        'PROGRAMS AFTER THE IMPORTS: the same generated list of programs (markup x parser x edits made through the Beautiful '
        'Soup API x queries) is run in a fresh interpreter after every import sequence of length <= 2 and after further import '
        'forms (submodules, from-imports, aliases, importlib), through Beautiful Soup (select / select_one / css.match / closest '
        '/ filter / iselect / precompiled) and through soupsieve; every answer (matched elements, or the exception type) and '
        'every warning category must be the same whichever import came first, and the two paths must agree. The programs cover '
        'attribute values ASSIGNED through the API (list / tuple / AttributeValueList / list subclass / deque / range / '
        'bytearray holding int, float, bytes, None, bool, nested lists, str subclasses, string nodes, arbitrary objects; '
        'scalars of those types; replaced attrs mappings; NamespacedAttribute keys) on class, id, rel, lang, dir, type, value, '
        'min/max, content, ... with selectors aimed at their string form; string nodes of every Beautiful Soup class and of '
        'user subclasses inserted in elements and at document level (:empty, :-soup-contains, :dir, :root, ...); tags made by '
        'new_tag / Tag() / a Tag subclass, with namespaces; nested BeautifulSoup objects; detached subtrees; copies; and random '
        'documents with random edits and selectors. CHARACTER CLASSES (group `chars`): every character that some definition calls '
        'white space (the 29 of str.isspace, 5 of them CSS white space) plus control / format characters, letters whose case '
        'mapping is not the ASCII one (Kelvin sign, long s, dotted / dotless i, sharp s, full-width, ...) and non-ASCII digits, '
        'at every place where the matcher or the selector parser classifies characters: string-valued class / rel / headers / id '
        '/ ... that reach soupsieve UNSPLIT (XML parser, builders made with multi_valued_attributes=None or a custom list, values '
        'assigned as str / str subclass / string node / inside a replaced attrs mapping / given to new_tag) with class, id and '
        '[a~=w] selectors aimed at every reading of the word boundaries; attribute values under the `i` flag, attribute and '
        'element names made through the API, type / lang / dir / checked / http-equiv spelled in other case; text nodes made of '
        'each character (:empty, :root, :-soup-contains, :placeholder-shown, :dir with dir=auto and first-strong characters of '
        'many scripts); number / date / time values of inputs written with other digits, separators and padding '
        '(:in-range / :out-of-range); and the selector text itself (each character as combinator / padding / escape terminator, '
        'keywords and flags in other case, nth expressions with other digits).')

ENTRY = ['import bs4', 'from bs4 import BeautifulSoup', 'import bs4.element', 'import soupsieve', 'import soupsieve.css_match',
         'import soupsieve.css_parser', 'import soupsieve.css_types', 'from soupsieve import *']
PROBE = ("import bs4, soupsieve; s = bs4.BeautifulSoup('<!DOCTYPE html><!-- c --><html><body><div><p id=a><!--x--></p><p class=b>y</p>"
         "<input type=radio></div></body></html>', 'html.parser'); "
         "q = 'div > p:nth-child(2), :indeterminate, :root, p:empty, p:-soup-contains(x)'; "
         "a = [str(e)[:20] for e in s.select(q)]; b = [str(e)[:20] for e in soupsieve.select(q, s)]; "
         "print('RESULT', a == b, len(a), a)")


def run_seq(seq):
    code = '; '.join(ENTRY[i] for i in seq) + '; ' + PROBE
    env = dict(os.environ)
    env.pop('PYTHONPATH', None)
    if os.environ.get('SOUPVERIF_REPO'):        # isolated-copy mode: the fresh interpreter must import that tree too
        env['PYTHONPATH'] = os.environ['SOUPVERIF_REPO']
    p = subprocess.run(['/venv/bin/python', '-W', 'error', '-c', code], stdout=subprocess.PIPE, stderr=subprocess.PIPE, cwd='/tmp',
                       env=env, timeout=120)
    out = p.stdout.decode()
    lines = [l for l in out.splitlines() if l.strip()]
    return {'seq': list(seq), 'rc': p.returncode, 'stdout_extra': [l for l in lines if not l.startswith('RESULT')],
            'result': next((l for l in lines if l.startswith('RESULT')), None), 'stderr': p.stderr.decode()[-400:]}


# ---------------------------------------------------------------------------------------------------------------------
# Programs run AFTER the imports.  The property is about what a program computes once the packages are imported, so the
# per-import-order comparison is made over a generated list of programs, not over one fixed probe: whatever soupsieve
# binds, caches or fails to find at import time (Beautiful Soup's classes for tags, documents, string nodes, attribute
# value containers, ...) can only show on documents that contain such objects, and many of them are only reachable by
# building or editing the tree through the Beautiful Soup API.
# A program = {'m': markup, 'p': parser, 'e': [edits], 'q': [(api, selector)], 'scope': target, 'el': target, 'ns', 'limit',
# 'flags'}; targets are None (the document), ['id', x] or ['n', k] (k-th tag); values are tagged trees (see _mk in WORK).
# ---------------------------------------------------------------------------------------------------------------------
WORK = r'''
import collections as _collections
import copy as _copy
import json as _json
import sys as _sys
import warnings as _warnings
import bs4
import soupsieve
import bs4.element as _E
from bs4 import BeautifulSoup as _BS


class _UText(_E.NavigableString):
    pass


class _UComment(_E.Comment):
    pass


class _UCData(_E.CData):
    pass


class _UPI(_E.ProcessingInstruction):
    pass


class _UDoctype(_E.Doctype):
    pass


class _UDeclaration(_E.Declaration):
    pass


class _UTag(bs4.Tag):
    pass


class _USoup(_BS):
    pass


class _StrSub(str):
    pass


class _ListSub(list):
    pass


class _Obj:
    def __init__(self, s):
        self.s = s

    def __str__(self):
        return self.s


_STR = {'UText': _UText, 'UComment': _UComment, 'UCData': _UCData, 'UPI': _UPI, 'UDoctype': _UDoctype, 'UDeclaration': _UDeclaration}
for _n in ('NavigableString', 'Comment', 'CData', 'ProcessingInstruction', 'XMLProcessingInstruction', 'Doctype', 'Declaration',
           'TemplateString', 'Script', 'Stylesheet', 'RubyTextString', 'RubyParenthesisString', 'PreformattedString'):
    if hasattr(_E, _n):
        _STR[_n] = getattr(_E, _n)
_DICTS = {'dict': dict, 'OrderedDict': _collections.OrderedDict}
for _n in ('AttributeDict', 'HTMLAttributeDict', 'XMLAttributeDict'):
    if hasattr(_E, _n):
        _DICTS[_n] = getattr(_E, _n)


def _mk(v):
    t, x = v
    if t in ('s', 'i', 'f'):
        return x
    if t == 'b':
        return bytes.fromhex(x)
    if t == 'ba':
        return bytearray(bytes.fromhex(x))
    if t == 'n':
        return None
    if t == 'B':
        return bool(x)
    if t == 'list':
        return [_mk(y) for y in x]
    if t == 'tuple':
        return tuple(_mk(y) for y in x)
    if t == 'avl':
        return getattr(_E, 'AttributeValueList', list)(_mk(y) for y in x)
    if t == 'listsub':
        return _ListSub(_mk(y) for y in x)
    if t == 'deque':
        return _collections.deque(_mk(y) for y in x)
    if t == 'range':
        return range(x)
    if t == 'strsub':
        return _StrSub(x)
    if t == 'obj':
        return _Obj(x)
    if t == 'cmav':
        return getattr(_E, 'CharsetMetaAttributeValue', _StrSub)(x)
    if t in _STR:                           # a string NODE class used as an attribute value
        return _STR[t](x)
    raise ValueError(t)


def _tags(soup):
    return [x for x in soup.descendants if isinstance(x, bs4.Tag)]


def _find(soup, t):
    if t is None:
        return soup
    if t[0] == 'id':
        for x in _tags(soup):
            if x.attrs.get('id') == t[1]:
                return x
        return None
    tags = _tags(soup)
    return tags[t[1] % len(tags)] if tags else None


def _place(el, node, where):
    if where == 'append':
        el.append(node)
    elif where == 'insert0':
        el.insert(0, node)
    elif where == 'before':
        el.insert_before(node)
    elif where == 'after':
        el.insert_after(node)
    else:
        el.replace_with(node)


def _apply(soup, ed):
    """One edit through the Beautiful Soup API.  Returns (soup, detached element or None)."""
    op = ed[0]
    if op == 'copy':
        return _copy.copy(soup), None
    if op == 'deepcopy':
        return _copy.deepcopy(soup), None
    if op == 'smooth':
        soup.smooth()
        return soup, None
    el = _find(soup, ed[1])
    if el is None:
        return soup, None
    if op == 'attr':
        el[ed[2]] = _mk(ed[3])
    elif op == 'attrs':
        el.attrs = _DICTS.get(ed[2], dict)((k, _mk(v)) for k, v in ed[3])
    elif op == 'nsattr':
        el[_E.NamespacedAttribute(ed[2], ed[3], ed[4])] = _mk(ed[5])
    elif op == 'delattr':
        if ed[2] in el.attrs:
            del el[ed[2]]
    elif op == 'str':
        _place(el, _STR[ed[2]](ed[3]), ed[4])
    elif op == 'tag':
        kind, name, prefix, ns, attrs, text, where = ed[2:9]
        attrs = dict((k, _mk(v)) for k, v in attrs)
        if kind == 'new_tag':
            node = soup.new_tag(name, namespace=ns, nsprefix=prefix, attrs=attrs)
        elif kind == 'Tag':
            node = bs4.Tag(None, None, name, ns, prefix, attrs)
        elif kind == 'TagB':
            node = bs4.Tag(None, soup.builder, name, ns, prefix, attrs)
        else:
            node = _UTag(None, soup.builder, name, ns, prefix, attrs)
        if text is not None:
            node.append(text)
        _place(el, node, where)
    elif op == 'soup':
        cls = _USoup if ed[4] == 'USoup' else _BS
        _place(el, cls(ed[2], ed[3]), ed[5])
    elif op == 'detach':
        return soup, el.extract()
    elif op == 'extract':
        el.extract()
    elif op == 'decompose':
        el.decompose()
    elif op == 'unwrap':
        el.unwrap()
    elif op == 'clear':
        el.clear()
    elif op == 'string':
        el.string = ed[2]
    elif op == 'wrap':
        el.wrap(soup.new_tag(ed[2]))
    elif op == 'name':
        el.name = ed[2]
    else:
        raise ValueError(op)
    return soup, None


def _sig(el):
    if el is None:
        return None
    path = []
    x = el
    while getattr(x, 'parent', None) is not None:
        p = x.parent
        path.append(next((i for i, c in enumerate(p.contents) if c is x), -1))
        x = p
    return str(getattr(el, 'name', None)) + '@' + '.'.join(map(str, reversed(path)))


def _sigs(els):
    return [_sig(e) for e in els]


def _call(how, api, scope, sel, ns, limit, flags):
    sv = soupsieve
    if how == 'bs4':
        if api == 'select':
            return _sigs(scope.select(sel, namespaces=ns, limit=limit, flags=flags))
        if api == 'select_one':
            return _sig(scope.select_one(sel, namespaces=ns, flags=flags))
        if api == 'match':
            return bool(scope.css.match(sel, ns, flags))
        if api == 'closest':
            return _sig(scope.css.closest(sel, ns, flags))
        if api == 'filter':
            return _sigs(scope.css.filter(sel, ns, flags))
        if api == 'iselect':
            return _sigs(scope.css.iselect(sel, ns, limit, flags))
        if api == 'compiled':
            return _sigs(scope.select(sv.compile(sel, ns, flags), limit=limit))
        if api == 'css_compile':
            return _sigs(scope.css.compile(sel, ns, flags).select(scope, limit))
    else:
        if api == 'select':
            return _sigs(sv.select(sel, scope, namespaces=ns, limit=limit, flags=flags))
        if api == 'select_one':
            return _sig(sv.select_one(sel, scope, namespaces=ns, flags=flags))
        if api == 'match':
            return bool(sv.match(sel, scope, ns, flags))
        if api == 'closest':
            return _sig(sv.closest(sel, scope, ns, flags))
        if api == 'filter':
            return _sigs(sv.filter(sel, scope, ns, flags))
        if api == 'iselect':
            return _sigs(sv.iselect(sel, scope, ns, limit, flags))
        if api in ('compiled', 'css_compile'):
            return _sigs(sv.compile(sel, ns, flags).select(scope, limit))
    raise ValueError(api)


def _kw(kw):
    """Keyword arguments for the tree builder ({'multi_valued_attributes': None | {tag: [names]}})."""
    return dict(kw or {})


def _run_case(case):
    """[answers through Beautiful Soup, answers through soupsieve] on ONE tree built by the parser and the edits."""
    notes = []
    answers = {'bs4': [], 'soupsieve': []}
    try:
        with _warnings.catch_warnings(record=True) as wlog:
            _warnings.simplefilter('always')
            soup = _BS(case['m'], case['p'], **_kw(case.get('kw')))
            detached = None
            el0 = _find(soup, case['el']) if case.get('el') else None       # the element the edits are about, found before they change it
            for ed in case['e']:
                try:
                    soup, d = _apply(soup, ed)
                    detached = d if d is not None else detached
                except Exception as e:
                    notes.append('edit ' + ed[0] + ' raised ' + type(e).__name__)
            scope = detached if detached is not None else _find(soup, case.get('scope'))
            if scope is None:
                scope = soup
            el = detached if detached is not None else (_find(soup, case['el']) if case.get('el') else None)
            if el is None:
                el = el0 if el0 is not None else scope
            for api, sel in case['q']:
                for how in ('bs4', 'soupsieve'):
                    n = len(wlog)
                    try:
                        a = _call(how, api, el if api in ('match', 'closest', 'filter') else scope, sel, case.get('ns'),
                                  case.get('limit', 0), case.get('flags', 0))
                    except Exception as e:
                        a = 'raised ' + type(e).__name__
                    if len(wlog) > n:
                        a = [a] + sorted(set('warning ' + w.category.__name__ for w in wlog[n:]))
                    answers[how].append(a)
        notes.extend(sorted(set('warning ' + w.category.__name__ for w in wlog)))
    except Exception as e:
        notes.append('case raised ' + type(e).__name__)
    return [{'a': answers['bs4'], 'n': notes}, {'a': answers['soupsieve'], 'n': notes}]


with open(_sys.argv[1]) as _f:
    _cases = _json.load(_f)
_sys.stdout.write('WORK ' + _json.dumps([_run_case(c) for c in _cases]) + '\n')
'''

EXTRA_BS4 = ['import bs4.css', 'from bs4.element import Tag, NavigableString', 'from bs4 import *', 'import bs4.builder',
             'from bs4.css import CSS', 'import bs4 as b', '__import__("bs4")',
             'import importlib; importlib.import_module("bs4.element")', 'import bs4.builder._lxml', 'import bs4.builder._html5lib',
             'import bs4.builder._htmlparser', 'import bs4.dammit', 'import bs4.formatter', 'import bs4.filter',
             'import bs4.diagnose', 'from bs4 import BeautifulSoup, Tag, Comment']
EXTRA_SV = ['import soupsieve as sv', 'from soupsieve import css_match', 'import soupsieve.util', 'import soupsieve.pretty',
            'import soupsieve.__meta__', 'from soupsieve.css_match import SoupSieve', 'from soupsieve import select, compile',
            'import importlib; importlib.import_module("soupsieve")', 'import soupsieve.css_match as cm',
            'from soupsieve import css_parser, css_types', 'from soupsieve.css_parser import CSSParser',
            'from soupsieve.util import lower', '__import__("soupsieve.css_match")']
PARSERS = ['html.parser', 'lxml', 'html5lib', 'xml']
STRING_NODES = ['NavigableString', 'Comment', 'CData', 'ProcessingInstruction', 'XMLProcessingInstruction', 'Doctype', 'Declaration',
                'TemplateString', 'Script', 'Stylesheet', 'RubyTextString', 'RubyParenthesisString', 'PreformattedString',
                'UText', 'UComment', 'UCData', 'UPI', 'UDoctype', 'UDeclaration']
CONTAINERS = ['list', 'tuple', 'avl', 'listsub', 'deque']
MEMBERS = [
    [('i', 3), ('s', '4')], [('b', '78'), ('s', 'y')], [('s', 'a'), ('i', 7)], [('n', None), ('s', 'a')], [('f', 1.5), ('B', 1)],
    [('s', 'a'), ('s', 'b')], [('list', [('i', 1), ('i', 2)]), ('s', 'z')], [], [('i', 7)], [('b', 'ff'), ('strsub', 'q')],
    [('UText', 't'), ('Comment', 'c')], [('obj', 'o'), ('s', 'p')], [('tuple', [('s', 'u')]), ('i', 0)], [('s', 'A b'), ('B', 0)],
]
SCALARS = [('i', 3), ('f', 1.5), ('b', '7879'), ('b', 'ff78'), ('n', None), ('B', 1), ('strsub', 'a b'), ('NavigableString', 'a b'),
           ('Comment', 'a'), ('obj', 'a b'), ('range', 3), ('ba', '7879'), ('cmav', 'utf-8'), ('s', 'a b'), ('UText', 'ltr')]
ATTR_NAMES = ['data-n', 'class', 'rel', 'id', 'title', 'lang', 'type', 'dir', 'CLASS', 'headers']
SEL_APIS = ['select', 'select', 'select_one', 'iselect', 'compiled', 'css_compile']
EL_APIS = ['match', 'closest', 'filter']
XLINK = 'http://www.w3.org/1999/xlink'
SVG = 'http://www.w3.org/2000/svg'
NSMAP = {'svg': SVG, 'x': 'urn:x', 'xlink': XLINK}


def css_ident(s):
    """`s` as a CSS identifier: everything but ASCII letters and `_` as a hexadecimal escape."""
    return ''.join(ch if (ch.isascii() and ch.isalpha()) or ch == '_' else '\\%x ' % ord(ch) for ch in s)


def css_view(v):
    """What an attribute value assigned through the API should look like to a selector: a string, or a list of words.
    Only used to AIM selectors at the value (so that answers are not all empty); the verdict never depends on it."""
    t, x = v
    if t == 'i':
        return str(x)
    if t == 'f':
        return repr(x)
    if t == 'b':
        return bytes.fromhex(x).decode('utf8', 'replace')
    if t == 'n':
        return ''
    if t == 'B':
        return str(bool(x))
    if t == 'range':
        return [str(i) for i in range(x)]
    if t == 'ba':
        return [str(b) for b in bytes.fromhex(x)]
    if t in CONTAINERS:
        return [w if isinstance(w, str) else '(' + ', '.join(w) + ')' for w in map(css_view, x)]
    return x


def aimed_queries(r, attr, view, tag, limit=None):
    """(api, selector) pairs about attribute `attr` whose value looks like `view`, on an element named `tag` (at most `limit`
    selectors, chosen at random)."""
    words = view if isinstance(view, list) else view.split()
    whole = ' '.join(view) if isinstance(view, list) else view
    a = attr
    sels = [f'{tag}[{a}]', f'{tag}[{a}={gen.q(whole)}]', f'[{a}!={gen.q(whole)}]', f'[{a}={gen.q(whole.swapcase())} i]',
            f':not([{a}={gen.q(whole)}])', f'[{a}*={gen.q(whole[1:-1] or whole)}]']
    for w in words[:3]:
        sels.append(f'[{a}~={gen.q(w)}]')
    if words:
        sels += [f'[{a}^={gen.q(words[0])}]', f'[{a}$={gen.q(words[-1])}]', f'[{a}|={gen.q(words[0])}]',
                 f'{tag}:is([{a}~={gen.q(words[-1])}], [{a}={gen.q(words[-1])}])']
    low = a.lower()
    if low == 'class':
        sels += ['.' + css_ident(w) for w in words if w]
        sels += [''.join('.' + css_ident(w) for w in words if w) or '*', f'{tag}:not(.' + css_ident(words[0] if words and words[0] else 'a') + ')']
    if low == 'id':
        sels += ['#' + css_ident(w) for w in (words + [whole]) if w]
    if low == 'lang':
        sels += [f':lang({gen.q(w)})' for w in words[:2]] + [':lang("*")', f'{tag}:lang(en)']
    if low == 'dir':
        sels += [f'{tag}:dir(ltr)', f'{tag}:dir(rtl)']
    if low == 'type':
        sels += [':checked', ':indeterminate', ':default', ':enabled', ':read-write', ':required, :optional']
    out = []
    if limit is not None and len(sels) > limit:
        keep = set(r.sample(range(len(sels)), limit))
        sels = [s for i, s in enumerate(sels) if i in keep]
    for s in sels:
        out.append((r.choice(SEL_APIS), s))
        if r.random() < 0.4:
            out.append((r.choice(EL_APIS), s))
    return out


def base_doc(parser):
    if parser == 'xml':
        return ('<root xmlns:x="urn:x"><p id="p" class="a b">x</p><span id="s">y</span><input id="i" type="checkbox"/>'
                '<a id="l" rel="nofollow noopener" href="#">z</a><x:e id="e">w</x:e></root>')
    return ('<!DOCTYPE html><html><head><meta id="m" http-equiv="content-language" content="en"><title>t</title></head><body>'
            '<div id="d"><p id="p" class="a b">x</p><span id="s">y</span><input id="i" type="checkbox">'
            '<a id="l" rel="nofollow noopener" href="#">z</a></div></body></html>')


def programs_values(r, full):
    """Attribute values assigned through the API."""
    out = []
    k = 0
    vals = [(c, m) for c in CONTAINERS for m in MEMBERS]
    for c, m in vals:
        v = (c, m)
        names = ATTR_NAMES if full else [r.choice(['class', 'class', 'rel', 'CLASS', 'headers']), r.choice(['data-n', 'id', 'title', 'lang', 'type', 'dir'])]
        for a in names:
            k += 1
            parser = PARSERS[k % 4] if not full else r.choice(PARSERS)
            tgt, tag = (('i', 'input') if a == 'type' else ('s', 'span'))
            out.append({'g': 'values', 'm': base_doc(parser), 'p': parser, 'e': [['attr', ['id', tgt], a, v]], 'el': ['id', tgt],
                        'q': aimed_queries(r, a, css_view(v), tag, None if full else 8)})
    for v in SCALARS:
        for a in (ATTR_NAMES if full else r.sample(ATTR_NAMES, 2)):
            k += 1
            parser = PARSERS[k % 4]
            tgt, tag = (('i', 'input') if a == 'type' else ('s', 'span'))
            view = css_view(v)
            out.append({'g': 'values', 'm': base_doc(parser), 'p': parser, 'e': [['attr', ['id', tgt], a, v]], 'el': ['id', tgt],
                        'q': aimed_queries(r, a, view, tag, None if full else 8)})
    # the whole attrs mapping replaced (plain dict / OrderedDict / the parser's own classes), and namespaced attribute names
    for dk in ['dict', 'OrderedDict', 'AttributeDict', 'HTMLAttributeDict', 'XMLAttributeDict']:
        k += 1
        parser = PARSERS[k % 4]
        v = (r.choice(CONTAINERS), r.choice(MEMBERS[:6]))
        items = [['id', ('s', 's')], ['class', v], ['data-n', r.choice(SCALARS)]]
        out.append({'g': 'values', 'm': base_doc(parser), 'p': parser, 'e': [['attrs', ['id', 's'], dk, items]],
                    'q': aimed_queries(r, 'class', css_view(v), 'span', 8) + [('select', '#s'), ('select', '[data-n]')]})
    for v in [(c, m) for c in ('list', 'avl', 'tuple') for m in MEMBERS[:4]] + SCALARS[:4]:
        k += 1
        parser = PARSERS[k % 4]
        view = css_view(v)
        words = view if isinstance(view, list) else view.split()
        whole = ' '.join(words)
        out.append({'g': 'values', 'm': base_doc(parser), 'p': parser, 'ns': NSMAP,
                    'e': [['nsattr', ['id', 's'], 'xlink', 'href', XLINK, v]],
                    'q': [('select', '[xlink|href]'), ('select', f'[xlink|href={gen.q(whole)}]'), ('select', f'[*|href~={gen.q(words[0] if words else "")}]'),
                          ('select', f'span[xlink|href^={gen.q(whole[:1])}]'), ('select', ':any-link'), ('select', '[href]')]})
    # values that HTML semantics read: content-language, input value / min / max, radio names, form owner
    sem = [
        ([['attr', ['id', 'm'], 'content', v]], ['p:lang(de)', 'p:lang(fr)', 'p:lang(en)', ':lang("*-DE")', ':root:lang(de)'])
        for v in [('list', [('s', 'de')]), ('b', '6672'), ('strsub', 'de'), ('list', [('b', '6465'), ('i', 1)]), ('tuple', [('s', 'fr')]), ('UText', 'de-DE')]
    ] + [
        ([['attr', ['id', 'i'], 'type', ('s', 'number')], ['attr', ['id', 'i'], 'min', lo], ['attr', ['id', 'i'], 'max', hi], ['attr', ['id', 'i'], 'value', val]],
         [':in-range', ':out-of-range', 'input:not(:in-range)', '[min][max]', f'[value={gen.q(css_view(val) if isinstance(css_view(val), str) else " ".join(css_view(val)))}]'])
        for lo, hi, val in [(('i', 3), ('i', 9), ('i', 5)), (('list', [('i', 3)]), ('f', 9.5), ('b', '3132')), (('s', '3'), ('list', [('i', 9)]), ('list', [('i', 1), ('i', 2)])),
                            (('f', 0.5), ('i', 1), ('tuple', [('i', 1)]))]
    ] + [
        ([['attr', ['id', 'i'], 'type', t], ['attr', ['id', 'i'], 'name', nm], ['attr', ['id', 'i'], 'checked', ck], ['attr', ['id', 'i'], 'dir', ('s', 'auto')], ['attr', ['id', 'i'], 'value', val]],
         [':checked', ':indeterminate', ':default', 'input:dir(rtl)', 'input:dir(ltr)', '[name]', ':placeholder-shown', ':read-write', ':enabled'])
        for t, nm, ck, val in [(('list', [('s', 'radio')]), ('list', [('i', 1)]), ('n', None), ('list', [('s', 'א')])),
                               (('b', '726164696f'), ('i', 1), ('B', 0), ('b', 'd790')),
                               (('strsub', 'text'), ('obj', 'n'), ('list', []), ('tuple', [('s', 'א'), ('i', 1)])),
                               (('UText', 'checkbox'), ('s', 'n'), ('i', 0), ('i', 7))]
    ]
    for eds, sels in sem:
        k += 1
        parser = PARSERS[k % 3]
        out.append({'g': 'values', 'm': base_doc(parser), 'p': parser, 'e': eds, 'q': [(r.choice(SEL_APIS), s) for s in sels]})
    return out


def programs_nodes(r, full):
    """String nodes of every class inserted through the API, in elements and at document level."""
    out = []
    k = 0
    html = ('<html><head></head><body><div id="d"><p id="p"></p><span id="s" dir="auto"></span><b id="b">tok</b><i id="e"> </i>'
            '<textarea id="t" dir="auto" placeholder="h"></textarea></div></body></html>')
    xml = '<root><p id="p"/><span id="s" dir="auto"/><b id="b">tok</b><i id="e"> </i></root>'
    sels = ['p:empty', 'p:-soup-contains("zq")', 'p:-soup-contains-own("zq")', ':root:-soup-contains("zq")', '*:-soup-contains-own("zq")',
            'span:dir(rtl)', 'span:dir(ltr)', ':dir(rtl)', 'p:first-child', 'b:nth-child(3)', ':root', 'i:empty', 'textarea:placeholder-shown',
            'textarea:dir(rtl)', 'p:has(+ span)', 'span:not(:empty)', 'p:only-child, b:nth-last-child(2)']
    for cls in STRING_NODES:
        for parser in (PARSERS if full else [PARSERS[k % 4], PARSERS[(k + 1 + k // 4) % 4]]):
            k += 1
            eds = [['str', ['id', 'p'], cls, r.choice(['zq', ' ', 'a zq b']), r.choice(['append', 'insert0'])],
                   ['str', ['id', 's'], cls, 'א', 'insert0'],
                   ['str', ['id', 'b'], cls, 'zq', r.choice(['before', 'after'])]]
            if parser != 'xml':
                eds.append(['str', ['id', 't'], cls, r.choice(['', '\n', 'א']), 'append'])
            if r.random() < 0.3:
                eds.append(['smooth'])
            out.append({'g': 'nodes', 'm': xml if parser == 'xml' else html, 'p': parser, 'e': eds, 'el': ['id', 'p'],
                        'q': [(r.choice(SEL_APIS), s) for s in sels] + [(r.choice(EL_APIS), s) for s in r.sample(sels, 4)]})
        # at document level: before / after / instead of the root element's siblings
        k += 1
        parser = PARSERS[k % 4]
        eds = [['str', None, cls, r.choice(['zq', ' ']), r.choice(['append', 'insert0'])]]
        if r.random() < 0.5:
            eds.append(['str', None, cls, 'zq', 'append' if eds[0][4] == 'insert0' else 'insert0'])
        out.append({'g': 'nodes', 'm': '<root id="r"><p id="p">zq</p></root>' if parser == 'xml' else '<div id="r"><p id="p">zq</p></div>', 'p': parser, 'e': eds,
                    'el': ['id', 'r'], 'q': [(a, s) for s in [':root', ':root > p', '#r:root', ':root:-soup-contains("zq")', '#r:only-child', '#r:first-child, #r:last-child', 'p:-soup-contains-own("zq")']
                                             for a in ('select', r.choice(EL_APIS))]})
    return out


def programs_tags(r, full):
    """Elements and documents made through the API: new_tag, Tag(), a Tag subclass, namespaces, nested BeautifulSoup objects,
    detached subtrees, copies, renamed / wrapped / unwrapped elements."""
    out = []
    k = 0
    names = [('span', None, None), ('svg', 'svg', SVG), ('e', 'x', 'urn:x'), ('iframe', None, None), ('SPAN', None, None), ('input', None, None), ('e', None, 'urn:x')]
    sels = ['span', 'svg|svg', 'x|e', '*|e', '|span', '*|*:last-child', 'p:has(> *)', 'p + *', ':root', '#n', '[data-n~="3"]', '.k', 'p:empty', 'iframe', 'p > :only-child',
            ':-soup-contains("q")', ':enabled', '*:not(p):not(div)', ':is(span, SPAN, e):-soup-contains-own("q")']
    for kind in ['new_tag', 'Tag', 'TagB', 'UTag']:
        for name, prefix, ns in names:
            for where in (['append', 'after', 'before', 'replace'] if full else [r.choice(['append', 'after', 'before', 'replace'])]):
                k += 1
                parser = PARSERS[k % 4]
                attrs = [['id', ('s', 'n')], ['data-n', r.choice([('list', [('i', 3), ('s', '4')]), ('i', 3), ('avl', [('s', '3')]), ('tuple', [('b', '33')])])],
                         ['class', r.choice([('list', [('s', 'k'), ('i', 7)]), ('s', 'k'), ('avl', [('s', 'k')]), ('strsub', 'k j')])]]
                out.append({'g': 'tags', 'm': base_doc(parser), 'p': parser, 'ns': NSMAP, 'el': ['id', 'n'],
                            'e': [['tag', ['id', 'p'], kind, name, prefix, ns, attrs, r.choice([None, 'q', '']), where]],
                            'q': [(r.choice(SEL_APIS), s) for s in (sels if full else r.sample(sels, 12))] + [(r.choice(EL_APIS), s) for s in r.sample(sels, 4)]})
    sels = ['em', 'p em', 'p > em', ':root', 'em:root', 'p:-soup-contains("q")', 'p:empty', 'em:only-child', 'em:first-child', '#n', 'p:has(em)', 'p > *', '[id]:not(:root)']
    for inner_parser in PARSERS:
        for cls in ('BS', 'USoup'):
            k += 1
            parser = PARSERS[k % 4]
            out.append({'g': 'tags', 'm': base_doc(parser), 'p': parser, 'el': ['id', 'n'],
                        'e': [['soup', ['id', 'p'], '<em id="n">q</em>', inner_parser, cls, r.choice(['append', 'insert0', 'after'])]],
                        'q': [(r.choice(SEL_APIS), s) for s in sels] + [(r.choice(EL_APIS), s) for s in r.sample(sels, 5)]})
    sels = [':root', 'p:first-child', 'p:nth-child(1)', 'p:only-child', 'p:last-of-type', ':scope', 'div p', 'p:not(div > p)', '* + p', ':root > p', 'p', 'p:empty',
            ':scope > *', 'p:nth-last-child(1 of .a)', ':root:-soup-contains("x")', 'p:lang(en)', 'p:dir(ltr)', 'span:first-of-type', 'a:any-link', ':checked, :default']
    for parser in PARSERS:
        for tgt in ('p', 's', 'd', 'l', 'i'):
            if parser == 'xml' and tgt == 'd':
                continue
            out.append({'g': 'tags', 'm': base_doc(parser), 'p': parser, 'e': [['detach', ['id', tgt]]] + ([['attr', ['id', tgt], 'class', ('list', [('s', 'a'), ('i', 1)])]] if r.random() < 0.3 else []),
                        'q': [(a, s) for s in sels for a in ('match', r.choice(SEL_APIS + ['closest', 'filter']))]})
    sels = ['p.a.b', 'div > span:last-child', 'a[rel~="noopener"]', '[class="a b"]', ':root #s', 'input:checked, input:indeterminate', 'x|e', 'p:-soup-contains("x")', ':root', 'p + span', 'em > p', 'section', 'q:empty']
    for parser in PARSERS:
        for eds in ([], [['copy']], [['deepcopy']], [['name', ['id', 'p'], 'section']], [['wrap', ['id', 'p'], 'em']], [['unwrap', ['id', 'p']]], [['clear', ['id', 'p']], ['name', ['id', 'p'], 'q']],
                    [['string', ['id', 'p'], 'x']], [['extract', ['id', 's']]], [['decompose', ['id', 's']], ['copy']], [['delattr', ['id', 'p'], 'class']], [['name', ['id', 's'], 'iframe']]):
            out.append({'g': 'tags', 'm': base_doc(parser), 'p': parser, 'ns': NSMAP, 'e': eds, 'el': ['id', 'p'], 'scope': r.choice([None, None, ['id', 'd']]),
                        'q': [(r.choice(SEL_APIS), s) for s in sels] + [(r.choice(EL_APIS), s) for s in r.sample(sels, 4)]})
    return out


RANDOM_EXTRA = [':-soup-contains("a")', ':-soup-contains-own("a")', ':dir(ltr)', ':dir(rtl)', ':lang(en)', ':lang("*-US")', ':link', ':checked', ':defined', ':scope',
                ':indeterminate', ':disabled', ':enabled', ':required', ':optional', ':read-write', ':read-only', ':placeholder-shown', ':default', ':in-range',
                ':out-of-range', ':target', ':hover', ':playing']


def random_value(r, depth=0):
    x = r.random()
    if x < 0.45 and depth < 2:
        return (r.choice(CONTAINERS), [random_value(r, depth + 1) for _ in range(r.choice([0, 1, 1, 2, 2, 3]))])
    return r.choice([('s', r.choice(gen.VALUES)), ('i', r.randint(-2, 12)), ('f', r.choice([0.5, 1.0, -2.25])), ('b', r.choice(['', '61', '6162', 'ff', 'e4b8ad'])),
                     ('n', None), ('B', r.randint(0, 1)), ('strsub', r.choice(gen.VALUES)), ('obj', r.choice(gen.VALUES)), (r.choice(STRING_NODES), r.choice(gen.VALUES)),
                     ('range', r.randint(0, 3)), ('ba', r.choice(['', '6162'])), ('s', r.choice(gen.CLASSES)), ('s', r.choice(gen.IDS))])


def random_edit(r):
    t = ['n', r.randint(0, 40)]
    x = r.random()
    if x < 0.45:
        return ['attr', t, r.choice(ATTR_NAMES + gen.ATTRS + ['class', 'id']), random_value(r)]
    if x < 0.65:
        return ['str', r.choice([t, t, None]), r.choice(STRING_NODES), r.choice(gen.TEXTS + ['a', 'ab a']), r.choice(['append', 'insert0', 'before', 'after', 'replace'])]
    if x < 0.78:
        name, prefix, ns = r.choice([('span', None, None), ('svg', 'svg', SVG), ('li', None, None), ('iframe', None, None), ('P', None, None)])
        attrs = [[r.choice(['class', 'id', 'title', 'data-x']), random_value(r)] for _ in range(r.randint(0, 2))]
        return ['tag', t, r.choice(['new_tag', 'Tag', 'TagB', 'UTag']), name, prefix, ns, attrs, r.choice([None, 'a', ' ']), r.choice(['append', 'insert0', 'before', 'after', 'replace'])]
    if x < 0.84:
        return ['soup', t, r.choice(['<b class="c1">a</b>', 'a', '<!--a--><p id="x"></p>']), r.choice(PARSERS), r.choice(['BS', 'USoup']), r.choice(['append', 'insert0', 'after'])]
    if x < 0.88:
        return ['detach', t]
    return r.choice([['copy'], ['deepcopy'], ['smooth'], ['extract', t], ['unwrap', t], ['clear', t], ['string', t, r.choice(gen.TEXTS)], ['wrap', t, r.choice(gen.TAGS)],
                     ['name', t, r.choice(gen.TAGS + ['iframe', 'DIV'])], ['delattr', t, r.choice(['class', 'id'])],
                     ['attrs', t, r.choice(['dict', 'OrderedDict', 'AttributeDict']), [[r.choice(['class', 'id', 'title']), random_value(r)] for _ in range(r.randint(0, 3))]]])


def programs_random(r, n):
    """Random documents (through a random parser), random edits, random selectors and selectors aimed at the edited values."""
    out = []
    feats = {'nth': 1, 'extra': RANDOM_EXTRA}
    for _ in range(n):
        kind, top = gen.gen_doc(r, max_depth=3)
        parser = r.choice(PARSERS)
        if parser == 'xml':
            markup = '<root>' + gen.to_markup(top, xml=True) + '</root>'
        else:
            markup = gen.to_markup(top) if r.random() < 0.5 else '<!DOCTYPE html><html><head></head><body>' + gen.to_markup(top) + '</body></html>'
        eds = [random_edit(r) for _ in range(r.choice([0, 1, 1, 2, 3]))]
        qs = [(r.choice(SEL_APIS + EL_APIS), gen.gen_list(r, feats=feats)) for _ in range(4)]
        for ed in eds:
            if ed[0] == 'attr':
                qs += r.sample(aimed_queries(r, ed[2], css_view(ed[3]), '*'), 3)
        out.append({'g': 'random', 'm': markup, 'p': parser, 'e': eds, 'q': qs, 'scope': r.choice([None, None, ['n', r.randint(0, 9)]]),
                    'el': ['n', r.randint(0, 40)], 'limit': r.choice([0, 0, 0, 1, 2])})
    return out


# ---------------------------------------------------------------------------------------------------------------------
# Character classes.  What counts as white space, which letters are the same letter in another case, what a digit is: in the
# matcher and in the selector parser each of these is a CONSTANT of the library (a compiled pattern, a lower-casing function, a
# table), fixed when the modules are executed, i.e. at import time, which is the one moment at which the two packages see each
# other half-built.  Such a constant can only show on documents and selectors that contain a character on which two plausible
# definitions differ (CSS white space is five characters, str.isspace() / \s know 29; util.lower is ASCII-only, str.lower is
# not; [0-9] is ten characters, \d several hundred), AND whose value reaches soupsieve unsplit / unfolded: a `class` that is
# ONE string (XML parser, a builder made with multi_valued_attributes=None, a value assigned by the program), text nodes,
# names given to new_tag, the selector text itself.  The generators below put every such character at every such place; the
# verdict is the same as for all other programs (answers equal in every import order and through both packages).
# ---------------------------------------------------------------------------------------------------------------------
CSS_WS = ' \t\n\r\f'
SPACES = [chr(i) for i in range(0x3100) if chr(i).isspace()]        # white space for SOME definition (str.isspace): 29 characters, 5 of them CSS white space
NOT_SPACES = ['\x00', '\x08', '\x7f', '\xad', '\u180e', '\u200b', '\u200d', '\u2060', '\ufeff']       # control / format characters: white space for no current definition
# (variant, plain): letters that some case mapping (lower / upper / casefold, Unicode-aware re.I) identifies with `plain`, and ASCII-only folding does not
FOLDS = [('\u212a', 'k'), ('\u017f', 's'), ('\u0130', 'i'), ('\u0131', 'i'), ('\uff21', 'a'), ('\u00c9', '\u00e9'), ('\u03a3', '\u03c3'), ('\u03c2', '\u03c3'),
         ('\u00df', 'ss'), ('\u2126', '\u03c9'), ('\ufb01', 'fi'), ('\u01c5', '\u01c6'), ('\u1e9e', '\u00df')]
DIGIT3 = ['3', '\u0663', '\uff13', '\u0be9', '\u00b3', '\u2462', '\u2163']      # "3": ASCII, Arabic-Indic, full-width, Tamil (all \d / int()), superscript, circled, Roman (isdigit / isnumeric only)
FIRST_STRONG = ['\u05d0', '\u0628', '\u0780', '\u07ca', '\u0710', '\U0001e900', '\U00010900', '\u0663', '3', 'A', '\uff21', '\u4e2d', '\u200e', '\u200f', '\u202b', '\u2067',
                '\u0300', '\xa0', '\u2028', '\ufb1d', '\u06dd']          # text of a dir=auto element: letters R / AL / L, numbers, marks, embeddings, separators


def xml_ok(s):
    return all(ch in '\t\n\r' or 0x20 <= ord(ch) <= 0xd7ff or 0xe000 <= ord(ch) <= 0xfffd or ord(ch) >= 0x10000 for ch in s)


def xml_text(s):
    return ''.join(ch if ch.isascii() and ch.isalnum() else '&#%d;' % ord(ch) for ch in s)


def html_text(s):
    return s.replace('&', '&amp;').replace('<', '&lt;').replace('>', '&gt;').replace('"', '&quot;')


def readings(v):
    """The words of `v` under each reading of "white space": the five CSS characters; whatever str.split() splits at; anything
    that is not a letter or a digit.  Only used to AIM selectors; the verdict never depends on it."""
    out = []
    for w in [w for w in re.split('[ \t\n\r\f]+', v) if w] + v.split() + [w for w in re.split(r'[\W\u180e]+', v) if w]:
        if w not in out:
            out.append(w)
    return out


def word_queries(r, attr, v, tag, full, el_apis=True):
    """(api, selector) pairs that hinge on how the string `v` of attribute `attr` is cut into words."""
    a = attr
    ws = readings(v)
    must, may = [], [f'[{a}={gen.q(v)}]', f'{tag}[{a}]', f'[{a}~={gen.q(v)}]', f'[{a}={gen.q(" ".join(ws[-2:]))}]', f'[{a}!={gen.q(v)}]']
    for w in ws[-2:]:
        must.append(f'[{a}~={gen.q(w)}]')
    for w in ws:
        may += [f'{tag}[{a}|={gen.q(w)}]', f'[{a}^={gen.q(w)}]', f'[{a}$={gen.q(w)}]', f'[{a}~={gen.q(w)} i]', f'[{a}~={gen.q(w.swapcase())} i]']
    if a.lower() == 'class':
        must += ['.' + css_ident(w) for w in ws] + [f'{tag}:not(.{css_ident(w)})' for w in ws[-2:]]
        may += [''.join('.' + css_ident(w) for w in ws[-2:]), f':is({tag}, b).{css_ident(ws[-1])}' if ws else '*', f'{tag}:nth-child(1 of .{css_ident(ws[-1])})' if ws else '*']
    if a.lower() == 'id':
        must += ['#' + css_ident(w) for w in ws]
    sels = must + (may if full else r.sample(may, 4))
    out = [(r.choice(SEL_APIS), s) for s in sels]
    if el_apis:
        out += [(r.choice(EL_APIS), s) for s in r.sample(must, min(2, len(must)))]
    return out


WORD_ROUTES_STR = ['xml', 'none:html.parser', 'none:lxml', 'none:html5lib', 'api-s', 'api-strsub', 'api-attrs', 'api-tag', 'api-node']
WORD_ROUTES_LIST = ['default:html.parser', 'default:lxml', 'default:html5lib', 'custom:html.parser', 'api-list']


def word_program(r, attr, v, route, full):
    """One program in which attribute `attr` of one element holds the string `v`, got there by `route`:
    xml               the XML parser (never splits attribute values);
    none:<parser>     an HTML builder told not to split (multi_valued_attributes=None);
    default:<parser>  an HTML builder with its own list of multi-valued attributes (Beautiful Soup splits `class`, `rel`, ... itself);
    custom:<parser>   an HTML builder with a program-supplied list;
    api-*             assigned by the program: plain str, str subclass, inside a replaced attrs mapping, to new_tag, a string node, inside a list."""
    kind, _, parser = route.partition(':')
    if kind == 'xml' and not xml_ok(v):
        kind, parser = 'api-s', 'xml'
    if kind != 'xml' and not parser:
        parser = r.choice(PARSERS)
    if kind in ('none', 'default', 'custom') and '\x00' in v:
        kind = 'api-s'
    if kind == 'xml':
        m = f'<root><p id="p" {attr}="{xml_text(v)}">x</p><span id="s" {attr}="a b">y</span><b id="b" {attr}="b">z</b></root>'
        case = {'m': m if attr != 'id' else m.replace('id="p" ', '').replace('id="s" ', '').replace('id="b" ', ''), 'p': 'xml', 'e': [], 'el': ['id', 'p']}
        tag = 'p'
    elif kind in ('none', 'default', 'custom'):
        m = f'<div id="d"><p id="p" {attr}="{html_text(v)}">x</p><span id="s" {attr}="a b">y</span><b id="b" {attr}="b">z</b></div>'
        case = {'m': m if attr != 'id' else m.replace('id="p" ', '').replace('id="s" ', '').replace('id="b" ', ''), 'p': parser, 'e': [], 'el': ['id', 'p']}
        if kind == 'none':
            case['kw'] = {'multi_valued_attributes': None}
        elif kind == 'custom':
            case['kw'] = {'multi_valued_attributes': {'*': ['data-w', 'headers'], 'p': ['title']}}
        tag = 'p'
    else:
        tag, tgt = 'span', ['id', 's']
        if kind == 'api-tag':
            eds = [['tag', ['id', 'p'], r.choice(['new_tag', 'Tag', 'TagB', 'UTag']), 'span', None, None, [['id', ('s', 'n')], [attr, ('s', v)]] if attr != 'id' else [[attr, ('s', v)]],
                    r.choice([None, 'q']), r.choice(['append', 'after', 'before'])]]
            tgt = ['id', 'n']
        elif kind == 'api-attrs':
            eds = [['attrs', tgt, r.choice(['dict', 'OrderedDict', 'AttributeDict', 'HTMLAttributeDict', 'XMLAttributeDict']), [['title', ('s', 't')], [attr, ('s', v)]]]]
        else:
            val = {'api-s': ('s', v), 'api-strsub': ('strsub', v), 'api-node': (r.choice(['NavigableString', 'UText', 'CData']), v),
                   'api-list': (r.choice(CONTAINERS), [('s', v), ('s', 'c')])}[kind]
            eds = [['attr', tgt, attr, val]]
        case = {'m': base_doc(parser), 'p': parser, 'e': eds, 'el': tgt}
    if attr == 'id':
        case.pop('el', None)
    case['g'] = 'chars'
    case['q'] = word_queries(r, attr, v, tag, full, el_apis=attr != 'id')
    return case


def programs_words(r, full):
    """String-valued word-list attributes with every kind of separator between (and around) the words."""
    out = []
    shapes = ['a{c}b', 'a{c}b', '{c}a{c}b{c}', 'a{c}{c}b', 'a{c} b', 'a {c}b', 'a{c}b c', 'c a{c}b']
    for c in SPACES + NOT_SPACES:
        jobs = [('class', route) for route in (WORD_ROUTES_STR + WORD_ROUTES_LIST if full else [r.choice(WORD_ROUTES_STR)] + ([r.choice(WORD_ROUTES_LIST)] if r.random() < 0.2 else []))]
        others = ['rel', 'headers', 'data-w', 'id', 'CLASS', 'title', 'class']
        jobs += [(a, r.choice(WORD_ROUTES_STR + WORD_ROUTES_LIST)) for a in (others if full else ([r.choice(others)] if r.random() < 0.35 else []))]
        for attr, route in jobs:
            out.append(word_program(r, attr, r.choice(shapes).replace('{c}', c), route, full))
    return out


def programs_case(r, full):
    """Letters whose case mapping is not the ASCII one, where names and values are compared without regard to case."""
    out = []
    k = 0
    for var, plain in (FOLDS if full else r.sample(FOLDS, 8)):
        k += 1
        parser = PARSERS[k % 4]
        v, p = 'o' + var, 'o' + plain
        # attribute values compared with the `i` flag
        out.append({'g': 'chars', 'm': base_doc(parser), 'p': parser, 'el': ['id', 's'],
                    'e': [['attr', ['id', 's'], 'title', ('s', v)], ['attr', ['id', 'p'], 'title', ('s', p)], ['attr', ['id', 'l'], 'title', ('s', p.upper())]],
                    'q': [(r.choice(SEL_APIS + EL_APIS), s) for s in [f'[title={gen.q(v)} i]', f'[title={gen.q(p)} i]', f'[title={gen.q(p.upper())} i]', f'[title={gen.q(v)}]', f'[title={gen.q(v)} s]',
                                                                    f'[title^={gen.q(p)} i]', f'[title*={gen.q(var)} i]', f'[title~={gen.q(p)} i]', f'[title|={gen.q(p)} i]', f'[title!={gen.q(p)} i]',
                                                                    f'[title$={gen.q(plain)} i]', f'[TITLE={gen.q(p)}]']]})
        # attribute NAMES (the parsers fold them, the API does not) and element names made through the API
        k += 1
        parser = PARSERS[k % 4]
        an = 'data-' + var
        names = [var + 'x', (plain + 'x').upper(), plain + 'x']
        out.append({'g': 'chars', 'm': base_doc(parser), 'p': parser, 'el': ['id', 'n'], 'ns': NSMAP,
                    'e': [['attr', ['id', 's'], an, ('s', '1')], ['attr', ['id', 'p'], an.upper(), ('s', '1')], ['attr', ['id', 'l'], 'data-' + plain, ('s', '1')],
                          ['tag', ['id', 'p'], r.choice(['new_tag', 'Tag', 'TagB', 'UTag']), r.choice(names), None, None, [['id', ('s', 'n')]], 'q', r.choice(['append', 'after'])]],
                    'q': [(r.choice(SEL_APIS), s) for s in [f'[{an}]', f'[data-{plain}]', f'[DATA-{plain.upper()}]', f'[{an.upper()}]', f'span[data-{plain}="1"]', f'[data-{plain}="1" i]'] + names +
                          [f'*|{names[0]}', f'|{names[2]}', f'{names[2]}:-soup-contains("q")', f':is({names[1]}, em)']] + [(r.choice(EL_APIS), s) for s in names]})
    # names and values that HTML semantics read without regard to case: type, lang, dir, checked, http-equiv, ... with variants
    sem = []
    for t in ['CHECKBOX', 'Checkbox', 'chec\u212abox', 'RADIO', 'rad\u0131o', 'rad\u0130o', 'RAD\u0130O', 'pa\u017f\u017fword', 'TEXT', 'te\uff58t', '\u017fubmit', 'SUBMIT', 'checkbox ', 'checkbox\xa0', '\u2003radio', 'text\x0b']:
        sem.append(([['attr', ['id', 'i'], 'type', ('s', t)], ['attr', ['id', 'i'], 'checked', ('s', '')], ['attr', ['id', 'i'], 'name', ('s', 'n')]],
                    [':checked', ':indeterminate', ':default', ':read-write', ':read-only', 'input:placeholder-shown', '[type=checkbox]', '[type="RADIO"]', f'[type={gen.q(t)} s]', '[type=text i]', ':enabled', 'input:dir(ltr)']))
    for names in [['TYPE', 'CHECKED'], ['Type', 'chec\u212aed'], ['type', 'CHEC\u212aED'], ['t\u0131pe', 'checked'], ['TYPE', '\u017felected']]:
        sem.append(([['delattr', ['id', 'i'], 'type'], ['attr', ['id', 'i'], names[0], ('s', 'checkbox')], ['attr', ['id', 'i'], names[1], ('s', '')]],
                    [':checked', ':default', ':indeterminate', '[type]', '[checked]', f'[{names[1]}]', f'[{names[0]}=checkbox]', ':read-only']))
    for an, lv in [('lang', 'EN-us'), ('LANG', 'en'), ('Lang', 'EN'), ('lang', 'tr-\u0130'), ('lang', 'TR-I'), ('lang', 'de-\u017f'), ('lang', 'e\uff4e'), ('lan\u0261', 'en'), ('xml:lang', 'EN'),
                   ('lang', 'en '), ('lang', 'en\xa0'), ('lang', '\u2003en'), ('lang', 'en\u2028us'), ('lang', 'en\x0b')]:
        sem.append(([['attr', ['id', 's'], an, ('s', lv)]],
                    ['span:lang(en)', 'span:lang(EN)', 'span:lang(en-US)', 'span:lang("*-us")', 'span:lang(tr-i)', 'span:lang("tr-\u0131")', 'span:lang("TR-\u0130")', 'span:lang(de-s)', 'span:lang("de-\u017f")',
                     'span:lang("DE-\u017f")', 'span:lang("e\uff4e")', 'span:lang("")', f'span:lang({gen.q(lv)})', f'[{an}]', '[lang|=en i]', '[lang|=en]']))
    for an, dv, text in [('dir', 'RTL', 'a'), ('DIR', 'rtl', 'a'), ('dir', 'Auto', '\u05d0'), ('Dir', 'AUTO', '\u05d0'), ('d\u0131r', 'rtl', 'a'), ('dir', 'rt\u029f', 'a'), ('dir', 'rtl ', 'a'), ('dir', 'rtl\xa0', 'a'),
                         ('dir', '\u2003auto', '\u05d0'), ('dir', 'LTR', '\u05d0')]:
        sem.append(([['string', ['id', 's'], text], ['attr', ['id', 's'], an, ('s', dv)]], ['span:dir(rtl)', 'span:dir(ltr)', 'span:dir(RTL)', f'[{an}=rtl i]', '[dir]', ':dir(rtl)']))
    for he, cv in [('CONTENT-LANGUAGE', 'DE'), ('Content-Language', 'de'), ('content-language', 'de, fr'), ('content-language', 'de\xa0'), ('content-language', '\u2003de'), ('content-language', 'de\x0b'),
                   ('content-language ', 'de'), ('content\u2010language', 'de'), ('CONTENT-LANGUAGE', 'tr-\u0130')]:
        sem.append(([['attr', ['id', 'm'], 'http-equiv', ('s', he)], ['attr', ['id', 'm'], 'content', ('s', cv)]],
                    ['p:lang(de)', 'p:lang(DE)', 'p:lang(en)', 'p:lang(fr)', 'p:lang(tr-i)', ':root:lang(de)', 'p:lang("")', '[http-equiv=content-language i]', '[content=de i]']))
    if not full:
        sem = r.sample(sem, 22)
    for eds, sels in sem:
        k += 1
        parser = PARSERS[k % 3]
        out.append({'g': 'chars', 'm': base_doc(parser), 'p': parser, 'e': eds, 'q': [(r.choice(SEL_APIS), s) for s in sels]})
    # class names and ids differing in case only, with and without a doctype
    for parser in PARSERS:
        for doctype in (['<!DOCTYPE html>', ''] if parser != 'xml' else ['']):
            var, plain = r.choice(FOLDS)
            m = f'<div><p class="A b {var}">x</p><p class="a B {plain}" id="Q">y</p><p class="\u00c9" id="q">z</p><p class="a&#160;b" id="\u212a">w</p></div>'
            out.append({'g': 'chars', 'm': doctype + m, 'p': parser, 'e': [],
                        'q': [(r.choice(SEL_APIS), s) for s in ['.a', '.A', '.b.A', '.B', '.' + var, '.' + plain, '.' + plain.upper(), '.\u00e9', '.\u00c9', '#q', '#Q', '#k', '#K', '#\u212a', '[class~=a i]',
                                                                '[id=q i]', '[id=k i]', 'P', 'p:not(.a)', '.a.b', '.a\\a0 b']]})
    return out


def programs_text(r, full):
    """Text nodes made of / containing each of the characters, where the matcher asks "is this only white space?", "does the
    text contain ...?", "which is the first strong character?", "is this a number / a date?"."""
    out = []
    k = 0
    for c in SPACES + NOT_SPACES:
        k += 1
        parser = PARSERS[k % 4]
        sels = ['i:empty', 'i:not(:empty)', f'p:-soup-contains({gen.q("a" + c + "b")})', 'p:-soup-contains("a b")', f'p:-soup-contains-own({gen.q(c + "b")})', f'#d:-soup-contains-own({gen.q(c)})',
                ':root', ':root > *', '#d:root', 'textarea:placeholder-shown', 'i:dir(ltr)', 'i:dir(rtl)', 'p:dir(rtl)', 'i:only-child', 'i:first-child', 'em:empty', 'textarea:dir(ltr)',
                f':-soup-contains("x", {gen.q(c)})']
        via_markup = r.random() < 0.5 and c != '\x00' and (parser != 'xml' or xml_ok(c))
        enc_ = (xml_text if parser == 'xml' else html_text)
        ta = '' if parser == 'xml' else '<textarea id="t" dir="auto" placeholder="h">{t}</textarea>'
        if via_markup:
            body = f'<div id="d">{enc_(c)}<i id="e" dir="auto">{enc_(c)}</i>{enc_(c)}<p id="p" dir="auto">a{enc_(c)}b\u05d0</p><em>{enc_(c + c)}</em>' + ta.replace('{t}', enc_(c)) + '</div>'
            m = enc_(c) + body + enc_(c) if (r.random() < 0.5 and parser != 'xml') else body
            eds = []
        else:
            m = '<div id="d"><i id="e" dir="auto"></i><p id="p" dir="auto"></p><em></em>' + ta.replace('{t}', '') + '</div>'
            cls = r.choice(['NavigableString', 'NavigableString', 'UText', 'CData', 'PreformattedString'])
            eds = [['str', ['id', 'e'], 'NavigableString', c, 'append'], ['str', ['id', 'e'], cls, c, r.choice(['before', 'after'])], ['str', ['id', 'p'], 'NavigableString', 'a' + c + 'b\u05d0', 'append'],
                   ['str', ['n', 2 if parser in ('html.parser', 'xml') else 4], 'NavigableString', c + c, 'append'], ['str', None, 'NavigableString', c, r.choice(['append', 'insert0'])]]
            if parser != 'xml':
                eds.append(['str', ['id', 't'], 'NavigableString', c, 'append'])
        qs = [(r.choice(SEL_APIS), s) for s in (sels if full else r.sample(sels, 7))]
        out.append({'g': 'chars', 'm': m, 'p': parser, 'e': eds, 'el': ['id', 'e'], 'q': qs + [(r.choice(EL_APIS), s) for s in ('i:empty', ':root')]})
    # first strong character of a dir=auto element / text control
    for parser in PARSERS:
        body = ''.join(f'<p dir="auto" id="k{i}">{xml_text(" 1." + c + "a\u05d0")}</p>' for i, c in enumerate(FIRST_STRONG))
        if parser != 'xml':
            body += ''.join(f'<input dir="auto" type="text" value="{xml_text(c + "a\u05d0")}">' for c in FIRST_STRONG[:8]) + ''.join(f'<textarea dir="auto">{xml_text(c)}</textarea>' for c in FIRST_STRONG[8:14])
        out.append({'g': 'chars', 'm': f'<div dir="ltr">{body}</div>', 'p': parser, 'e': [],
                    'q': [('select', 'p:dir(rtl)'), ('select', 'p:dir(ltr)'), ('select', ':dir(rtl)'), ('select', 'input:dir(ltr)'), ('select', 'textarea:dir(rtl)'), ('select', ':not(:dir(ltr), :dir(rtl))')]})
    # numbers, dates and times written with other digits / other separators / white space around them
    ranged = []
    for d in DIGIT3:
        ranged += [('number', '1', '5', d), ('number', '1', '5', '-' + d), ('number', d, '5', '4'), ('range', '1', d + '0', '7'), ('number', '1', '5', d + '.' + d), ('date', '2020-01-01', '2020-12-31', f'2020-0{d}-15'),
                   ('time', '01:00', '05:00', f'0{d}:30'), ('month', '2020-01', '2020-05', f'2020-0{d}'), ('week', '2020-W01', '2020-W05', f'2020-W0{d}')]
    for c in SPACES + NOT_SPACES[:4]:
        ranged += [('number', '1', '5', '3' + c), ('number', '1', '5', c + '3'), ('date', '2020-01-01', '2020-12-31', '2020-06-15' + c), ('time', '01:00', '05:00', c + '03:30')]
    ranged += [('week', '2020-W01', '2020-W05', '2020-w03'), ('week', '2020-w01', '2020-W05', '2020-W03'), ('week', '2020-W01', '2020-W05', '2020-\uff3703'), ('datetime-local', '2020-01-01T00:00', '2020-12-31T00:00', '2020-06-15t12:30'),
               ('datetime-local', '2020-01-01T00:00', '2020-12-31T00:00', '2020-06-15T12:30'), ('number', '1', '5', '3E0'), ('number', '1', '5', '3e\u0660'), ('number', '1', '5', '+3'), ('number', '1', '5', '\u22123'),
               ('date', '2020-01-01', '2020-12-31', '2020\u201006\u201015'), ('time', '01:00', '05:00', '03\uff1a30'), ('NUMBER', '1', '5', '3'), ('Number', '1', '5', '9'), ('\u0274umber', '1', '5', '9')]
    for parser in PARSERS[:3]:          # all of them as controls of one parsed document (the characters raw in the markup) ...
        body = ''.join(f'<input type="{html_text(t)}" min="{html_text(lo)}" max="{html_text(hi)}" value="{html_text(val)}">' for t, lo, hi, val in ranged if '\x00' not in t + lo + hi + val)
        out.append({'g': 'chars', 'm': f'<form>{body}</form>', 'p': parser, 'e': [],
                    'q': [('select', ':in-range'), ('select', ':out-of-range'), ('select', 'input:not(:in-range, :out-of-range)')]})
    for t, lo, hi, val in (ranged if full else r.sample(ranged, 10)):          # ... and one at a time, assigned through the API
        k += 1
        parser = PARSERS[k % 3]
        out.append({'g': 'chars', 'm': base_doc(parser), 'p': parser, 'el': ['id', 'i'],
                    'e': [['attr', ['id', 'i'], 'type', ('s', t)], ['attr', ['id', 'i'], 'min', ('s', lo)], ['attr', ['id', 'i'], 'max', ('s', hi)], ['attr', ['id', 'i'], 'value', ('s', val)]],
                    'q': [('select', ':in-range'), ('select', ':out-of-range'), (r.choice(EL_APIS), 'input:not(:in-range, :out-of-range)')]})
    return out


SELECTOR_SHAPES = ['div{c}p', 'div{c}>{c}p', 'p{c},{c}span', ':is({c}p{c},{c}span)', 'p:nth-child({c}1{c})', 'span:nth-child(2n{c}+{c}0)', 'span:nth-child({c}even)', '[{c}id{c}={c}p{c}]', '[class~=a{c}]',
                   '[class="a{c}b"]', '[class~="a{c}b"]', '[class=a{c}b]', ':lang({c}en{c})', 'p:not({c}.a{c})', 'p:nth-child(1 of{c}.a)', 'p:nth-child(1{c}of .a)', ':-soup-contains("x",{c}"y")',
                   ':-soup-contains({c}x{c})', '{c}p', 'p{c}', 'p.a{c}.b', 'div:has({c}+{c}span)', 'p{c}+{c}span', 'p{c}~{c}a', 'p{c}||{c}a', 'span:dir({c}ltr{c})', '[class="a\\{c}b"]', '.\\61{c}.b', 'p.\\61{c}',
                   '#\\000070{c}', '[id=p{c}i]', '[id="P"{c}i]', '[id="p"{c}s{c}]', '/*{c}*/p', 'p/*{c}*/.a', 'svg|*,{c}x|e', 'x{c}|e', 'x|{c}e', 'div >{c}:scope', '.a{c}b', 'p:nth-child(n{c}of{c}p)',
                   ':not({c})', ':is({c})', 'p:is()', 'a:any-link{c}']


def programs_selectors(r, full):
    """The selector TEXT: each character as separator / padding at every place where the grammar allows (or forbids) white space;
    keywords, names and flags in other case, with the letters of FOLDS; numbers written with other digits."""
    out = []
    k = 0
    for c in SPACES + NOT_SPACES:
        k += 1
        parser = PARSERS[k % 4]
        out.append({'g': 'chars', 'm': base_doc(parser), 'p': parser, 'ns': NSMAP, 'el': ['id', 'p'], 'e': [],
                    'q': [(r.choice(SEL_APIS + EL_APIS), s.replace('{c}', c)) for s in (SELECTOR_SHAPES if full else r.sample(SELECTOR_SHAPES, 8))]})
    sels = ['DIV > P', 'P.a.b', 'p.A', ':NOT(.a)', 'p:Nth-Child(1)', 'span:nth-child(EVEN)', 'span:nth-child(2N+0)', 'p:nth-child(1 OF .a)', '[ID=p]', '[id=P I]', '[id=P i]', '[id=p S]', '[TYPE=CHECKBOX]', ':LANG(EN)',
            'p:lang(EN)', 'p:Dir(LTR)', ':ROOT', ':iS(p, SPAN)', ':Has(> P)', ':-SOUP-CONTAINS("x")', ':-soup-contains("X")', 'X|E', 'x|E', 'SVG|*', ':Checked, :Indeterminate', ':ANY-LINK', 'A[REL~=NOFOLLOW]',
            '.\\41', '#\\50', '\\50', '\\70', 'p:NOT(:EMPTY)', ':Where(P)', ':Scope > *', ':Nth-Last-Of-Type(1)', ':Only-Child', 'Input:Enabled']
    var = [':chec\u212aed', ':lin\u212a', ':any-lin\u212a', ':\u0131s(p)', ':\u0130s(p)', ':i\u017f(p)', ':ha\u017f(p)', ':nth-la\u017ft-child(1)', ':fir\u017ft-child', 'p:nth-ch\u0131ld(1)', '[id=p \u0131]', '[id=P \u0130]', '[id=p \u017f]',
           'p:d\u0131r(ltr)', 'p:dir(\u029ftr)', 'p:lang(e\uff4e)', '\u212a', 'd\u0131v', 'D\u0130V', '\u017fpan', '\uff50', 'span:nth-child(e\u1e7een)', ':\u017fcope', ':-\u017foup-contains("x")', 'p:nth-child(1 o\uff46 .a)',
           ':roo\uff54', ':disab\u029fed', 'p:\u0274ot(.a)', ':enab\u217ced', '\u217fiv']
    digits = ['p:nth-child(\u0661)', 'span:nth-child(\u0662n+\u0660)', 'span:nth-child(\uff12)', ':nth-child(\u00b2)', 'span:nth-child(2n+\u0660)', 'span:nth-child(\u0be8)', 'span:nth-of-type(\u2460)', 'p:nth-child(+1)',
              '.\\0664 1', '.\\\u0664 1', '[id="\\7\u0660 "]', '[id=\\7\u0660]', 'span:nth-child(-n+\u0663)', 'span:nth-child(\u2212n+3)', 'span:nth-child(n\uff0b2)', 'p:nth-child(1\u0660)', 'p:nth-child(0\u06f1)']
    for parser in PARSERS:
        out.append({'g': 'chars', 'm': base_doc(parser), 'p': parser, 'ns': NSMAP, 'el': ['id', 'p'], 'e': [],
                    'q': [(r.choice(SEL_APIS), s) for s in sels + var + digits] + [(r.choice(EL_APIS), s) for s in r.sample(sels + var, 8)]})
    return out


def programs_chars(r, full):
    return programs_words(r, full) + programs_case(r, full) + programs_text(r, full) + programs_selectors(r, full)


def import_programs(r, full):
    """Import sequences after which the programs are run: every sequence of length <= 2 of the eight entry points, every
    further import form alone, and further forms combined with the other package in both orders."""
    seqs = [s for n in (1, 2) for s in itertools.product(range(8), repeat=n)]
    if not full:        # two soupsieve statements in a row: all of them are 'soupsieve first'; a sample is enough in the quick tier
        sv2 = [s for s in seqs if len(s) == 2 and min(s) >= 3]
        drop = set(r.sample(sv2, len(sv2) - 5))
        seqs = [s for s in seqs if s not in drop]
    progs = [[ENTRY[i] for i in s] for s in seqs]
    progs += [[e] for e in EXTRA_BS4 + EXTRA_SV]
    pairs = [[b, s] for b in EXTRA_BS4 for s in ['import soupsieve']] + [[s, b] for b in EXTRA_BS4 for s in ['import soupsieve']] \
        + [[b, s] for s in EXTRA_SV for b in ['import bs4']] + [[s, b] for s in EXTRA_SV for b in ['import bs4']] \
        + [[b, s] for b in EXTRA_BS4 for s in EXTRA_SV if (hash_pair(b, s) % 5 == 0)] + [[s, b] for b in EXTRA_BS4 for s in EXTRA_SV if (hash_pair(b, s) % 5 == 1)]
    progs += pairs if full else r.sample(pairs, 16)
    return progs


def hash_pair(a, b):
    return sum(map(ord, a)) * 31 + sum(map(ord, b))


def py_value(v):
    t, x = v
    if t in ('s', 'i', 'f'):
        return repr(x)
    if t == 'b':
        return repr(bytes.fromhex(x))
    if t == 'ba':
        return f'bytearray({bytes.fromhex(x)!r})'
    if t == 'n':
        return 'None'
    if t == 'B':
        return repr(bool(x))
    if t == 'range':
        return f'range({x})'
    if t in CONTAINERS:
        inner = ', '.join(map(py_value, x))
        return {'list': f'[{inner}]', 'tuple': f'({inner}{"," if len(x) == 1 else ""})', 'avl': f'bs4.element.AttributeValueList([{inner}])',
                'listsub': f'ListSubclass([{inner}])', 'deque': f'collections.deque([{inner}])'}[t]
    return {'strsub': 'StrSubclass', 'obj': 'ObjectWithStr', 'cmav': 'bs4.element.CharsetMetaAttributeValue'}.get(t, ('bs4.element.' if not t.startswith('U') else 'UserSubclassOf_') + t) + f'({x!r})'


def describe_program(case, through='Beautiful Soup'):
    """The program as (approximate) Python text, for the reader of a replay file; the replay itself runs the stored data."""
    def tgt(t):
        return 'soup' if t is None else (f'soup.find(id={t[1]!r})' if t[0] == 'id' else f'soup.find_all(True)[{t[1]} % n_tags]')
    lines = [f'soup = BeautifulSoup({case["m"]!r}, {case["p"]!r}' + ''.join(f', {k}={v!r}' for k, v in (case.get('kw') or {}).items()) + ')']
    for ed in case['e']:
        op = ed[0]
        if op == 'attr':
            lines.append(f'{tgt(ed[1])}[{ed[2]!r}] = {py_value(ed[3])}')
        elif op == 'attrs':
            lines.append(f'{tgt(ed[1])}.attrs = {ed[2]}({{' + ', '.join(f'{k!r}: {py_value(v)}' for k, v in ed[3]) + '})')
        elif op == 'nsattr':
            lines.append(f'{tgt(ed[1])}[NamespacedAttribute({ed[2]!r}, {ed[3]!r}, {ed[4]!r})] = {py_value(ed[5])}')
        elif op == 'str':
            lines.append(f'{tgt(ed[1])}.{ed[4]}({py_value((ed[2], ed[3]))})    # append / insert(0, ..) / insert_before / insert_after / replace_with')
        elif op == 'tag':
            lines.append(f'{tgt(ed[1])}.{ed[8]}(<{ed[2]}>(name={ed[3]!r}, prefix={ed[4]!r}, namespace={ed[5]!r}, attrs={{' +
                         ', '.join(f'{k!r}: {py_value(v)}' for k, v in ed[6]) + f'}}, text={ed[7]!r}))')
        elif op == 'soup':
            lines.append(f'{tgt(ed[1])}.{ed[5]}({"BeautifulSoupSubclass" if ed[4] == "USoup" else "BeautifulSoup"}({ed[2]!r}, {ed[3]!r}))')
        elif op in ('copy', 'deepcopy'):
            lines.append(f'soup = copy.{op}(soup)')
        elif op == 'smooth':
            lines.append('soup.smooth()')
        elif op == 'detach':
            lines.append(f'scope = el = {tgt(ed[1])}.extract()')
        else:
            lines.append(f'{tgt(ed[1])}.{op}({", ".join(map(repr, ed[2:]))})')
    lines.append(f'scope = {tgt(case.get("scope"))}; el = {tgt(case.get("el")) if case.get("el") else "scope"}    # unless detached above')
    kw = f'namespaces={case.get("ns")!r}, limit={case.get("limit", 0)}, flags={case.get("flags", 0)}'
    for api, sel in case['q']:
        on = 'el' if api in EL_APIS else 'scope'
        if through == 'soupsieve':
            lines.append(f'soupsieve.{"compile(..).select" if api in ("compiled", "css_compile") else api}({sel!r}, {on}, {kw})')
        else:
            lines.append({'select': f'{on}.select({sel!r}, {kw})', 'select_one': f'{on}.select_one({sel!r}, {kw})',
                          'compiled': f'{on}.select(soupsieve.compile({sel!r}, ..), ..)', 'css_compile': f'{on}.css.compile({sel!r}, ..).select({on}, ..)'}
                         .get(api, f'{on}.css.{api}({sel!r}, {kw})'))
    return lines


def run_work(imports, cases_path):
    """Fresh interpreter: the import statements (warnings are errors), then the programs of `cases_path`."""
    code = '; '.join(imports) + '\n' + WORK
    env = dict(os.environ)
    env.pop('PYTHONPATH', None)
    if os.environ.get('SOUPVERIF_REPO'):
        env['PYTHONPATH'] = os.environ['SOUPVERIF_REPO']
    try:
        p = subprocess.run(['/venv/bin/python', '-W', 'error', '-c', code, cases_path], stdout=subprocess.PIPE, stderr=subprocess.PIPE, cwd='/tmp',
                           env=env, timeout=300)
    except subprocess.TimeoutExpired:
        return {'imports': imports, 'rc': 'timeout', 'extra': [], 'stderr': '', 'rows': None}
    lines = [l for l in p.stdout.decode().splitlines() if l.strip()]
    rows = next((json.loads(l[5:]) for l in lines if l.startswith('WORK ')), None)
    return {'imports': imports, 'rc': p.returncode, 'extra': [l for l in lines if not l.startswith('WORK ')][:5], 'stderr': p.stderr.decode()[-600:], 'rows': rows}


def compare_work(cases, runs):
    """Verdicts over the runs of one program list: [(kind, detail)] with the program cut down to the one differing query."""
    ref = next((x for x in runs if x['imports'] == ['import soupsieve'] and x['rows'] is not None), None) or \
        next((x for x in runs if x['rows'] is not None), None)
    bad = []
    seen = set()
    for x in runs:
        if x['rc'] != 0 or x['extra'] or x['stderr'].strip() or x['rows'] is None or len(x['rows']) != len(cases):
            bad.append(('program-run', {'what': 'the programs run after this import sequence fail, or something is printed', 'imports': x['imports'], 'rc': x['rc'],
                                        'stdout_extra': x['extra'], 'stderr': x['stderr']}))
            continue
        for ci, (case, row, rrow) in enumerate(zip(cases, x['rows'], ref['rows'])):
            for pi, how in enumerate(('Beautiful Soup', 'soupsieve')):
                got, want = row[pi], rrow[pi]
                if got == want:
                    continue
                qi = next((i for i, (g, w) in enumerate(zip(got['a'], want['a'])) if g != w), None)
                key = (ci, qi)
                if key in seen:
                    continue
                seen.add(key)
                one = dict(case, q=[case['q'][qi]] if qi is not None else case['q'])
                bad.append(('order', {'what': 'the same program gives a different answer depending on what was imported first', 'program': one,
                                      'program_as_python': describe_program(one, how), 'through': how,
                                      'imports': x['imports'], 'answer': got['a'][qi] if qi is not None else got, 'reference_imports': ref['imports'],
                                      'reference_answer': want['a'][qi] if qi is not None else want}))
    if ref is not None:
        for ci, (case, row) in enumerate(zip(cases, ref['rows'])):
            if row[0] != row[1]:
                qi = next((i for i, (g, w) in enumerate(zip(row[0]['a'], row[1]['a'])) if g != w), None)
                one = dict(case, q=[case['q'][qi]] if qi is not None else case['q'])
                bad.append(('paths', {'what': 'Beautiful Soup and soupsieve give different answers to the same program', 'program': one, 'program_as_python': describe_program(one), 'imports': ref['imports'],
                                      'reference_imports': ref['imports'], 'through_bs4': row[0]['a'][qi] if qi is not None else row[0],
                                      'through_soupsieve': row[1]['a'][qi] if qi is not None else row[1]}))
    return ref, bad


def work_check(chk):
    full = chk.tier != 'quick'
    r = random.Random(chk.seed * 16 + 5)
    cases = programs_values(r, full) + programs_nodes(r, full) + programs_tags(r, full) + programs_random(r, 300 if full else 40)
    cases += programs_chars(random.Random(chk.seed * 16 + 6), full)           # its own stream: the lists above stay what they were
    progs = import_programs(r, full)
    with tempfile.NamedTemporaryFile('w', suffix='.json', prefix='c16_programs_', delete=False) as f:
        json.dump(cases, f)
    try:
        with ThreadPoolExecutor(max_workers=14) as ex:
            runs = list(ex.map(lambda imp: run_work(imp, f.name), progs))
    finally:
        os.unlink(f.name)
    ref, bad = compare_work(cases, runs)
    groups = {}
    answered = nonempty = raised = queries = 0
    if ref is not None:
        for case, row in zip(cases, ref['rows']):
            groups[case['g']] = groups.get(case['g'], 0) + 1
            for a in row[1]['a']:
                queries += 1
                raised += isinstance(a, str) and a.startswith('raised ')
                nonempty += a not in ([], None, False) and not (isinstance(a, str) and a.startswith('raised '))
    chk.coverage.update({'work_import_sequences': len(progs), 'work_programs': len(cases), 'work_programs_by_group': groups, 'work_queries': queries,
                         'work_queries_matching_something': nonempty, 'work_queries_raising_in_every_order': raised,
                         'work_comparisons': queries * 2 * len(progs), 'work_failures': len(bad)})
    chk.samples.append({'imports': progs[9], 'program': dict(cases[2], q=cases[2]['q'][:2]), 'answers': ref['rows'][2][0]['a'][:2] if ref else None})
    return bad, len(progs), queries


def run(chk):
    proof_ok = framework.lean_pipeline(chk, SOURCES)
    driver_ok = proof_ok or chk.build(['svdriver'])[0]
    quick = chk.tier == 'quick'
    k = 2 if quick else 3
    seqs = [s for n in range(1, k + 1) for s in itertools.product(range(8), repeat=n)]
    with ThreadPoolExecutor(max_workers=14) as ex:
        results = list(ex.map(run_seq, seqs))
    bad = []
    ref = None
    nontriv = 0
    for r in results:
        if r['seq'][0] < 3 or (any(i < 3 for i in r['seq']) and any(i >= 3 for i in r['seq'])):
            nontriv += 1
        ok = r['rc'] == 0 and not r['stdout_extra'] and not r['stderr'].strip() and r['result'] and r['result'].startswith('RESULT True 4 ')
        if ok:
            ref = ref or r['result']
            ok = r['result'] == ref
        if not ok:
            bad.append({'imports': [ENTRY[i] for i in r['seq']], **r, 'replay_command': "cd /tmp && /venv/bin/python -W error -c " + json.dumps('; '.join(ENTRY[i] for i in r['seq']) + '; ' + PROBE)})
    corr_bad = []
    if driver_ok:
        resp = driver.run([f'(16 ({" ".join(map(str, s))}))' for s in seqs])
        for s, r, line in zip(seqs, results, resp):
            m = enc.parse_sx(line)
            model_ok = isinstance(m, list) and m[0] == 1 and (len(m) < 2 or m[1] == 1)
            if model_ok != (r['rc'] == 0):
                corr_bad.append({'imports': [ENTRY[i] for i in s], 'interpreter_rc': r['rc'], 'model': m})
    chk.samples = [{'imports': [ENTRY[i] for i in seqs[j]], 'result': results[j]['result']} for j in (0, 8, 40)]
    work_bad, work_seqs, work_queries = work_check(chk)
    chk.coverage.update({'sequences': len(seqs), 'max_length': k, 'exhaustive': True, 'failures': len(bad), 'model_mismatches': len(corr_bad)})
    for i, b in enumerate(bad[:5]):
        chk.violation(f'imp{i}', {'what': 'import sequence fails, prints, or the two select paths disagree', **b}, concrete=True)
    shown = {}
    for kind, b in work_bad:
        if shown.get(kind, 0) < 4:
            shown[kind] = shown.get(kind, 0) + 1
            chk.violation(f'work_{kind}{shown[kind] - 1}', {'kind': 'work', **b}, concrete=True)
    for i, b in enumerate(corr_bad[:3]):
        chk.violation(f'corr{i}', {'correspondence': 'fresh interpreter ≡ Lean import model', **b}, concrete=False)
    if not proof_ok and not (bad or corr_bad or work_bad):
        chk.violation('proof', {'what': 'proof obligation no longer checks (regenerated import-time event lists); every import sequence '
                                        'tried succeeds in a fresh interpreter', 'theorem_or_correspondence': 'SoupVerif.Properties.C16',
                                'detail': chk.notes.get('proof_broken')}, concrete=False)
    return chk.finish(rule=RULE, evaluations=len(seqs) + work_seqs * work_queries * 2, distinct=nontriv + work_queries)


def replay(chk, path):
    data = json.load(open(path))
    if data.get('kind') == 'work':
        return replay_work(chk, path, data)
    r = run_seq(data['seq'])
    print(json.dumps(r))
    if r['rc'] != 0 or r['stdout_extra'] or r['stderr'].strip():
        print(f'VIOLATION property={PID} replay={path}')
        return 1
    return 0


def replay_work(chk, path, data):
    """The stored program after the stored import sequence and after the reference one, each in a fresh interpreter."""
    if 'program' not in data:            # the run after the imports failed as a whole: the import sequence is the input
        with tempfile.NamedTemporaryFile('w', suffix='.json', prefix='c16_programs_', delete=False) as f:
            f.write('[]')
        try:
            x = run_work(data['imports'], f.name)
        finally:
            os.unlink(f.name)
        print(json.dumps({k: x[k] for k in ('imports', 'rc', 'extra', 'stderr')}))
        if x['rc'] != 0 or x['extra'] or x['stderr'].strip():
            print(f'VIOLATION property={PID} replay={path}')
            return 1
        return 0
    cases = [data['program']]
    with tempfile.NamedTemporaryFile('w', suffix='.json', prefix='c16_programs_', delete=False) as f:
        json.dump(cases, f)
    try:
        runs = [run_work(imp, f.name) for imp in ([data['reference_imports']] + ([data['imports']] if data['imports'] != data['reference_imports'] else []))]
    finally:
        os.unlink(f.name)
    for x in runs:
        print(json.dumps({'imports': x['imports'], 'rc': x['rc'], 'stderr': x['stderr'], 'through_bs4': x['rows'] and x['rows'][0][0], 'through_soupsieve': x['rows'] and x['rows'][0][1]}))
    _, bad = compare_work(cases, runs)
    if bad:
        print(f'VIOLATION property={PID} replay={path}')
        return 1
    return 0
