import SoupVerif.Properties.C06GenCustom
open SoupVerif
#print axioms C06GenCustom.customStep_eq
#print axioms C06GenCustom.processCustom_eq_gen
#print axioms C06GenCustom.gen_error_kinds
#print axioms C06GenCustom.compile_custom_errors_only_from_gen
#print axioms C06GenCustom.gen_case_collision
#print axioms C06GenCustom.gen_bad_name
#print axioms C06GenCustom.gen_escaped_collision
