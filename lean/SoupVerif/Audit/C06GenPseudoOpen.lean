/-
  Audit of C06GenPseudoOpen: the flag computation of `CSSParser.parse_pseudo_open` regenerated from the source
  (`Generated/PyPseudoOpen.lean`) = the hand-written model's (`ParseDisp.runCall` / `Parser.parseLoop`, `C09Compile2.fnFlags`).
-/
import SoupVerif.Properties.C06GenPseudoOpen
open SoupVerif

#print axioms C06GenPseudoOpen.openFlags_eq_model
#print axioms C06GenPseudoOpen.openFlags_eq_fnFlags
#print axioms C06GenPseudoOpen.runCall_pseudo_open_gen
#print axioms C06GenPseudoOpen.gen_forgive_iff
#print axioms C06GenPseudoOpen.gen_not_iff
#print axioms C06GenPseudoOpen.gen_relative_iff
#print axioms C06GenPseudoOpen.gen_pseudo_open_bits
#print axioms C06GenPseudoOpen.gen_NestedFlags
#print axioms C06GenPseudoOpen.gen_fnFlags_facts
#print axioms C06GenPseudoOpen.frame_checked
