import SoupVerif.Properties.C18Range
open SoupVerif
#print axioms C18.parseValue_some_known
#print axioms C18.parseValueE_some_known
#print axioms C18.range_def
#print axioms C18.range_total
#print axioms C18.range_missing_value
#print axioms C18.range_no_bounds
#print axioms C18.range_time_wrap
#print axioms C18.range_time_plain
#print axioms C18.range_date
