import SoupVerif.Properties.C17GenRange
open SoupVerif
#print axioms C17.handDecision_oorOf
#print axioms C17.oorOf_eq_gen
#print axioms C17.not_oorOf_eq_gen
#print axioms C17.rangeState_gen
#print axioms C17.inrange_eq_gen
