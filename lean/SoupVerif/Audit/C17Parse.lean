/-
  Audit of C17Parse (C17 from the selector TEXT): axioms of every theorem, and a sweep of the model over the
  example document of `Properties/C17Parse.lean` whose expected values were produced by the real soupsieve
  (html.parser; `select(text, soup)` restricted to the nine children of the form, by index).
-/
import SoupVerif.Properties.C17Parse
open SoupVerif

/-! Helpers (`Refine/C17ParseBase.lean`) -/
#print axioms Refine.C17Parse.StateKw.pick_builtinsRec
#print axioms Refine.C17Parse.StateKw.list_isHtml
#print axioms Refine.C17Parse.StateKw.name_plain
#print axioms Refine.C17Parse.pseudoList_render
#print axioms Refine.C17Parse.pseudoList_ok
#print axioms Refine.C17Parse.plainPseudo_state
#print axioms Refine.C17Parse.plainPseudo_root
#print axioms Refine.C17Parse.plainPseudo_empty
#print axioms Refine.C17Parse.denote_pseudo
#print axioms Refine.C17Parse.denote_state
#print axioms Refine.C17Parse.denote_root
#print axioms Refine.C17Parse.denote_empty
#print axioms Refine.C17Parse.compile_pseudo
#print axioms Refine.C17Parse.compile_state
#print axioms Refine.C17Parse.compile_root
#print axioms Refine.C17Parse.compile_empty
#print axioms Refine.C17Parse.dirPat_render
#print axioms Refine.C17Parse.dirPat_ok
#print axioms Refine.C17Parse.denote_dir
#print axioms Refine.C17Parse.compile_dir

/-! 1. The parser on the text (`compile_K_text`) -/
#print axioms C17Parse.spells_literal
#print axioms C17Parse.compile_state_text_gen
#print axioms C17Parse.compile_state_text
#print axioms C17Parse.compile_enabled_text
#print axioms C17Parse.compile_disabled_text
#print axioms C17Parse.compile_required_text
#print axioms C17Parse.compile_optional_text
#print axioms C17Parse.compile_read_write_text
#print axioms C17Parse.compile_read_only_text
#print axioms C17Parse.compile_in_range_text
#print axioms C17Parse.compile_out_of_range_text
#print axioms C17Parse.compile_link_text
#print axioms C17Parse.compile_any_link_text
#print axioms C17Parse.compile_checked_text
#print axioms C17Parse.compile_default_text
#print axioms C17Parse.compile_indeterminate_text
#print axioms C17Parse.compile_placeholder_shown_text
#print axioms C17Parse.compile_root_text
#print axioms C17Parse.compile_empty_text

/-! The bridge -/
#print axioms C17Parse.inDefaultNs_iff
#print axioms C17Parse.inDefaultNs_of_no_default
#print axioms C17Parse.inDefaultNs_of_no_map
#print axioms C17Parse.matchList_oneSub
#print axioms C17Parse.matchEl_oneSub
#print axioms C17Parse.matchEl_oneFlag
#print axioms C17Parse.subjectOk_iff
#print axioms C17Parse.state_text
#print axioms C17Parse.state_text_api
#print axioms C17Parse.root_text
#print axioms C17Parse.empty_text

/-! 2. The laws on the text -/
#print axioms C17Parse.enabled_disabled_text
#print axioms C17Parse.enabled_disabled_text_plain
#print axioms C17Parse.required_optional_text
#print axioms C17Parse.required_optional_text_plain
#print axioms C17Parse.readwrite_readonly_text
#print axioms C17Parse.readwrite_readonly_text_plain
#print axioms C17Parse.inrange_outofrange_text
#print axioms C17Parse.inrange_outofrange_text_plain
#print axioms C17Parse.link_anylink_compile
#print axioms C17Parse.link_anylink_text
#print axioms C17Parse.link_text_def
#print axioms C17Parse.checked_sub_default_text
#print axioms C17Parse.enabled_text_def
#print axioms C17Parse.disabled_text_def
#print axioms C17Parse.required_text_def
#print axioms C17Parse.optional_text_def
#print axioms C17Parse.checked_text_def
#print axioms C17Parse.default_text_def
#print axioms C17Parse.indeterminate_text_def
#print axioms C17Parse.placeholder_shown_text_def

/-! 3. XML that is not XHTML -/
#print axioms C17Parse.state_list_xml
#print axioms C17Parse.state_text_xml

/-! 4. `:dir()` -/
#print axioms C17Parse.compile_dir_text
#print axioms C17Parse.dir_text
#print axioms C17Parse.dir_partition_text
#print axioms C17Parse.dir_text_xml

namespace SoupVerif.AuditC17Parse
open C17Parse C17Parse.Examples C12Parse

/-- Indices (among the nine children of the form) of the elements `matchText` accepts. -/
def hits (c : Ctx) (t : String) : List Nat :=
  (List.range 9).filter fun i =>
    match matchText c t.toStr (at_ i) with
    | .ok b => b
    | .error _ => false

/-- The same through the IR-level list. -/
def hitsIR (c : Ctx) (L : SelList) : List Nat :=
  (List.range 9).filter fun i => subjectOk c (elemAt i) && matchList c (at_ i) (elemAt i) L

-- expected values: real soupsieve 2.6.1 / bs4 4.15.0, html.parser, on
-- <html><body><form><input><input disabled=""><input type="hidden"><input required="">
-- <input type="number" min="1" max="5" value="7"><input type="number" min="1" value="3"><a href="x"></a>
-- <input type="checkbox" checked=""><p></p></form></body></html>
#guard hits ctx ":enabled" == [0, 3, 4, 5, 7]
#guard hits ctx " :DIS\\41 bled/**/" == [1]
#guard hits ctx ":disabled" == [1]
#guard hits ctx ":required" == [3]
#guard hits ctx ":optional" == [0, 1, 2, 4, 5, 7]
#guard hits ctx ":read-write" == [0, 3, 4, 5]
#guard hits ctx ":\\72 EAD-only" == [1, 2, 6, 7, 8]
#guard hits ctx ":in-range" == [5]
#guard hits ctx ":out-of-range" == [4]
#guard hits ctx ":link" == [6]
#guard hits ctx "/* c */:Any-Link\t" == [6]
#guard hits ctx ":checked" == [7]
#guard hits ctx ":default" == [7]
#guard hits ctx ":indeterminate" == []
#guard hits ctx ":placeholder-shown" == []
#guard hits ctx ":empty" == [0, 1, 2, 3, 4, 5, 6, 7, 8]
#guard hits ctx ":ROOT" == []
#guard hits ctx ":DIR( LtR )" == [0, 1, 2, 3, 4, 5, 6, 7, 8]
#guard hits ctx ":dir(rtl)" == []
-- text level = IR level (what `state_text` proves in general)
#guard hits ctx ":enabled" == hitsIR ctx Gen.CSS_ENABLED
#guard hits ctx ":disabled" == hitsIR ctx Gen.CSS_DISABLED
#guard hits ctx ":optional" == hitsIR ctx Gen.CSS_OPTIONAL
#guard hits ctx ":read-only" == hitsIR ctx Gen.CSS_READ_ONLY
-- namespaces={'': 'urn:other'}: every one of them selects nothing (real soupsieve: `[]` for all thirteen texts)
#guard hits ctxNs ":enabled" == [] && hits ctxNs ":disabled" == [] && hits ctxNs ":read-only" == [] &&
  hits ctxNs ":optional" == [] && hits ctxNs ":link" == []
-- the same document parsed as XML (`lxml-xml`; real soupsieve: 0 matches)
#guard hits ctxXml ":enabled" == [] && hits ctxXml ":disabled" == [] && hits ctxXml ":read-only" == [] &&
  hits ctxXml ":optional" == [] && hits ctxXml ":link" == []

end SoupVerif.AuditC17Parse
