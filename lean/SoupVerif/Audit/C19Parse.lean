/-
  Audit of C19Parse: axioms of every theorem of `Properties/C19Parse.lean` and of the non-vacuity instances.
-/
import SoupVerif.Properties.C19Parse
open SoupVerif
#print axioms C19Parse.apply_contains
#print axioms C19Parse.matchSel_mk_contains
#print axioms C19Parse.matchSel_freeze_addContains
#print axioms C19Parse.matchSel_withContains
#print axioms C19Parse.matchSel_selOf_tagOnly
#print axioms C19Parse.matchContains_one
#print axioms C19Parse.contains_compound_text
#print axioms C19Parse.contains_type_text
#print axioms C19Parse.soup_contains_text
#print axioms C19Parse.contains_alias_text
#print axioms C19Parse.soup_contains_own_text
#print axioms C19Parse.contains_spelling_text
#print axioms C19Parse.contains_type_text_api
/-! Non-vacuity -/
#print axioms C19Parse.Examples.cA_text
#print axioms C19Parse.Examples.cB_text
#print axioms C19Parse.Examples.cC_text
