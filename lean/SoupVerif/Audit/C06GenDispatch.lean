import SoupVerif.Properties.C06GenDispatch
import SoupVerif.Properties.C06GenPseudo
open SoupVerif
#print axioms C06GenDispatch.token_name_mem
#print axioms C06GenDispatch.dispatch_keys
#print axioms C06GenDispatch.dispatch_keys_nodup
#print axioms C06GenDispatch.every_token_has_branch
#print axioms C06GenDispatch.dispatch_agrees
#print axioms C06GenDispatch.modelKeys_eq_tokenNames
#print axioms C06GenDispatch.stepOf_eq_runAction
#print axioms C06GenDispatch.stepOf_gen
#print axioms C06GenDispatch.parseLoop_gen
#print axioms C06GenDispatch.tables_eq_model
#print axioms C06GenDispatch.switches_masks
#print axioms C06GenDispatch.finalFlags_values
#print axioms C06GenDispatch.amp_sets_scope
#print axioms C06GenDispatch.switchOf_model
#print axioms C06GenDispatch.finalSels_gen
#print axioms C06GenDispatch.applyFinal_last
#print axioms C06GenDispatch.resultFlag_gen
#print axioms C06GenDispatch.finalSels_result
#print axioms C06GenDispatch.parseSelectors_gen
#print axioms C06GenPseudo.pseudoNames_keys
#print axioms C06GenPseudo.pseudoNames_nodup
#print axioms C06GenPseudo.every_simple_has_branch
#print axioms C06GenPseudo.pseudo_dispatch_agrees
#print axioms C06GenPseudo.applySimplePseudo_eq_runPseudo
#print axioms C06GenPseudo.applySimplePseudo_gen
#print axioms C06GenPseudo.plainPseudo_gen
#print axioms C06GenPseudo.builtinOf_gen
#print axioms C06GenPseudo.builtins_known
#print axioms C06GenPseudo.pseudo_flags_gen
#print axioms C06GenPseudo.state_keyword_gen
