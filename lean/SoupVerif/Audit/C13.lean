import SoupVerif.Properties.C13
open SoupVerif
#print axioms C13.filterLoop_eq_rfc
#print axioms C13.filterLoop_empty_subtag
#print axioms C13.rfcLoop_empty_subtag
#print axioms C13.filterLoop_star_literal
#print axioms C13.filterCore_eq_rfc
#print axioms C13.rfc_star_matches_empty_text
#print axioms C13.rfc_empty_range
#print axioms C13.empty_range_only_empty_tag
#print axioms C13.star_range_nonempty_tag
#print axioms C13.filterCore_eq_c13
#print axioms C13.rfc_star_skip
#print axioms C13.rfc_stripWild
#print axioms C13.trailing_wildcard_redundant
#print axioms C13.filterCore_stripWild_eq_rfc
#print axioms C13.filterCore_stripWild_eq_c13
#print axioms C13.extendedFilter_eq_c13
#print axioms C13.rfc_alg_eq_decl
#print axioms C13.rfc_decl_eq_pos
#print axioms C13.embeds_eq_positions
#print axioms C13.greedy_exchange
#print axioms C13.extendedFilter_lowered
#print axioms C13.filter_case_insensitive
#print axioms C13.filter_lower_invariant
#print axioms C13.hw_of_commutes
