import SoupVerif.Properties.C16
open SoupVerif
#print axioms Imports.importModule_present
#print axioms Imports.execEvent_settled
#print axioms Imports.execEvents_settled
#print axioms Imports.execEntry_settled
#print axioms Imports.run_append
#print axioms C16.graph_wellFormed
#print axioms C16.no_unknown_events
#print axioms C16.graph_modules
#print axioms C16.graph_dotted_names
#print axioms C16.names_of_entry_ids
#print axioms C16.fresh_import_ok
#print axioms C16.reachable_closed
#print axioms C16.any_order_ok
#print axioms C16.reachable_allDone
#print axioms C16.no_partial_modules
#print axioms C16.reimport_noop
#print axioms C16.reachable_settled
#print axioms C16.settled_after_first
#print axioms C16.later_imports_noop
#print axioms C16.step_comm_reachable
#print axioms C16.final_state_order_independent
#print axioms C16.first_import_loads_everything
#print axioms C16.final_state_unique
#print axioms C16.no_import_effects
#print axioms C16.no_import_time_local_imports
