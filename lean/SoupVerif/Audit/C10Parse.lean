import SoupVerif.Properties.C10Parse
open SoupVerif

/-! Helpers (`Refine/C10ParseBase.lean`) -/
#print axioms C10Parse.escape_nulToFFFD
#print axioms C10Parse.escForms_render
#print axioms C10Parse.escForms_value
#print axioms C10Parse.escForms_ok
#print axioms C10Parse.applyItems_simples
#print axioms C10Parse.partsOk_leaf
#print axioms C10Parse.partsOk_compileParts
#print axioms C10Parse.compileParts_leaf_flags
#print axioms C10Parse.simplesOf_id_ne_nil

/-! 1. The bridge -/
#print axioms C10Parse.escape_forms
#print axioms C10Parse.escForms_ok_iff
#print axioms C10Parse.escape_noNul

/-! 2. Parser and matcher on the text -/
#print axioms C10Parse.compound_simple_text
#print axioms C10Parse.item_in_compound_text
#print axioms C10Parse.escAttr_ok_iff
#print axioms C10Parse.guard_noflag
#print axioms C10Parse.guard_flag
#print axioms C10Parse.escape_id_text
#print axioms C10Parse.escape_class_text
#print axioms C10Parse.escape_attr_text
#print axioms C10Parse.hash_escape_text
#print axioms C10Parse.dot_escape_text
#print axioms C10Parse.attr_eq_escape_text
#print axioms C10Parse.select_hash_escape
#print axioms C10Parse.select_dot_escape
#print axioms C10Parse.select_attr_eq_escape
#print axioms C10Parse.mem_selectSpec_one
#print axioms C10Parse.mem_select_hash_escape
#print axioms C10Parse.mem_select_dot_escape
#print axioms C10Parse.mem_select_attr_eq_escape
#print axioms C10Parse.compile_item_general
#print axioms C10Parse.compile_escape_id_general
#print axioms C10Parse.compile_escape_class_general
#print axioms C10Parse.compile_escape_value_general

/-! 3. The excluded point -/
#print axioms C10Parse.escape_empty_not_ident
#print axioms C10Parse.matchText_hash_empty
