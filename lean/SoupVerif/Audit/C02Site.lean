/-
  Audit of C02Site: axioms of every theorem, and non-vacuity on a concrete document whose expected
  results were produced by the real soupsieve (html.parser):

    <div><p></p>text<span></span><p class="x"></p><!--c--><p></p><span class="x"></span></div>

    :nth-child(2n+1)            [[0],[0,0],[0,3],[0,6]]
    :nth-last-child(-n+2)       [[0],[0,5],[0,6]]
    :nth-of-type(2)             [[0,3],[0,6]]
    :nth-last-of-type(n+2)      [[0,0],[0,2],[0,3]]
    :nth-child(2 of .x)         [[0,6]]
    :nth-last-child(-2n+3 of p) [[0,0],[0,5]]
    :first-of-type              [[0],[0,0],[0,2]]
-/
import SoupVerif.Properties.C02Site
import SoupVerif.Model.Api
open SoupVerif
#print axioms C02Site.matchNth_eq
#print axioms C02Site.sibs_split
#print axioms C02Site.walk_split
#print axioms C02Site.before_not_same
#print axioms C02Site.after_not_same
#print axioms C02Site.occurs_once
#print axioms C02Site.occurs_once_in_parent
#print axioms C02Site.counted_self
#print axioms C02Site.wellformed
#print axioms C02Site.wellformed'
#print axioms C02Site.position_eq
#print axioms C02Site.position_eq_posOf
#print axioms C02Site.matchNth_iff
#print axioms C02Site.preCheck_iff
#print axioms C02Site.matchNth_iff_plain
#print axioms C02Site.matchNth_const_iff
#print axioms C02Site.matchNth_eq_nthSatB
#print axioms C02Site.matchNths_iff
#print axioms C02Site.position_bounds

namespace SoupVerif.AuditC02Site
open C02Site

def E0 : Env := { env := asciiEnv, bidi := fun _ => 0, wildStrip := id }
def mkAttr (kv : String × String) : Attr := { key := kv.1.toStr, kns := none, kname := none, val := .str kv.2.toStr }
def el (n : String) (attrs : List (String × String)) (kids : List Node) : Node :=
  .elem { isDoc := false, name := n.toStr, pfx := none, ns := none, attrs := attrs.map mkAttr } kids
def docN (kids : List Node) : Node :=
  .elem { isDoc := true, name := "[document]".toStr, pfx := none, ns := none, attrs := [] } kids

def tree : Node := docN [el "div" [] [el "p" [] [], .str .text "text".toStr, el "span" [] [],
  el "p" [("class", "x")] [], .str .comment "c".toStr, el "p" [] [], el "span" [("class", "x")] []]]
def top : Loc := ⟨tree, []⟩
def ctx : Ctx := mkCtx E0 false [] top
def none' : SelList := .mk [] false false
def clsX : SelList := .mk [.mk none [] ["x".toStr] [] [] [] none' .none [] [] 0] false false
def tagP : SelList := .mk [.mk (some ⟨"p".toStr, none⟩) [] [] [] [] [] none' .none [] [] 0] false false

/-- Every element of the document for which the nth record matches. -/
def run (n : NthSel) : List (List Nat) :=
  ((ctx.tagDescendants top false).filter fun l =>
    match l.elem? with
    | some e => matchNth ctx l e n
    | none => false).map Loc.pos

/-- The same through the right-hand side of `matchNth_iff` / `matchNth_const_iff`. -/
def runSpec (a : Int) (var : Bool) (b : Int) (ofType last : Bool) (sels : SelList) : List (List Nat) :=
  ((ctx.tagDescendants top false).filter fun l =>
    match l.elem? with
    | some e => preCheck ctx l e sels &&
        (if var then NthSpec.nthSatB a b (position ctx l e ofType last sels)
         else decide (a = (position ctx l e ofType last sels : Int)))
    | none => false).map Loc.pos

-- the values of the real soupsieve (compiled evaluation of the model: checks, not theorems)
#guard run (.mk 2 true 1 false false none') == [[0],[0,0],[0,3],[0,6]]
#guard run (.mk (-1) true 2 false true none') == [[0],[0,5],[0,6]]
#guard run (.mk 0 true 2 true false none') == [[0,3],[0,6]]
#guard run (.mk 1 true 2 true true none') == [[0,0],[0,2],[0,3]]
#guard run (.mk 0 true 2 false false clsX) == [[0,6]]
#guard run (.mk (-2) true 3 false true tagP) == [[0,0],[0,5]]
#guard run (.mk 1 false 0 true false none') == [[0],[0,0],[0,2]]
-- and of the right-hand sides of the theorems
#guard runSpec 2 true 1 false false none' == [[0],[0,0],[0,3],[0,6]]
#guard runSpec (-1) true 2 false true none' == [[0],[0,5],[0,6]]
#guard runSpec 0 true 2 true false none' == [[0,3],[0,6]]
#guard runSpec 1 true 2 true true none' == [[0,0],[0,2],[0,3]]
#guard runSpec 0 true 2 false false clsX == [[0,6]]
#guard runSpec (-2) true 3 false true tagP == [[0,0],[0,5]]
#guard runSpec 1 false 0 true false none' == [[0],[0,0],[0,2]]
-- positions of the children of the div: among all element siblings, from the end, among `p`, among `.x`
#guard ((ctx.tagDescendants top false).map fun l => match l.elem? with
    | some e => (position ctx l e false false none', position ctx l e false true none',
                 position ctx l e true false none', position ctx l e false false clsX)
    | none => (0, 0, 0, 0)) ==
  [(1,1,1,1), (1,5,1,1), (2,4,1,1), (3,3,2,1), (4,2,3,2), (5,1,2,2)]
-- the element occurs once in the walk, in both directions; the parentless document too
#guard (ctx.tagDescendants top false).all fun l =>
  ((walk l false).filter (fun ch => ch.same l)).length == 1 && ((walk l true).filter (fun ch => ch.same l)).length == 1
#guard ((walk top false).filter (fun ch => ch.same top)).length == 1

end SoupVerif.AuditC02Site
