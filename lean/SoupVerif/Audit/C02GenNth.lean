/-
  Audit of C02GenNth: axioms of the theorems that tie the integer bookkeeping of `CSSMatch.match_nth`, as TRANSLATED
  from the source (`Generated/PyNth.lean`, gen/gen_py_nth.py), to the hand-written three-loop model `Model/Nth.lean`;
  and the generated adjustment block run on concrete records (compiled evaluation: checks, not theorems).
-/
import SoupVerif.Properties.C02GenNthTerm
open SoupVerif

#print axioms PyWhile.whileBrk_mono
#print axioms C02GenNth.init_eq
#print axioms C02GenNth.loop1_sim
#print axioms C02GenNth.loop2_sim
#print axioms C02GenNth.adjustBlock_eq
#print axioms C02GenNth.adjustBlock_nonvar
#print axioms C02GenNth.mainCond_eq
#print axioms C02GenNth.advance_eq
#print axioms C02GenNth.outer_step
#print axioms C02GenNth.whileBrk_inv
#print axioms C02GenNth.loop1_terminates
#print axioms C02GenNth.loop1_inv
#print axioms C02GenNth.loop2_terminates
#print axioms C02GenNth.adjustBlock_model_fuel
#print axioms C02GenNth.matchOne_gen
#print axioms C02GenNth.gen_matchOne_iff

namespace AuditC02GenNth
open Gen.PyNth

-- (count, count_incr, idx, last_idx) after the adjustment, for `an+b` in a parent of 5 nodes (last_index = 4)
#guard adjustBlock 20 20 4 2 1 true 0 1 1 1 == some (0, 1, 1, 1)          -- 2n+1
#guard adjustBlock 20 20 4 2 (-5) true 0 1 (-5) (-5) == some (3, 1, 1, 1)   -- 2n-5: first in-range value is at n = 3
#guard adjustBlock 20 20 4 (-1) 3 true 0 1 3 3 == some (2, -1, 1, 1)       -- -n+3: counts down from the lowest in-range value
#guard adjustBlock 20 20 4 (-2) 9 true 0 1 9 9 == some (4, -1, 1, 1)       -- -2n+9
#guard adjustBlock 20 20 4 0 7 true 0 1 7 7 == some (1, 1, 7, 7)           -- 0n+7: out of bounds, not improving
#guard adjustBlock 0 0 4 2 (-5) true 0 1 (-5) (-5) == none                 -- no fuel
#guard init true 2 1 true 5 == (true, 4, 4, 0, 2, 1, true, 0, 1, -1, 1, 1)
#guard init false 3 0 false 5 == (false, 4, 0, 0, 3, 0, false, 0, 1, 1, 3, 3)

end AuditC02GenNth
