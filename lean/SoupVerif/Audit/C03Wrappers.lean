import SoupVerif.Properties.C03Wrappers
open SoupVerif
#print axioms C03Wrappers.wrappers_names
#print axioms C03Wrappers.wrappers_forward_all
#print axioms C03Wrappers.wrappers_shape
#print axioms C03Wrappers.wrappers_signature
#print axioms C03Wrappers.wrappers_params_partition
#print axioms C03Wrappers.compile_signature
#print axioms C03Wrappers.no_other_callers
#print axioms C03Wrappers.delegation_names
#print axioms C03Wrappers.delegation_targets
#print axioms C03Wrappers.delegation_ctor_args
#print axioms C03Wrappers.delegation_params
