/-
  Audit of C05GenFrame: the frame of `match_selectors` regenerated from the source.
-/
import SoupVerif.Properties.C05GenFrame
open SoupVerif

#print axioms C01GenMatch.gen_frame_eq_matchList
#print axioms C05GenFrame.gen_frame_restores
#print axioms C05GenFrame.gen_frame_restore_placement
#print axioms C05GenFrame.gen_html_ctx
#print axioms C05GenFrame.gen_plain_ctx
#print axioms C05GenFrame.gen_ctx_restored
#print axioms C05GenFrame.gen_empty_list
#print axioms C05GenFrame.gen_html_only_never_in_xml
#print axioms C05GenFrame.gen_list_union
#print axioms C05GenFrame.gen_not_compl
#print axioms C05GenFrame.gen_list_perm
#print axioms C05GenFrame.gen_null_only
