/-
  Audit of C03: axioms of every theorem, and non-vacuity examples on a concrete tree.
-/
import SoupVerif.Properties.C03
open SoupVerif

#print axioms C03.select_all
#print axioms C03.select_limit
#print axioms C03.select_limit_prefix
#print axioms C03.select_limit_length
#print axioms C03.selectOne_head
#print axioms C03.selectOne_none_iff
#print axioms C03.select_elements_only
#print axioms C03.select_mem_iff
#print axioms C03.select_sublist_descendants
#print axioms C03.select_candidates
#print axioms C03.desc_pos_prefix
#print axioms C03.self_not_descendant
#print axioms C03.descendants_preorder
#print axioms C03.descendants_pos_nodup
#print axioms C03.children_pos
#print axioms C03.select_preorder
#print axioms C03.select_nodup
#print axioms C03.select_strictly_below
#print axioms C03.select_never_self
#print axioms C03.closest_spec
#print axioms C03.closest_never_doc
#print axioms C03.closest_matches
#print axioms C03.closest_ancestor_or_self
#print axioms C03.closest_nearest
#print axioms C03.closest_none_iff
#print axioms C03.closest_self
#print axioms C03.filterTag_spec
#print axioms C03.filterTag_children_only
#print axioms C03.filterTag_sublist
#print axioms C03.filterTag_eq
#print axioms C03.filterTag_pos
#print axioms C03.filterIter_spec
#print axioms C03.filterIter_sublist
#print axioms C03.filterIter_mem
#print axioms C03.filterIter_drops_strings
#print axioms C03.scope_is_target
#print axioms C03.scope_is_target'
#print axioms C03.scope_of_document
#print axioms C03.scope_of_detached
#print axioms C03.matchScope_iff
#print axioms C03.mkCtx_fields
#print axioms Loc.descendants_below
#print axioms Loc.descendants_unfold
#print axioms Loc.mem_descendants_iff
#print axioms Loc.children_pos
#print axioms Loc.ancestors_pos
#print axioms Loc.same_top_iff

namespace SoupVerif.AuditC03

def E0 : Env := { env := asciiEnv, bidi := fun _ => 0, wildStrip := id }
def el (n : String) : Elem := { isDoc := false, name := n.toStr, pfx := none, ns := none, attrs := [] }
def docE : Elem := { isDoc := true, name := "[document]".toStr, pfx := none, ns := none, attrs := [] }
/-- `<!--c--><div><p/>t<span><p/></span></div>` under a `BeautifulSoup` object. -/
def tree : Node :=
  .elem docE [.str .comment "c".toStr,
    .elem (el "div") [.elem (el "p") [], .str .text "t".toStr, .elem (el "span") [.elem (el "p") []]]]
def top : Loc := ⟨tree, []⟩
/-- The node at a position. -/
def node (p : List Nat) : Loc := ((Doc.locAt? ⟨false, tree⟩ p).getD top)
def tagSel (n : String) : Sel := .mk (some ⟨n.toStr, none⟩) [] [] [] [] [] .empty .none [] [] 0
def star : Sel := .mk none [] [] [] [] [] .empty .none [] [] 0
def scopeSel : Sel := .mk none [] [] [] [] [] .empty .none [] [] SEL_SCOPE
def one (s : Sel) : SelList := .mk [s] false false
def neg (s : Sel) : SelList := .mk [s] true false

example : (node [1,2,0]).pos = [1,2,0] := by decide
-- the walk: document order, strings included; `select` candidates: elements only
example : ((top.descendants (fun _ => true)).map Loc.pos) = [[0],[1],[1,0],[1,1],[1,2],[1,2,0]] := by decide
example : ((node [1]).descendants (fun _ => true)).map Loc.pos = [[1,0],[1,1],[1,2],[1,2,0]] := by decide
example : lexLt [1] [1,0] ∧ lexLt [1,0] [1,1] ∧ lexLt [1,1] [1,2] ∧ ¬ lexLt [1,2,0] [1,2] := by decide
-- select / limit / select_one
example : (select E0 false [] (one star) top 0).map Loc.pos = [[1],[1,0],[1,2],[1,2,0]] := by decide
example : (select E0 false [] (one star) top (-3)).map Loc.pos = [[1],[1,0],[1,2],[1,2,0]] := by decide
example : (select E0 false [] (one star) top 2).map Loc.pos = [[1],[1,0]] := by decide
example : (select E0 false [] (one star) top 9).map Loc.pos = [[1],[1,0],[1,2],[1,2,0]] := by decide
example : (selectOne E0 false [] (one (tagSel "p")) top).map Loc.pos = some [1,0] := by decide
example : (selectOne E0 false [] (one (tagSel "b")) top).map Loc.pos = none := by decide
-- `tag` itself is never selected, even when it matches
example : matchTagApi E0 false [] (one star) (node [1]) = true := by decide
example : (select E0 false [] (one star) (node [1]) 0).map Loc.pos = [[1,0],[1,2],[1,2,0]] := by decide
-- closest: nearest ancestor-or-self; the document object is on the chain but never returned
example : ((node [1,2,0]).ancestors.map Loc.pos) = [[1,2],[1],[]] := by decide
example : (closest E0 false [] (one star) (node [1,2,0])).map Loc.pos = some [1,2,0] := by decide
example : (closest E0 false [] (neg (tagSel "p")) (node [1,2,0])).map Loc.pos = some [1,2] := by decide
example : (closest E0 false [] (one (tagSel "div")) (node [1,2,0])).map Loc.pos = some [1] := by decide
example : (closest E0 false [] (neg (tagSel "div")) (node [1])).map Loc.pos = none := by decide
example : (closest E0 false [] (one star) top).map Loc.pos = none := by decide
-- filter(tag): matching element children only (the grandchild `p` at [1,2,0] is not returned)
example : (filterTag E0 false [] (one (tagSel "p")) (node [1])).map Loc.pos = [[1,0]] := by decide
example : (filterTag E0 false [] (one star) (node [1])).map Loc.pos = [[1,0],[1,2]] := by decide
-- filter(iterable): order kept, strings dropped
example : (filterIter E0 false [] (one star) [node [1,2], node [1,1], node [1,0], node [0]]).map Loc.pos
    = [[1,2],[1,0]] := by decide
-- :scope
example : ((mkCtx E0 false [] top).scope.map Loc.pos) = some [1] := by decide
example : ((mkCtx E0 false [] (node [1,2])).scope.map Loc.pos) = some [1,2] := by decide
example : (select E0 false [] (one scopeSel) top 0).map Loc.pos = [[1]] := by decide
example : (select E0 false [] (one scopeSel) (node [1]) 0).map Loc.pos = [] := by decide
example : matchTagApi E0 false [] (one scopeSel) (node [1]) = true := by decide
example : (closest E0 false [] (one scopeSel) (node [1,2])).map Loc.pos = some [1,2] := by decide

end SoupVerif.AuditC03
