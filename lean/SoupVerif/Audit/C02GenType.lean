/-
  Audit of C02GenType: `CSSMatch.match_nth_tag_type` regenerated from the source (`Generated/PyAttrs.lean`)
  = the hand-written model `sameType`.
-/
import SoupVerif.Properties.C02GenType
open SoupVerif

#print axioms C02GenType.gen_match_nth_tag_type_eq
#print axioms C02GenType.gen_match_nth_tag_type_refl
#print axioms C02GenType.gen_match_nth_tag_type_comm
