import SoupVerif.Properties.C20
open SoupVerif
#print axioms C20.ctx_line
#print axioms C20.breaksBefore_rec
#print axioms C20.ctx_line_rec
#print axioms C20.ctx_col
#print axioms C20.ctx_lineStart_le
#print axioms C20.ctx_position
#print axioms C20.ctx_col_pos
#print axioms C20.ctx_line_pos
#print axioms C20.ctx_line_le
#print axioms C20.ctx_crlf
#print axioms C20.ctx_text
#print axioms C20.ctx_single
#print axioms C20.ctx_caret
#print axioms C20.ctx_marked_exists
#print axioms C20.ctx_end_offset
#print axioms C20.pretty_tokens_advance
#print axioms C20.pretty_measure_decreases
#print axioms C20.pretty_terminates
#print axioms C20.pretty_piece_ws
#print axioms C20.pretty_roundtrip
#print axioms C20.pretty_example
#print axioms Pretty.prettyLoop
#print axioms Context.getPatternContext
