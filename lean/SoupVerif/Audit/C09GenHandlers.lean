/-
  Audit of C09GenHandlers: the token handlers `parse_tag_pattern`, `parse_class_id`, `parse_pseudo_dir`, `parse_pseudo_lang`,
  `parse_pseudo_contains` regenerated from the source (`Generated/PyHandlers.lean`) = the hand-written model's handlers
  (`ParseDisp.runCall`, `Parser.parseValues`).
-/
import SoupVerif.Properties.C09GenHandlers
open SoupVerif

#print axioms C09GenHandlers.slice_init
#print axioms C09GenHandlers.slice_tail
#print axioms C09GenHandlers.slice_inner
#print axioms C09GenHandlers.gen_tag
#print axioms C09GenHandlers.gen_classId
#print axioms C09GenHandlers.gen_dir
#print axioms C09GenHandlers.gen_langStep
#print axioms C09GenHandlers.gen_containsStep
#print axioms C09GenHandlers.go_eq
#print axioms C09GenHandlers.parseValues_gen
#print axioms C09GenHandlers.forAppend_ok
#print axioms C09GenHandlers.forAppend_lang
#print axioms C09GenHandlers.forAppend_contains
#print axioms C09GenHandlers.gen_lang
#print axioms C09GenHandlers.gen_contains
#print axioms C09GenHandlers.runCall_tag_gen
#print axioms C09GenHandlers.runCall_classId_gen
#print axioms C09GenHandlers.runCall_dir_gen
#print axioms C09GenHandlers.runCall_lang_gen
#print axioms C09GenHandlers.runCall_contains_gen
#print axioms C09GenHandlers.genRun_tag_isSome
#print axioms C09GenHandlers.genRun_dir_isSome
#print axioms C09GenHandlers.step_ok
#print axioms C09GenHandlers.finditerOf_gen
#print axioms C09GenHandlers.handlers_list
#print axioms C09GenHandlers.gen_dir_flag
#print axioms C09GenHandlers.gen_step_value
#print axioms C09GenHandlers.gen_step_split
