/-
  Audit of C05: axioms of every theorem, and non-vacuity examples on a concrete tree.
-/
import SoupVerif.Properties.C05
open SoupVerif

#print axioms C05.any_append
#print axioms C05.list_union
#print axioms C05.null_never
#print axioms C05.any_perm
#print axioms C05.list_perm
#print axioms C05.null_alternative
#print axioms C05.empty_list
#print axioms C05.null_only
#print axioms C05.not_compl_html
#print axioms C05.html_only_never_in_xml
#print axioms C05.not_compl_general
#print axioms C05.not_list_compl
#print axioms C05.not_list_inter
#print axioms C05.not_not
#print axioms C05.monotone
#print axioms C05.monotone_right
#print axioms C05.antitone_not
#print axioms C05.subs_append
#print axioms C05.is_conj
#print axioms C05.subs_conj
#print axioms C05.subs_perm
#print axioms C05.matchList_plain_ctx
#print axioms C05.matchList_html_ctx
#print axioms C05.ctx_restored
#print axioms C05.htmlOnly_idem
#print axioms C05.matchEl_union
#print axioms C05.select_union_merge
#print axioms C05.select_union
#print axioms C05.select_monotone
#print axioms C05.select_not_compl
#print axioms matchAny_eq_any
#print axioms matchSubs_eq_all
#print axioms matchSel_mk_subs
#print axioms subs_guard
#print axioms matchList_pos
#print axioms matchList_neg

namespace SoupVerif.AuditC05

def E0 : Env := { env := asciiEnv, bidi := fun _ => 0, wildStrip := id }
def el (n : String) : Elem := { isDoc := false, name := n.toStr, pfx := none, ns := none, attrs := [] }
def docE : Elem := { isDoc := true, name := "[document]".toStr, pfx := none, ns := none, attrs := [] }
/-- `<div><p/>t<span><p/></span></div>` under a `BeautifulSoup` object. -/
def tree : Node :=
  .elem docE [.elem (el "div") [.elem (el "p") [], .str .text "t".toStr, .elem (el "span") [.elem (el "p") []]]]
def top : Loc := ⟨tree, []⟩
/-- Type selector `n`. -/
def tagSel (n : String) : Sel := .mk (some ⟨n.toStr, none⟩) [] [] [] [] [] .empty .none [] [] 0
/-- `*` followed by the given pseudo-class sub-lists (`*:is(..):not(..)`). -/
def withSubs (subs : List SelList) : Sel := .mk none [] [] [] [] subs .empty .none [] [] 0

def sel (A : List Sel) (n h : Bool) : SelList := .mk A n h
def run (isXml : Bool) (s : SelList) : List (List Nat) := (select E0 isXml [] s top 0).map Loc.pos

-- `p`, `span`, and `p, span` = the document-order merge (hypotheses of `select_union` are inhabited,
-- both sides non-empty and different).
example : run false (sel [tagSel "p"] false false) = [[0,0],[0,2,0]] := by decide
example : run false (sel [tagSel "span"] false false) = [[0,2]] := by decide
example : run false (sel ([tagSel "p"] ++ [tagSel "span"]) false false) = [[0,0],[0,2],[0,2,0]] := by decide
-- order of the alternatives is unobservable
example : run false (sel ([tagSel "span"] ++ [tagSel "p"]) false false) = [[0,0],[0,2],[0,2,0]] := by decide
-- a `SelectorNull` alternative changes nothing
example : run false (sel (.null :: [tagSel "p"]) false false) = [[0,0],[0,2,0]] := by decide
-- `:not(p)` as a list: the complement among the element descendants
example : run false (sel [tagSel "p"] true false) = [[0],[0,2]] := by decide
-- `*:not(p)` through the `subs` field, and `*:is(p, span)`, `*:is(p, span):not(span)`
example : run false (sel [withSubs [sel [tagSel "p"] true false]] false false) = [[0],[0,2]] := by decide
example : run false (sel [withSubs [sel [tagSel "p", tagSel "span"] false false]] false false)
    = [[0,0],[0,2],[0,2,0]] := by decide
example : run false (sel [withSubs ([sel [tagSel "p", tagSel "span"] false false] ++ [sel [tagSel "span"] true false])]
    false false) = [[0,0],[0,2,0]] := by decide
-- `:not(:not(p))`
example : run false (sel [withSubs [sel [tagSel "p"] true false]] true false) = [[0,0],[0,2,0]] := by decide
-- the empty list matches nothing, negated or not (Python: `match = False` before the loop), whereas
-- a lone `SelectorNull` negated matches everything: `A ≠ []` in `not_compl_html` is necessary
example (c : Ctx) (l : Loc) (e : Elem) : matchList c l e (.mk [] true false) = false := C05.empty_list c l e true false
example (c : Ctx) (l : Loc) (e : Elem) : matchList c l e (.mk [] true false) = false := by simp [matchList]
example : run false (sel [] false false) = [] := by decide
example : run false (sel [] true false) = [] := by decide
example : run false (sel [.null] false false) = [] := by decide
example : run false (sel [.null] true false) = [[0],[0,0],[0,2],[0,2,0]] := by decide
-- the guard `(!h || c.isHtml)` of `not_compl_html` holds for an HTML-only list in an HTML document
example : (mkCtx E0 false [] top).isHtml = true := by decide
example : run false (sel [tagSel "p"] false true) = [[0,0],[0,2,0]] := by decide
example : run false (sel [tagSel "p"] true true) = [[0],[0,2]] := by decide
-- and fails in an XML document without the XHTML namespace: *both* the list and its negation are
-- empty there (`html_only_never_in_xml`), so `:not` is not a complement for such lists
example : (mkCtx E0 true [] top).isHtml = false := by decide
example : run true (sel [tagSel "p"] false true) = [] := by decide
example : run true (sel [tagSel "p"] true true) = [] := by decide
-- whereas a plain list works there
example : run true (sel [tagSel "p"] false false) = [[0,0],[0,2,0]] := by decide

end SoupVerif.AuditC05
