/-
  Audit of C06GenPseudoCustom: `CSSParser.parse_pseudo_class_custom` regenerated from the source as a program
  (`Generated/PyPseudoCustom.lean`) = the hand-written model's handler (`ParseDisp.runCall`).
-/
import SoupVerif.Properties.C06GenPseudoCustom
open SoupVerif

#print axioms C06GenPseudoCustom.runCall_pseudo_custom_gen
#print axioms C06GenPseudoCustom.gen_name_unescaped_then_lowered
#print axioms C06GenPseudoCustom.gen_undefined_at_end
#print axioms C06GenPseudoCustom.gen_erased_before_subcompile
#print axioms C06GenPseudoCustom.gen_compiled_reused
