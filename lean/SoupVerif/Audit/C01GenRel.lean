/-
  Audit of C01GenRel: the relation walks (`match_relations`, `match_past_relations`, `match_future_relations`,
  `match_future_child`) and `match_subselectors` regenerated from the source (`Generated/PyRelations.lean`)
  = the hand-written model `relationWalk` / `matchSubs`.
-/
import SoupVerif.Properties.C01GenRel
open SoupVerif

#print axioms C01GenRel.whileLoop_eq
#print axioms C01GenRel.forBreakLoop_eq
#print axioms C01GenRel.gen_relationWalk_eq
#print axioms C01GenRel.gen_branchOf_total
#print axioms C01GenRel.gen_branches_keys
#print axioms C01GenRel.gen_subsLoop_eq
#print axioms C01GenRel.gen_matchSubselectors_eq
#print axioms C01GenRel.gen_matchSubs_eq
#print axioms C01GenRel.gen_descendant_stops_at_document
#print axioms C01GenRel.gen_has_descendant_any
#print axioms C01GenRel.gen_null_relation
