import SoupVerif.Properties.C20Rx
open SoupVerif
#print axioms C20Rx.getPatternContextRx_eq
#print axioms C20Rx.ctx_line_rx
#print axioms C20Rx.ctx_col_rx
#print axioms C20Rx.ctx_text_rx
#print axioms C20Rx.pretty_dispatch_rx
#print axioms Refine.Context.splitLines_eq_withLast_finditer
#print axioms Refine.Context.finditer_lineSplit
#print axioms Refine.Context.splitLines_last
#print axioms PrettyRefine.tokens_refine
#print axioms PrettyRefine.firstMatch_refine
#print axioms PrettyRefine.firstMatch_refine_py
#print axioms PrettyRefine.sep_group1
#print axioms PrettyRefine.dsep_group1
#print axioms PrettyRefine.agree_py
#print axioms PrettyRefine.agree_ascii
