import SoupVerif.Properties.C09Compile2
open SoupVerif
#print axioms C09Compile2.compile_eq_denote2
#print axioms C09Compile2.compile_spelling_invariant_partial2
#print axioms C09Compile2.compile_eq_denote2_plain
#print axioms C09Compile2.compile_spelling_invariant_partial2_plain
#print axioms C09Compile2.compile_eq_denote2_table
#print axioms C09Compile2.processCustom_table
#print axioms C09Compile2.CuInv_init
#print axioms C09Compile2.run_top
#print axioms C09Compile2.run_list
#print axioms C09Compile2.run_rest
#print axioms C09Compile2.run_compound
#print axioms C09Compile2.run_item
#print axioms C09Compile2.exampleNsA_ok
#print axioms C09Compile2.exampleValA_ok
#print axioms C09Compile2.exampleFgA_ok
#print axioms C09Compile2.exampleHasA_ok
#print axioms C09Compile2.exampleCuA_ok
#print axioms C09Compile2.customA_ok
