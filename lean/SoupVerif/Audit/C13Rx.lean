import SoupVerif.Properties.C13Rx
open SoupVerif
#print axioms C13Rx.wildStripRx_eq_text
#print axioms C13Rx.wildStripRx_subtags
#print axioms C13Rx.extendedFilter_rx_eq_c13
#print axioms C13Rx.filter_rx_case_insensitive
#print axioms RefineLang.subAll_tail
#print axioms RefineLang.subAll_strip
#print axioms RefineLang.wildStripRx_eq_text
