/-
  Audit of C03Gen: the query entry points regenerated from the source (gen/gen_py_api.py).
-/
import SoupVerif.Properties.C03Gen
open SoupVerif

#print axioms C03Gen.gen_select_eq
#print axioms C03Gen.gen_select_all
#print axioms C03Gen.gen_select_limit
#print axioms C03Gen.gen_select_eq_selectIn
#print axioms C03Gen.gen_select_iter
#print axioms C03Gen.gen_matchEl_eq
#print axioms C03Gen.gen_match_conjuncts
#print axioms C03Gen.genMatch_eq
#print axioms C03Gen.gen_match_refuses_doc
#print axioms C03Gen.gen_closest_eq
#print axioms C03Gen.gen_closest_eq_model
#print axioms C03Gen.gen_closest_spec
#print axioms C03Gen.gen_filter_eq
#print axioms C03Gen.gen_filter_eq_filterTag
#print axioms C03Gen.gen_selectOne_eq
#print axioms C03Gen.gen_sieveSelect_eq
#print axioms C03Gen.gen_sieveIselect_eq
#print axioms C03Gen.gen_selectOne_head
#print axioms C03Gen.gen_sieveSelect_eq_model
#print axioms C03Gen.gen_selectOne_eq_model
#print axioms C03Gen.gen_sieveFilter_eq_model
