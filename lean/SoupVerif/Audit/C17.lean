/-
  Audit of C17: axioms of every theorem; non-vacuity on a concrete HTML document whose expected
  results were produced by the real soupsieve (`/tmp`-script, html.parser) and are re-computed here
  by the model with `decide`; and the counterexamples behind each hypothesis / recorded deviation.
-/
import SoupVerif.Properties.C17
open SoupVerif

#print axioms C17.ctl8_eq
#print axioms C17.ctl5_eq
#print axioms C17.ctl5_imp_ctl8
#print axioms C17.required_eq
#print axioms C17.optional_eq
#print axioms C17.required_optional_disjoint
#print axioms C17.required_optional_partition
#print axioms C17.required_xor_optional
#print axioms C17.disabled_eq
#print axioms C17.disabled_imp_control
#print axioms C17.enabled_eq
#print axioms C17.enabled_disabled_disjoint
#print axioms C17.enabled_or_disabled_iff_control
#print axioms C17.enabled_xor_disabled
#print axioms C17.typeIs_ascii
#print axioms C17.typeIs_ascii_unique
#print axioms C17.readwrite_readonly_partition
#print axioms C17.readwrite_false_of_not_html
#print axioms C17.readonly_false_of_not_html
#print axioms C17.readwrite_xor_readonly
#print axioms C17.readwrite_or_readonly_iff
#print axioms C17.link_eq_anylink
#print axioms C17.link_appends
#print axioms C17.link_builtin
#print axioms C17.link_eq
#print axioms C17.default_eq
#print axioms C17.checked_sub_default
#print axioms C17.checked_eq
#print axioms C17.htmlOnly_rangeState
#print axioms C17.matchRangeE_eq
#print axioms C17.matchRange_in
#print axioms C17.matchRange_out
#print axioms C17.matchRange_compl
#print axioms C17.matchRange_none
#print axioms C17.rangeCompound_eq
#print axioms C17.inrange_eq
#print axioms C17.outofrange_eq
#print axioms C17.inrange_outofrange_disjoint
#print axioms C17.inrange_or_outofrange_iff
#print axioms C17.rangeState_isSome_iff
#print axioms C17.range_same_attribute
#print axioms C17.range_type_consistent
#print axioms C17.range_type_some
#print axioms C17.placeholder_def
#print axioms C17.inFormRel_eq
#print axioms C17.defaultForm_isSome_of_rel
#print axioms C17.default_def
#print axioms C17.any_takeWhile_of_last
#print axioms C17.inFormRel_of_matchDefault
#print axioms C17.default_def_wellformed
#print axioms C17.scan_aux
#print axioms C17.firstSubmit_cons
#print axioms C17.firstSubmit_guarded
#print axioms C17.scanIsSubmit_eq_typeIs
#print axioms C17.indeterminate_def
#print axioms C17.matchIndeterminate_def
-- the scan of `match_indeterminate` in the guard's vocabulary (fix 01d00ae: the `type` value is compared as `[type=radio]` compares it)
#print axioms C17.radioCheckedScan_step
#print axioms C17.scanStep_eq
#print axioms C17.radioCheckedScan_eq
#print axioms C17.mav_bare_all
#print axioms C17.scanKey_eq_nameEq
#print axioms C17.typeIs_radio_eq_any
#print axioms C17.hasAttr_eq_any_key
#print axioms C17.valIsRadio_eq_guard
#print axioms C17.scanRadioAttr_imp_guard
#print axioms C17.scanRadioAttr_eq_guard
#print axioms C17.scanRadio_imp_typeIs
#print axioms C17.scanRadio_eq_typeIs
#print axioms C17.checkedRadio_is_guard_radio
#print axioms C17.radioCheckedScan_def
#print axioms C17.scanMember_guarded
#print axioms C17.scanMember_is_checked
#print axioms C17.disabledParent_eq
#print axioms C17.belowDisabledFieldsetNotLegend_eq
#print axioms C17.disabled_def
#print axioms C17.ancestorsCut_stops_at_iframe
#print axioms C17.iframe_local_flag
#print axioms C17.iframe_local_desc
#print axioms C17.iframe_local_child
#print axioms C17.parent_true_not_iframe
#print axioms C17.iframe_local_default
#print axioms C17.iframe_local_parentForm
#print axioms C17.iframe_local_indeterminate
#print axioms C17.iframe_local_dir
#print axioms C17.iframe_local_ancestors
#print axioms C17.iframe_local_descendants
#print axioms C17.placeholder_text_not_cut
#print axioms C17.matchDir_ltr
#print axioms C17.matchDir_rtl
#print axioms C17.dir_partition_chain
#print axioms C17.dir_partition
#print axioms C17.dir_explicit
#print axioms C17.dir_neither
#print axioms C17.dir_neither_foreign
#print axioms C17.ancestorsAux_elem
#print axioms C17.ancestors_elem
#print axioms C17.dirList_parser
#print axioms C17.htmlOnly_firstStrong
#print axioms C17.htmlOnly_findBidiKids
#print axioms C17.htmlOnly_dirStep
#print axioms C17.htmlOnly_matchDirWalk
#print axioms C17.htmlOnly_matchDir
#print axioms C17.dirList_ltr
#print axioms C17.dirList_rtl
#print axioms C17.dir_partition_selectors
#print axioms StateLaws.shape_LINK
#print axioms StateLaws.shape_CHECKED
#print axioms StateLaws.shape_DEFAULT
#print axioms StateLaws.shape_INDETERMINATE
#print axioms StateLaws.shape_DISABLED
#print axioms StateLaws.shape_ENABLED
#print axioms StateLaws.shape_REQUIRED
#print axioms StateLaws.shape_OPTIONAL
#print axioms StateLaws.shape_PLACEHOLDER_SHOWN
#print axioms StateLaws.shape_READ_WRITE
#print axioms StateLaws.shape_READ_ONLY
#print axioms StateLaws.shape_IN_RANGE
#print axioms StateLaws.shape_OUT_OF_RANGE
#print axioms StateLaws.litsEq_nil
#print axioms StateLaws.attrEq_empty
#print axioms StateLaws.attrEq_ascii_ic
#print axioms StateLaws.attrEq_exact
#print axioms StateLaws.attrVal_eq_head?
#print axioms StateLaws.hasAttr_eq_any
#print axioms StateLaws.attrEq_of_unique
#print axioms StateLaws.attrEmpty_of_unique
#print axioms StateLaws.htmlOnly_isHtml
#print axioms StateLaws.htmlOnly_isXml
#print axioms StateLaws.htmlOnly_env
#print axioms StateLaws.htmlOnly_iframeRestrict
#print axioms StateLaws.htmlOnly_idem
#print axioms StateLaws.htmlOnly_tagName
#print axioms StateLaws.htmlOnly_tagNs
#print axioms StateLaws.htmlOnly_isHtmlTag
#print axioms StateLaws.htmlOnly_locIsIframe
#print axioms StateLaws.htmlOnly_ancestorsCut
#print axioms StateLaws.htmlOnly_ancestors
#print axioms StateLaws.htmlOnly_parent
#print axioms StateLaws.htmlOnly_attrByName
#print axioms StateLaws.htmlOnly_isRoot
#print axioms StateLaws.htmlOnly_matchAttributeName
#print axioms StateLaws.htmlOnly_matchAttributeValues
#print axioms StateLaws.htmlOnly_attrVal
#print axioms StateLaws.htmlOnly_attrVals
#print axioms StateLaws.htmlOnly_hasAttr
#print axioms StateLaws.htmlOnly_attrEq
#print axioms StateLaws.htmlOnly_tagDescendants
#print axioms StateLaws.htmlOnly_firstSubmit
#print axioms StateLaws.htmlOnly_defaultForm
#print axioms StateLaws.htmlOnly_matchDefault
#print axioms StateLaws.htmlOnly_parentForm
#print axioms StateLaws.htmlOnly_matchIndeterminate
#print axioms StateLaws.htmlOnly_matchPlaceholderShown
#print axioms StateLaws.htmlOnly_matchRange
#print axioms StateLaws.matchList_htmlOnly
#print axioms StateLaws.matchList_htmlOnly'
#print axioms StateLaws.matchList_html
#print axioms StateLaws.matchNths_nil
#print axioms StateLaws.matchSel_cmpG
#print axioms StateLaws.relPart_E
#print axioms StateLaws.flagPart_zero
#print axioms StateLaws.flagPart_default
#print axioms StateLaws.flagPart_indeterminate
#print axioms StateLaws.flagPart_placeholder
#print axioms StateLaws.flagPart_in_range
#print axioms StateLaws.flagPart_out_of_range
#print axioms StateLaws.matchSel_cmp
#print axioms StateLaws.matchList_isL
#print axioms StateLaws.matchList_notL
#print axioms StateLaws.nsGet_htmlOnly_html
#print axioms StateLaws.nsGet_htmlOnly_nil
#print axioms StateLaws.matchTag_none
#print axioms StateLaws.matchTag_T
#print axioms StateLaws.matchNamespace_html
#print axioms StateLaws.matchTag_HT
#print axioms StateLaws.matchTag_HT_star
#print axioms StateLaws.matchAttributes_cons
#print axioms StateLaws.matchAttributes_cons2
#print axioms StateLaws.isMatch_tmpl
#print axioms StateLaws.matchAttributes_A
#print axioms StateLaws.matchAttributes_Aty
#print axioms StateLaws.matchAttributes_Aval
#print axioms StateLaws.matchAny_types
#print axioms StateLaws.typeIn_eq
#print axioms StateLaws.man_bare_all
#print axioms StateLaws.attrByName_eq_selector
#print axioms StateLaws.ancestorsCut_true
#print axioms StateLaws.ancestorsCut_false
#print axioms StateLaws.mem_takeWhile_sat
#print axioms StateLaws.ancestorsCut_stops_at_iframe
#print axioms StateLaws.ancestors_true
#print axioms StateLaws.ancestors_no_iframe
#print axioms StateLaws.relationWalk_desc
#print axioms StateLaws.relationWalk_child
#print axioms StateLaws.relPart_child
#print axioms StateLaws.relPart_desc
#print axioms StateLaws.nodeSizes_mem
#print axioms StateLaws.child_smaller
#print axioms StateLaws.descendants_via
#print axioms StateLaws.descendants_iframe_cut
#print axioms StateLaws.tagDescendants_iframe_cut
#print axioms StateLaws.dirVal_compl
#print axioms StateLaws.firstStrong_val
#print axioms StateLaws.findBidiKids_val
#print axioms StateLaws.findBidi_val
#print axioms StateLaws.dirOfAttr_val
#print axioms StateLaws.levelG_eq_interp
#print axioms StateLaws.matchDirWalk_cons
#print axioms StateLaws.matchDirWalk_nil
#print axioms StateLaws.matchDirWalk_html_head
#print axioms StateLaws.matchDirWalk_foreign_subject
#print axioms StateLaws.step_val
#print axioms StateLaws.dirStep_val
#print axioms StateLaws.step_root
#print axioms StateLaws.dirStep_root
#print axioms StateLaws.DirChain.root
#print axioms StateLaws.matchDirWalk_compl
#print axioms StateLaws.DirChain_of_root
#print axioms StateLaws.matchDirWalk_all_up

namespace SoupVerif.AuditC17
open StateLaws C17

def E0 : Env := { env := asciiEnv, bidi := fun _ => 0, wildStrip := id }
def mkAttr (kv : String × String) : Attr := { key := kv.1.toStr, kns := none, kname := none, val := .str kv.2.toStr }
def el (n : String) (attrs : List (String × String)) (kids : List Node) : Node :=
  .elem { isDoc := false, name := n.toStr, pfx := none, ns := none, attrs := attrs.map mkAttr } kids
def docN (kids : List Node) : Node :=
  .elem { isDoc := true, name := "[document]".toStr, pfx := none, ns := none, attrs := [] } kids

-- document: <html><body><form><input type="checkbox" checked=""><input type="radio" name="g"><input type="RADIO" name="g2" checked=""><input type="radio" name="g2"><input type="SUBMIT"><button type="submit"></button><input type="hidden" disabled=""><fieldset disabled=""><legend><input></legend><input><div><select><optgroup disabled=""><option selected=""></option></optgroup><option></option></select></div></fieldset><input placeholder="p"><textarea placeholder="p"></textarea><textarea required="" readonly="">x</textarea><input type="number" min="1" max="5" value="7"><input type="number" min="1" value="3"><input type="date" min="bogus" value="2020-01-01"><progress></progress><a href="x"></a><div contenteditable="TRUE"></div><iframe><html><body><form><input type="submit"><input type="radio" name="g"></form></body></html></iframe><input type="checkbox" indeterminate=""><select required=""></select></form><p dir="rtl"><span></span></p></body></html>
def tree : Node := docN [(el "html" [] [(el "body" [] [(el "form" [] [(el "input" [("type", "checkbox"), ("checked", "")] []), (el "input" [("type", "radio"), ("name", "g")] []), (el "input" [("type", "RADIO"), ("name", "g2"), ("checked", "")] []), (el "input" [("type", "radio"), ("name", "g2")] []), (el "input" [("type", "SUBMIT")] []), (el "button" [("type", "submit")] []), (el "input" [("type", "hidden"), ("disabled", "")] []), (el "fieldset" [("disabled", "")] [(el "legend" [] [(el "input" [] [])]), (el "input" [] []), (el "div" [] [(el "select" [] [(el "optgroup" [("disabled", "")] [(el "option" [("selected", "")] [])]), (el "option" [] [])])])]), (el "input" [("placeholder", "p")] []), (el "textarea" [("placeholder", "p")] []), (el "textarea" [("required", ""), ("readonly", "")] [(.str .text "x".toStr)]), (el "input" [("type", "number"), ("min", "1"), ("max", "5"), ("value", "7")] []), (el "input" [("type", "number"), ("min", "1"), ("value", "3")] []), (el "input" [("type", "date"), ("min", "bogus"), ("value", "2020-01-01")] []), (el "progress" [] []), (el "a" [("href", "x")] []), (el "div" [("contenteditable", "TRUE")] []), (el "iframe" [] [(el "html" [] [(el "body" [] [(el "form" [] [(el "input" [("type", "submit")] []), (el "input" [("type", "radio"), ("name", "g")] [])])])])]), (el "input" [("type", "checkbox"), ("indeterminate", "")] []), (el "select" [("required", "")] [])]), (el "p" [("dir", "rtl")] [(el "span" [] [])])])])]
def top : Loc := ⟨tree, []⟩
def ctx : Ctx := mkCtx E0 false [] top
def run (s : SelList) : List (List Nat) := (select E0 false [] s top 0).map Loc.pos
def at? (p : List Nat) : Option Loc := (Doc.mk false tree).locAt? p

example : ctx.isHtml = true := by decide

-- expected values: real soupsieve on the same document
example : run Gen.CSS_LINK = [[0,0,0,15]] := by decide +kernel  -- :link
example : run Gen.CSS_CHECKED = [[0,0,0,0],[0,0,0,2],[0,0,0,7,2,0,0,0]] := by decide +kernel  -- :checked
example : run Gen.CSS_DEFAULT = [[0,0,0,0],[0,0,0,2],[0,0,0,4],[0,0,0,7,2,0,0,0],[0,0,0,17,0,0,0,0]] := by decide +kernel  -- :default
example : run Gen.CSS_INDETERMINATE = [[0,0,0,1],[0,0,0,14],[0,0,0,17,0,0,0,1],[0,0,0,18]] := by decide +kernel  -- :indeterminate
example : run Gen.CSS_DISABLED = [[0,0,0,7],[0,0,0,7,1],[0,0,0,7,2,0],[0,0,0,7,2,0,0],[0,0,0,7,2,0,0,0]] := by decide +kernel  -- :disabled
example : run Gen.CSS_ENABLED = [[0,0,0,0],[0,0,0,1],[0,0,0,2],[0,0,0,3],[0,0,0,4],[0,0,0,5],[0,0,0,7,0,0],[0,0,0,7,2,0,1],[0,0,0,8],[0,0,0,9],[0,0,0,10],[0,0,0,11],[0,0,0,12],[0,0,0,13],[0,0,0,17,0,0,0,0],[0,0,0,17,0,0,0,1],[0,0,0,18],[0,0,0,19]] := by decide +kernel  -- :enabled
example : run Gen.CSS_REQUIRED = [[0,0,0,10],[0,0,0,19]] := by decide +kernel  -- :required
example : run Gen.CSS_OPTIONAL = [[0,0,0,0],[0,0,0,1],[0,0,0,2],[0,0,0,3],[0,0,0,4],[0,0,0,6],[0,0,0,7,0,0],[0,0,0,7,1],[0,0,0,7,2,0],[0,0,0,8],[0,0,0,9],[0,0,0,11],[0,0,0,12],[0,0,0,13],[0,0,0,17,0,0,0,0],[0,0,0,17,0,0,0,1],[0,0,0,18]] := by decide +kernel  -- :optional
example : run Gen.CSS_PLACEHOLDER_SHOWN = [[0,0,0,8],[0,0,0,9]] := by decide +kernel  -- :placeholder-shown
example : run Gen.CSS_READ_WRITE = [[0,0,0,7,0,0],[0,0,0,8],[0,0,0,9],[0,0,0,11],[0,0,0,12],[0,0,0,13],[0,0,0,16]] := by decide +kernel  -- :read-write
example : run Gen.CSS_IN_RANGE = [[0,0,0,12]] := by decide +kernel  -- :in-range
example : run Gen.CSS_OUT_OF_RANGE = [[0,0,0,11]] := by decide +kernel  -- :out-of-range
example : run Gen.CSS_READ_ONLY = (run (.mk [cmp (T "*") [] []] false false)).filter (fun p => !(run Gen.CSS_READ_WRITE).contains p) := by decide +kernel
example : run (dirList SEL_DIR_LTR) = [[0],[0,0],[0,0,0],[0,0,0,0],[0,0,0,1],[0,0,0,2],[0,0,0,3],[0,0,0,4],[0,0,0,5],[0,0,0,6],[0,0,0,7],[0,0,0,7,0],[0,0,0,7,0,0],[0,0,0,7,1],[0,0,0,7,2],[0,0,0,7,2,0],[0,0,0,7,2,0,0],[0,0,0,7,2,0,0,0],[0,0,0,7,2,0,1],[0,0,0,8],[0,0,0,9],[0,0,0,10],[0,0,0,11],[0,0,0,12],[0,0,0,13],[0,0,0,14],[0,0,0,15],[0,0,0,16],[0,0,0,17],[0,0,0,17,0],[0,0,0,17,0,0],[0,0,0,17,0,0,0],[0,0,0,17,0,0,0,0],[0,0,0,17,0,0,0,1],[0,0,0,18],[0,0,0,19]] := by decide +kernel
example : run (dirList SEL_DIR_RTL) = [[0,0,1],[0,0,1,0]] := by decide +kernel

/-! iframe locality on this document: the `submit` inside the iframe is the default of *its* form
    (position `[0,0,0,17,0,0,0,0]` above), the outer form's default is `[0,0,0,4]`; the radio `g`
    outside (`[0,0,0,1]`) and the radio `g` inside the iframe (`[0,0,0,17,0,0,0,1]`) are separate
    groups.  The cut chain of the inner input stops below the iframe: -/
example : ((at? [0,0,0,17,0,0,0,0]).map fun l => (ctx.ancestors l true).map Loc.pos) =
    some [[0,0,0,17,0,0,0],[0,0,0,17,0,0],[0,0,0,17,0]] := by decide +kernel
example : ((at? [0,0,0,17,0,0,0,0]).map fun l => (ctx.ancestors l false).length) = some 8 := by decide +kernel
-- and the outer form's scan does not enter it
example : ((at? [0,0,0]).map fun f => ((ctx.tagDescendants f true).map Loc.pos).filter (fun p => p.length > 4 && p.take 4 == [0,0,0,17])) =
    some [] := by decide +kernel

/-! ### `dir_partition`: the hypotheses are inhabited, and necessary -/

-- a chain ending in the root: `span` inside `p[dir=rtl]`
example : ((at? [0,0,1,0]).map fun l => ((l :: ctx.ancestors l true).map fun p => (ctx.isRoot p, p.isDoc))) =
    some [(false,false),(false,false),(false,false),(true,false),(false,true)] := by decide +kernel

/-- `<p>a</p><p>b</p>` parsed as a fragment (html.parser): the second top-level element is not the
    root and has no root above it. -/
def frag : Node := docN [el "p" [] [.str .text "a".toStr], el "p" [] [.str .text "b".toStr]]
def fragTop : Loc := ⟨frag, []⟩
def runF (s : SelList) : List (List Nat) := (select E0 false [] s fragTop 0).map Loc.pos
-- DEVIATION (real soupsieve agrees: `:dir(ltr)` selects only the first `p`, `:dir(rtl)` none)
example : runF (dirList SEL_DIR_LTR) = [[0]] := by decide +kernel
example : runF (dirList SEL_DIR_RTL) = [] := by decide +kernel

/-- An HTML element below non-HTML-namespace ancestors (`svg > foreignObject > p`, html5lib).
    Before the repair of `match_dir` (`inherit`) it matched neither direction; now the foreign
    ancestors are skipped and it inherits `ltr` from the root, while `svg` / `foreignObject`
    themselves match neither (`dir_neither_foreign`). -/
def xh : Option Str := some NS_XHTML
def svgNs : Option Str := some "http://www.w3.org/2000/svg".toStr
def elNs (ns : Option Str) (n : String) (kids : List Node) : Node :=
  .elem { isDoc := false, name := n.toStr, pfx := none, ns := ns, attrs := [] } kids
def svgDoc : Node := docN [elNs xh "html" [elNs xh "body" [elNs svgNs "svg" [elNs svgNs "foreignObject" [elNs xh "p" []]], elNs xh "p" []]]]
def svgTop : Loc := ⟨svgDoc, []⟩
def ctxS : Ctx := mkCtx E0 false [] svgTop
def runS (s : SelList) : List (List Nat) := (select E0 false [] s svgTop 0).map Loc.pos
-- (real soupsieve after the repair, html5lib: ltr = html, head, body, p#x, p#y; rtl = none)
example : runS (dirList SEL_DIR_LTR) = [[0],[0,0],[0,0,0,0,0],[0,0,1]] := by decide +kernel
example : runS (dirList SEL_DIR_RTL) = [] := by decide +kernel
-- the hypotheses of `dir_partition` at `p` inside `foreignObject`: the subject is an HTML element,
-- its chain is p, foreignObject (foreign), svg (foreign), body, html (root), document
example : ((Doc.mk false svgDoc).locAt? [0,0,0,0,0]).map (fun l =>
      (l :: ctxS.ancestors l true).map fun p =>
        (p.elem?.map (ctxS.isHtmlTag ·), ctxS.isRoot p)) =
    some [(some true, false), (some false, false), (some false, false), (some true, false),
          (some true, true), (some false, false)] := by decide +kernel
-- … and such elements are neither `:read-write` nor `:read-only` (`readwrite_or_readonly_iff`)
example : runS Gen.CSS_READ_ONLY = [[0],[0,0],[0,0,0,0,0],[0,0,1]] := by decide +kernel
example : runS Gen.CSS_READ_WRITE = [] := by decide +kernel

/-! ### `:enabled` / `:disabled`: `<input type=hidden>` is neither (HTML says: every `input`) -/
example : (run Gen.CSS_ENABLED).contains [0,0,0,6] = false ∧ (run Gen.CSS_DISABLED).contains [0,0,0,6] = false := by
  decide +kernel

/-! ### `:in-range` / `:out-of-range`: where "the compound holds" and "`match_range` sees the same
    type" part ways -/

def inputE (attrs : List Attr) : Elem := { isDoc := false, name := "input".toStr, pfx := none, ns := none, attrs := attrs }
def sAttr (k v : String) : Attr := mkAttr (k, v)

/-- `type` holding a list (`el['type'] = ['date']`): the selector joins it, `match_range` calls
    `util.lower` on it — `TypeError` in Python (`unhashable type: 'list'`). -/
def listTyped : Elem := inputE [{ key := "type".toStr, kns := none, kname := none, val := .seq [.str "date".toStr] "['date']".toStr },
  sAttr "min" "2020-01-01", sAttr "value" "2021-01-01"]
example : rangeCompoundHolds ctx listTyped = true := by decide +kernel
example : (match matchRangeE ctx listTyped SEL_IN_RANGE with | .error .typeError => true | _ => false) = true := by
  decide +kernel
example : rangeState ctx listTyped = none := by decide +kernel

/-- Non-ASCII case folding: `re.IGNORECASE` folds U+212A KELVIN SIGN to `k`, `util.lower` does not.
    `[type=week]` matches `type="wee\u212a"`, `match_range` then knows no such type.
    (Real soupsieve: `[type=week]` True, `:in-range` False, `:out-of-range` False.) -/
def envK : CharEnv := { asciiEnv with fold := fun c => if c == 8490 then 107 else lowerCp c }
def ctxK : Ctx := { ctx with env := envK }
def kelvinTyped : Elem := inputE [{ key := "type".toStr, kns := none, kname := none, val := .str ("wee".toStr ++ [8490]) },
  sAttr "min" "2020-W01", sAttr "value" "2021-W01"]
example : rangeCompoundHolds ctxK kelvinTyped = true := by decide +kernel
example : rangeState ctxK kelvinTyped = none := by decide +kernel
-- with an ASCII-only spelling both agree (`range_type_consistent`)
def weekTyped : Elem := inputE [sAttr "type" "WeeK", sAttr "min" "2020-W01", sAttr "value" "2021-W01"]
example : rangeCompoundHolds ctx weekTyped = true := by decide +kernel
example : rangeState ctx weekTyped = some false := by decide +kernel

/-- Two attributes named `type` (a hand-edited `attrs` dictionary `{'type': 'date', 'TYPE': 'week', …}`
    in a non-XML document; no parser produces it).  Since the repair of `match_attribute_name` the
    selector `[type=week]` accepts when ANY of them has the value, `match_range` reads the first one
    (`get_attribute_by_name`) and dispatches on `date`: the uniqueness hypothesis of
    `range_type_consistent` / `scanIsSubmit_eq_typeIs` is needed.
    (Real soupsieve: `[type=week]` True, `[type=date]` True, `:in-range` False, `:out-of-range` False.) -/
def twoTyped : Elem := inputE [sAttr "type" "date", sAttr "TYPE" "week", sAttr "min" "2020-W01", sAttr "value" "2021-W01"]
example : attrVals ctx twoTyped "type" = ["date".toStr, "week".toStr] := by decide +kernel
example : typeIs ctx twoTyped "week" = true ∧ typeIs ctx twoTyped "date" = true := by decide +kernel
example : (match lowerE ((ctx.attrByName twoTyped "type".toStr).getD (.str [])) with
    | .ok t => t == "date".toStr | .error _ => false) = true := by decide +kernel
example : rangeCompoundHolds ctx twoTyped = true := by decide +kernel
example : rangeState ctx twoTyped = none := by decide +kernel

/-! ### `:required`: applies to every `input`, also where HTML says `required` does not apply -/
example : matchList ctx top (inputE [sAttr "type" "hidden", sAttr "required" ""]) Gen.CSS_REQUIRED = true := by
  decide +kernel

/-! ### XHTML parsed as XML: `[type=…]` is exact, and (after the repair) so is `match_default`'s own
    scan (`scanIsSubmit_eq_typeIs`) -/
def ctxX : Ctx := { ctx with isXml := true, hasHtmlNs := true }
example : typeIs ctxX (inputE [sAttr "type" "SUBMIT"]) "submit" = false := by decide +kernel
example : typeIs ctx (inputE [sAttr "type" "SUBMIT"]) "submit" = true := by decide +kernel
example : scanIsSubmit ctxX (inputE [sAttr "type" "SUBMIT"]) = false := by decide +kernel
example : scanIsSubmit ctx (inputE [sAttr "type" "SUBMIT"]) = true := by decide +kernel
example : scanIsSubmit ctxX (inputE [sAttr "type" "submit"]) = true := by decide +kernel

end SoupVerif.AuditC17
