/-
  Audit of C05Parse: axioms of every theorem of `Properties/C05Parse.lean`, `Refine/C05ParseBase.lean`,
  `Refine/C05ParseImpl.lean`, and of the non-vacuity instances.
-/
import SoupVerif.Properties.C05Parse
open SoupVerif
#print axioms C05ParseBase.commaS_value
#print axioms C05ParseBase.commaS_render
#print axioms C05ParseBase.commaS_tbl
#print axioms C05ParseBase.commaS_ok
#print axioms C05ParseBase.loopState_comma
#print axioms C05ParseBase.finishG_eq
#print axioms C05ParseBase.endOK_of_ok
#print axioms C05ParseImpl.matchSel_impl
#print axioms C05ParseImpl.matchList_impl
#print axioms C05ParseImpl.matchAny_impl
#print axioms C05ParseImpl.freeze_implDeep
#print axioms C05ParseImpl.foldRest_impl
#print axioms C05ParseImpl.endSels_loopState_impl
#print axioms C05ParseImpl.nonEmptyV_of_ok
#print axioms C05Parse.alts_comma
#print axioms C05Parse.loopState_congr
#print axioms C05Parse.denote_eq_alts
#print axioms C05Parse.denote_comma
#print axioms C05Parse.subList_eq
#print axioms C05Parse.commaS_endOK
#print axioms C05Parse.matchSel_freeze_addSub
#print axioms C05Parse.matchSel_withFn
#print axioms C05Parse.matchSel_selOf_tag
#print axioms C05Parse.ListText.matchText_eq
#print axioms C05Parse.ListText.of_compound
#print axioms C05Parse.ListText.comma
#print axioms C05Parse.ListText.one_verdict
#print axioms C05Parse.ListText.fn_verdict
#print axioms C05Parse.alts_comma_nested
#print axioms C05Parse.comma_text
#print axioms C05Parse.comma_monotone_text
#print axioms C05Parse.comma_monotone_right_text
#print axioms C05Parse.comma_compile_text
#print axioms C05Parse.select_comma_text
#print axioms C05Parse.is_comma_text
#print axioms C05Parse.is_monotone_text
#print axioms C05Parse.is_where_matches_text
#print axioms C05Parse.not_text
#print axioms C05Parse.not_compl_text
#print axioms C05Parse.not_comma_text
#print axioms C05Parse.is_inter_text
#print axioms C05Parse.is_eq_list_text
/-! Non-vacuity -/
#print axioms C05Parse.Examples.lA_text
#print axioms C05Parse.Examples.lB_text
#print axioms C05Parse.Examples.lAB_text
#print axioms C05Parse.Examples.fn_text
#print axioms C05Parse.Examples.inter_needs_side
#print axioms C05Parse.Examples.is_list_needs_no_default
#print axioms C05Parse.Examples.not_compl_needs_tagcond
