import SoupVerif.Properties.C01Parse
open SoupVerif

/-! Main theorems -/
#print axioms C01Parse.denote_listV
#print axioms C01Parse.denote_toSyntax
#print axioms C01Parse.parse_eq_compileList
#print axioms C01Parse.parse_spelling_eq_compileList
#print axioms C01Parse.parse_spelling_eq_compileList_gen
#print axioms C01Parse.select_text_exact
#print axioms C01Parse.select_canonical_text_exact
#print axioms C01Parse.select_text_exact'
#print axioms C01Parse.toSyntax_render_plain
#print axioms C01Parse.parse_renderList_eq_compileList

/-! The canonical spelling: values, side conditions, no NUL, grammatical -/
#print axioms C01Parse.toSyntax_value
#print axioms C01Parse.toSyntax_ok
#print axioms C01Parse.toSyntax_noNul
#print axioms C01Parse.spellable_wf
#print axioms C01Parse.identForms_render
#print axioms C01Parse.identForms_value
#print axioms C01Parse.identForms_ok
#print axioms C01Parse.identForms_noNul
#print axioms C01Parse.strPieces_render
#print axioms C01Parse.strPieces_value
#print axioms C01Parse.strPieces_valid

/-! The induction of step 2 -/
#print axioms C01Parse.attr_sem_none
#print axioms C01Parse.attr_sem_some
#print axioms C01Parse.pseudo_sem
#print axioms C01Parse.simple_sem
#print axioms C01Parse.parts_sem
#print axioms C01Parse.compound_sem
#print axioms C01Parse.complex_sem
#print axioms C01Parse.list_sem
#print axioms C01Parse.loop_sem
#print axioms C01Parse.freeze_chain_nested
#print axioms C01Parse.freeze_chain_top

/-! Non-vacuity -/
#print axioms C01Parse.Examples.altX2_spells
#print axioms C01Parse.Examples.altX2_ok
