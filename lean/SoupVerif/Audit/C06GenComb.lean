import SoupVerif.Properties.C06GenComb
open SoupVerif
#print axioms C06GenComb.combOf_relation
#print axioms C06GenComb.parse_combinator_eq
#print axioms C06GenComb.parse_has_combinator_eq
#print axioms C06GenComb.runCombinator_gen
#print axioms C06GenComb.consts
#print axioms C06GenComb.gen_needs_selector
#print axioms C06GenComb.gen_forgiving_empty_slot
#print axioms C06GenComb.gen_comma
#print axioms C06GenComb.gen_other_combinator
#print axioms C06GenComb.gen_has_comma_needs_selector
#print axioms C06GenComb.gen_has_leading
#print axioms C06GenComb.gen_errors
#print axioms C06GenComb.gen_ok
