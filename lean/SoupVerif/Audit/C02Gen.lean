/-
  Audit of C02Gen: axioms of the theorems that tie the An+B block of `parse_pseudo_nth`, as TRANSLATED from the
  source (`Generated/PyAnB.lean`), to the hand-written parser model and to the CSS value of An+B; and the
  generated block run through the regex-engine model on concrete texts (compiled evaluation: checks, not
  theorems), against the values of the real library (`sv.compile(':nth-child(…)').selectors[0].nth[0]`).
-/
import SoupVerif.Properties.C02Gen
open SoupVerif

#print axioms C02Gen.anb_closed
#print axioms C02Gen.int10_sound
#print axioms C02Gen.int10_complete
#print axioms C02Gen.gen_sound
#print axioms C02Gen.lin_groups
#print axioms C02Gen.gen_total
#print axioms C02Gen.gen_eq_model
#print axioms C02Gen.gen_anb_value
#print axioms C02Gen.gen_designates
#print axioms C02Gen.gen_overflow

namespace AuditC02Gen
open C02Gen Refine.Compile Refine.C02Parse

/-- the generated block on the lower-cased text, as `(a, b, var)`; `none` when it raises -/
def run (s : String) : Option (Int × Int × Bool) :=
  match genAnB pyFoldEnv (lower s.toStr) with
  | .ok r => some r
  | .error _ => none

/-- the hand-written model on the same text, as `(a, b, var)` -/
def model (s : String) : Int × Int × Bool :=
  let r := Parser.parseAnB (penv Gen.builtinsRec []) (lower s.toStr)
  (r.1, r.2.2, r.2.1)

#guard run "2N + 1" == some (2, 1, true)
#guard run "-n/**/+ 2" == some (-1, 2, true)
#guard run "+007n-08" == some (7, -8, true)
#guard run "-n- 1" == some (-1, -1, true)
#guard run "n" == some (1, 0, true)
#guard run "-N" == some (-1, 0, true)
#guard run "+5" == some (5, 0, false)
#guard run "-007" == some (-7, 0, false)
#guard run "EVEN" == some (2, 0, true)
#guard run "odd" == some (2, 1, true)
#guard run "0n+0" == some (0, 0, true)
#guard ["2N + 1", "-n/**/+ 2", "+007n-08", "-n- 1", "n", "-N", "+5", "-007", "EVEN", "odd", "0n+0", "10n-10"].all
  fun s => run s == some (model s)
-- a text `RE_NTH` does not match: Python's `None.group` raises; the generated block returns an error
#guard run "x" == none
#guard (genAnB pyFoldEnv "x".toStr matches .error .attributeError)
-- beyond 4300 digits the library raises SelectorSyntaxError (`gen_overflow`); the hand model has no limit
#guard (genAnB pyFoldEnv (List.replicate 4301 48 ++ "n+1".toStr) matches .error .selectorSyntaxError)
#guard (PyStr.int10 (List.replicate 4300 48) matches .ok 0)
#guard (PyStr.int10 (45 :: List.replicate 4301 49) matches .error .valueError)

end AuditC02Gen
