import SoupVerif.Properties.C01Sat
import SoupVerif.Properties.C01Ns
open SoupVerif

/-! Main theorems -/
#print axioms C01Sat.templatesOk
#print axioms C01Sat.match_eq_sat_gen
#print axioms C01Sat.good_of
#print axioms C01Sat.match_eq_sat
#print axioms C01Sat.match_eq_sat_noroot
#print axioms C01Sat.match_eq_satTop
#print axioms C01Sat.matchEl_eq
#print axioms C01Sat.select_exact
#print axioms C01Sat.mem_select_iff
#print axioms C01Sat.api_select_exact
#print axioms C01Sat.api_select_exact'
#print axioms SatRootCond.rootAgrees_of_conditions
#print axioms C01Sat.doc_object_never_related
#print axioms C01Sat.sat_child_of_doc
#print axioms C01Sat.match_child_of_doc
#print axioms C01Sat.empty_prefix_suffix_substr_match_nothing
#print axioms C01Sat.match_empty_value_nothing
#print axioms C01Sat.Examples.rootAgrees_example

/-! The induction -/
#print axioms SatMain.simple_ok
#print axioms SatMain.parts_ok
#print axioms SatMain.compound_ok
#print axioms SatMain.complex_ok
#print axioms SatMain.sels_ok
#print axioms SatMain.rels_ok
#print axioms SatMain.rel_ok
#print axioms SatMain.fwd_ok

/-! Tree, leaf and list lemmas it rests on -/
#print axioms SatTree.parent_children
#print axioms SatTree.parent?_children
#print axioms SatTree.child_parent
#print axioms SatTree.prev_not_same
#print axioms SatTree.next_not_same
#print axioms SatTree.ancestors_takeWhile
#print axioms SatTree.parentElem_eq
#print axioms SatTree.descendantElems_eq
#print axioms SatTree.ctx_tagDescendants_false
#print axioms SatTree.Closed.leftOf
#print axioms SatTree.Closed.rightOf
#print axioms SatTree.closed_top
#print axioms SatCore.matchSel_toSel
#print axioms SatCore.walk_left
#print axioms SatCore.walk_right
#print axioms SatLeaf.id_single
#print axioms SatLeaf.class_single
#print axioms SatLeaf.attr_value
#print axioms SatLeaf.attr_pos
#print axioms SatLeaf.attr_neg
#print axioms SatLeaf.empty_eq
#print axioms SatNth.nth_first
#print axioms SatNth.nth_last
#print axioms SatWords.splitWs_contains
#print axioms SatRoot.in_tree
#print axioms SatRoot.rootAgrees_of_check
#print axioms Css.Complex.All.of_all
#print axioms Css.Complex.All.imp
#print axioms Css.Complex.All.and
#print axioms Css.Complex.All.of_forall

/-! Default namespace (Properties/C01Ns) -/
#print axioms C01Ns.satType_implied
#print axioms C01Ns.complex_ns
#print axioms C01Ns.withImplied_ns
#print axioms C01Ns.complex_id
#print axioms C01Ns.complex_top
#print axioms C01Ns.satCss_eq_satTop
#print axioms C01Ns.select_exact_css
