import SoupVerif.Properties.C17GenSmall
open SoupVerif
#print axioms C17GenSmall.strFind_single
#print axioms C17GenSmall.match_defined_eq
#print axioms C17GenSmall.match_placeholder_shown_eq
#print axioms C17GenSmall.match_scope_eq
#print axioms C17GenSmall.gen_placeholder_text
#print axioms C17GenSmall.gen_placeholder_def
#print axioms C17GenSmall.gen_match_scope_iff
#print axioms C17GenSmall.gen_match_defined_iff
