import SoupVerif.Properties.C01
open SoupVerif.C01
#print axioms select_sublist
#print axioms select_sound
#print axioms select_complete
#print axioms doc_never_parent
#print axioms doc_never_ancestor
#print axioms match_refuses_doc
#print axioms match_refuses_strings
