import SoupVerif.Properties.C10Rx
open SoupVerif
#print axioms C10Rx.id_token_on_escape
#print axioms C10Rx.class_token_on_escape
#print axioms C10Rx.ident_on_escape
#print axioms C10Rx.unescape_escape_rx
#print axioms C10Rx.id_roundtrip_rx
#print axioms Refine.Ident.tok_id_matchAt
#print axioms Refine.Ident.tok_class_matchAt
#print axioms Refine.Ident.matchAt_ident
#print axioms Refine.cssUnescape_pyFold
#print axioms Refine.cssUnescape_ascii
