import SoupVerif.Properties.C10
open SoupVerif
#print axioms C10.escape_scan
#print axioms C10.escape_scan_codepoints
#print axioms C10.escape_scan_whole
#print axioms C10.escape_inert
#print axioms C10.escape_inert_prefix
#print axioms C10.delimiters_stop
#print axioms C10.escape_scan_id
#print axioms C10.escape_scan_class
#print axioms C10.unescape_escape
#print axioms C10.unescape_escape_codepoints
#print axioms C10.unescape_escape_append
#print axioms C10.unescape_never_raises
#print axioms C10.unescape_raises_append
#print axioms C10.ident_value
#print axioms C10.escape_injective_mod_nul
#print axioms C10.escape_chars_ok
#print axioms C10.escape_no_newline
#print axioms C10.escape_nul_stable
#print axioms C10.escape_nonempty
#print axioms C10.escape_empty
#print axioms C10.scan_empty
#print axioms C10.hex_roundtrip
#print axioms C10.hex_codepoint_length
