import SoupVerif.Properties.C01Has
open SoupVerif
#print axioms C01Has.has_forward_eq_declarative
