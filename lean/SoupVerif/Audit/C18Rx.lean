import SoupVerif.Properties.C18Rx
open SoupVerif
#print axioms C18Rx.parse_date_spec_rx
#print axioms C18Rx.parse_month_spec_rx
#print axioms C18Rx.parse_week_char_rx
#print axioms C18Rx.parse_week_valid_partial_rx
#print axioms C18Rx.parse_week_never_rejects_valid_rx
#print axioms C18Rx.parse_time_spec_rx
#print axioms C18Rx.parse_datetime_spec_rx
#print axioms C18Rx.parse_number_spec_rx
#print axioms C18Rx.parse_other_type_rx
#print axioms RefineInputs.time_refines
#print axioms RefineInputs.month_refines
#print axioms RefineInputs.week_refines
#print axioms RefineInputs.date_refines
#print axioms RefineInputs.datetime_refines
#print axioms RefineInputs.num_refines
#print axioms RefineInputs.num_span
#print axioms RefineInputs.parseValueRx_eq
