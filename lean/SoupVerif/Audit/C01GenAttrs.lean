/-
  Audit of C01GenAttrs: `CSSMatch.match_attributes` regenerated from the source (`Generated/PyAttrs.lean`)
  = the hand-written model `matchAttributes`.
-/
import SoupVerif.Properties.C01GenAttrs
open SoupVerif

#print axioms C01GenAttrs.gen_valueLoop_eq
#print axioms C01GenAttrs.gen_attrLoop_eq
#print axioms C01GenAttrs.gen_matchAttributes_eq
#print axioms C01GenAttrs.gen_matchAttributes_nil
#print axioms C01GenAttrs.gen_matchAttributes_append
#print axioms C01GenAttrs.gen_attr_value_test
#print axioms C01GenAttrs.gen_attr_ns_empty_eq_bare
