/-
  Audit of C19Gen: `match_empty` / `match_contains` regenerated from the source (gen/gen_py_textfn.py).
-/
import SoupVerif.Properties.C19Gen
open SoupVerif

#print axioms C19Gen.forBreak_clear
#print axioms C19Gen.forBreak_set
#print axioms C19Gen.forBreak_any
#print axioms C19Gen.forBreak_all
#print axioms C19Gen.gen_emptyStep_eq
#print axioms C19Gen.gen_matchEmpty_eq
#print axioms C19Gen.gen_empty_iff
#print axioms C19Gen.gen_empty_iff_prop
#print axioms C19Gen.gen_containsStep_eq
#print axioms C19Gen.gen_matchContains_eq
#print axioms C19Gen.gen_matchContains_all
#print axioms C19Gen.gen_contains_iff
#print axioms C19Gen.gen_containsOwn_iff
#print axioms C19Gen.gen_matchContains_mixed
