import SoupVerif.Properties.C11Gen
open SoupVerif
#print axioms C11Gen.gen_lowerStep_eq
#print axioms C11Gen.charLoop_eq_map
#print axioms C11Gen.gen_lower_eq
#print axioms C11Gen.gen_lowerStep_codepoint
#print axioms C11Gen.gen_lowerStep_spec
#print axioms C11Gen.lower_idem
#print axioms C11Gen.lower_length
#print axioms C11Gen.caseEq_iff
#print axioms C11Gen.html_tag_fold
#print axioms C11Gen.html_tag_iff
#print axioms C11Gen.html_attr_name_lower
