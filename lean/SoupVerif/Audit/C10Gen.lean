import SoupVerif.Properties.C10Gen
open SoupVerif
#print axioms C10Gen.gen_escapeStep_emit
#print axioms C10Gen.gen_escapeLoop_eq
#print axioms C10Gen.gen_escape_eq
#print axioms C10Gen.unescape_escape
#print axioms C10Gen.escape_scan
#print axioms C10Gen.escape_inert
#print axioms C10Gen.escape_no_newline
#print axioms C10Gen.escape_chars_ok
#print axioms C10Gen.unescape_never_raises
#print axioms C10Gen.ident_value
