import SoupVerif.Properties.C11Parse
open SoupVerif

/-! Helpers (`Refine/C11ParseBase.lean`) -/
#print axioms C11Parse.valTest_fold
#print axioms C11Parse.valTest_foldCase
#print axioms C11Parse.valTest_ic_value
#print axioms C11Parse.valTest_ic_subject
#print axioms C11Parse.valTest_eq_sensitive
#print axioms C11Parse.valTest_eq_insensitive
#print axioms C11Parse.ci_none
#print axioms C11Parse.ci_html_type
#print axioms C11Parse.ci_html_plain
#print axioms C11Parse.ci_xml
#print axioms C11Parse.ci_congr
#print axioms C11Parse.NameEq_html
#print axioms C11Parse.NameEq_xml
#print axioms C11Parse.values_congr
#print axioms C11Parse.satAttr_variant
#print axioms C11Parse.satSimple_variant
#print axioms C11Parse.satSimples_variant
#print axioms C11Parse.nameCond_variant
#print axioms C11Parse.tagCond_variant
#print axioms C11Parse.foldNeeded_variant
#print axioms C11Parse.attrByName_eq
#print axioms C11Parse.idOf_iff
#print axioms C11Parse.hasClass_iff

/-! 0. The general law -/
#print axioms C11Parse.compound_case_text

/-! 1. Names, non-XML documents -/
#print axioms C11Parse.type_variant_text
#print axioms C11Parse.type_case_text
#print axioms C11Parse.name_case_text
#print axioms C11Parse.html_type_text
#print axioms C11Parse.attr_variant_text
#print axioms C11Parse.attr_name_case_text
#print axioms C11Parse.attr_value_case_text
#print axioms C11Parse.html_attr_name_text

/-! 2. Values -/
#print axioms C11Parse.attrHolds_ic
#print axioms C11Parse.valueCond_eq
#print axioms C11Parse.valueCond_eq_sensitive
#print axioms C11Parse.valueCond_eq_insensitive
#print axioms C11Parse.testOf_body
#print axioms C11Parse.attr_value_text
#print axioms C11Parse.plain_value_text
#print axioms C11Parse.html_type_value_text
#print axioms C11Parse.xml_value_text
#print axioms C11Parse.flag_i_value_text
#print axioms C11Parse.flag_s_value_text
#print axioms C11Parse.plain_eq_text
#print axioms C11Parse.html_type_eq_text
#print axioms C11Parse.xml_eq_text
#print axioms C11Parse.eq_i_text
#print axioms C11Parse.eq_s_text

/-! 3. XML documents -/
#print axioms C11Parse.designates_html_bare
#print axioms C11Parse.designates_xml_bare
#print axioms C11Parse.designates_xml_ns
#print axioms C11Parse.designates_xml_any
#print axioms C11Parse.xml_type_text
#print axioms C11Parse.xml_attr_name_text
#print axioms C11Parse.xml_eq_i_text

/-! 4. `#id`, `.class` -/
#print axioms C11Parse.id_text
#print axioms C11Parse.class_text

/-! Non-vacuity -/
#print axioms C11Parse.Examples.eqAttr_ok
