/-
  Audit of C19GenRoot: `match_root` regenerated from the source (gen/gen_py_textfn.py).
-/
import SoupVerif.Properties.C19GenRoot
open SoupVerif

#print axioms C19GenRoot.prevSiblings_prev
#print axioms C19GenRoot.nextSiblings_next
#print axioms C19GenRoot.walk_down
#print axioms C19GenRoot.walk_eq
#print axioms C19GenRoot.gen_rootCond0
#print axioms C19GenRoot.gen_rootCond1
#print axioms C19GenRoot.gen_rootBody0
#print axioms C19GenRoot.gen_rootBody1
#print axioms C19GenRoot.gen_matchRoot_eq
#print axioms C19GenRoot.gen_matchRoot_total
#print axioms C19GenRoot.gen_matchRoot_iff
