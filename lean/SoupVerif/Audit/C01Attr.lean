import SoupVerif.Properties.C01Attr
open SoupVerif
#print axioms C01Attr.mkSeq_snoc
#print axioms C01Attr.isEmpty_false
#print axioms C01Attr.shape_eq
#print axioms C01Attr.shape_eq1
#print axioms C01Attr.shape_ne
#print axioms C01Attr.shape_empty
#print axioms C01Attr.shape_pre
#print axioms C01Attr.shape_suf
#print axioms C01Attr.shape_sub
#print axioms C01Attr.shape_dash
#print axioms C01Attr.shape_word
#print axioms C01Attr.shape_word_none
#print axioms C01Attr.seq_eq
#print axioms C01Attr.seq_pre
#print axioms C01Attr.seq_suf
#print axioms C01Attr.seq_sub
#print axioms C01Attr.fc_45
#print axioms C01Attr.seq_dash
#print axioms C01Attr.seq_word
#print axioms C01Attr.seq_word_none
#print axioms C01Attr.noMatch_class_empty
#print axioms C01Attr.ws_class
#print axioms C01Attr.tmpl_eq_gen
#print axioms C01Attr.tmpl_ne_gen
#print axioms C01Attr.tmpl_eq
#print axioms C01Attr.tmpl_ne
#print axioms C01Attr.tmpl_eq_ic
#print axioms C01Attr.tmpl_ne_ic
#print axioms C01Attr.tmpl_empty
#print axioms C01Attr.tmpl_pre_gen
#print axioms C01Attr.tmpl_suf_gen
#print axioms C01Attr.tmpl_sub_gen
#print axioms C01Attr.tmpl_pre
#print axioms C01Attr.tmpl_pre_ic
#print axioms C01Attr.tmpl_suf
#print axioms C01Attr.tmpl_suf_ic
#print axioms C01Attr.tmpl_sub
#print axioms C01Attr.tmpl_sub_ic
#print axioms C01Attr.tmpl_dash_gen
#print axioms C01Attr.tmpl_dash
#print axioms C01Attr.tmpl_dash_ic
#print axioms C01Attr.tmpl_word_gen
#print axioms C01Attr.tmpl_word
#print axioms C01Attr.tmpl_word_ic
#print axioms C01Attr.tmpl_word_none
#print axioms C01Attr.hasWord_iff'
#print axioms C01Attr.hasWord_iff
#print axioms C01Attr.isWordOf_maximal
#print axioms C01Attr.attrPattern_sem
#print axioms C01Attr.attrPattern_sem_ascii

/-! Non-vacuity: the compiled patterns on concrete strings, evaluated by the kernel. -/
section
open Rx Parser

-- `=` / `!=`
example : isMatch asciiEnv (attrPattern [61] "ab".toStr false false) "ab".toStr = true := by decide
example : isMatch asciiEnv (attrPattern [61] "ab".toStr false false) "aB".toStr = false := by decide
example : isMatch asciiEnv (attrPattern [61] "ab".toStr true false) "aB".toStr = true := by decide
example : isMatch asciiEnv (attrPattern [61] "ab".toStr false false) "abc".toStr = false := by decide
example : isMatch asciiEnv (attrPattern [33, 61] "ab".toStr false false) "ab".toStr = true := by decide
-- `^=`
example : isMatch asciiEnv (attrPattern [94, 61] "ab".toStr false false) "abc".toStr = true := by decide
example : isMatch asciiEnv (attrPattern [94, 61] "ab".toStr false false) "cab".toStr = false := by decide
example : isMatch asciiEnv (attrPattern [94, 61] "ab".toStr true false) "ABc".toStr = true := by decide
example : isMatch asciiEnv (attrPattern [94, 61] [] false false) "abc".toStr = false := by decide
-- `$=`
example : isMatch asciiEnv (attrPattern [36, 61] "bc".toStr false false) "abc".toStr = true := by decide
example : isMatch asciiEnv (attrPattern [36, 61] "bc".toStr false false) "bca".toStr = false := by decide
example : isMatch asciiEnv (attrPattern [36, 61] [] false false) [] = false := by decide
-- `*=`
example : isMatch asciiEnv (attrPattern [42, 61] "b".toStr false false) "abc".toStr = true := by decide
example : isMatch asciiEnv (attrPattern [42, 61] "d".toStr false false) "abc".toStr = false := by decide
example : isMatch asciiEnv (attrPattern [42, 61] "B".toStr true false) "a\nbc".toStr = true := by decide
example : isMatch asciiEnv (attrPattern [42, 61] [] false false) "abc".toStr = false := by decide
-- `~=`
example : isMatch asciiEnv (attrPattern [126, 61] "b".toStr false false) "a b c".toStr = true := by decide
example : isMatch asciiEnv (attrPattern [126, 61] "b".toStr false false) "a\tb\nc".toStr = true := by decide
example : isMatch asciiEnv (attrPattern [126, 61] "b".toStr false false) "ab c".toStr = false := by decide
example : isMatch asciiEnv (attrPattern [126, 61] "b".toStr false false) "a bc".toStr = false := by decide
example : isMatch asciiEnv (attrPattern [126, 61] "B".toStr true false) "a b".toStr = true := by decide
example : isMatch asciiEnv (attrPattern [126, 61] "a b".toStr false true) "a b".toStr = false := by decide
example : isMatch asciiEnv (attrPattern [126, 61] [] false false) "a b".toStr = false := by decide
example : isMatch asciiEnv (attrPattern [126, 61] [] false false) [] = false := by decide
-- `|=`
example : isMatch asciiEnv (attrPattern [124, 61] "en".toStr false false) "en".toStr = true := by decide
example : isMatch asciiEnv (attrPattern [124, 61] "en".toStr false false) "en-US".toStr = true := by decide
example : isMatch asciiEnv (attrPattern [124, 61] "en".toStr false false) "eng".toStr = false := by decide
example : isMatch asciiEnv (attrPattern [124, 61] "en".toStr true false) "EN-us".toStr = true := by decide
example : isMatch asciiEnv (attrPattern [124, 61] [] false false) "-x".toStr = true := by decide

-- the specification side on the same inputs
example : Css.valTest .word "b".toStr false "a b c".toStr = true := by decide
example : Css.valTest .word "b".toStr false "ab c".toStr = false := by decide
example : Css.valTest .word "a b".toStr false "a b".toStr = false := by decide
example : Css.valTest .dash "en".toStr true "EN-us".toStr = true := by decide
example : Css.valTest .dash "en".toStr false "eng".toStr = false := by decide
example : Css.valTest .pre [] false "abc".toStr = false := by decide
example : Css.valTest .suf "bc".toStr false "abc".toStr = true := by decide
example : Css.valTest .sub "B".toStr true "a\nbc".toStr = true := by decide
example : Css.hasWord "b".toStr "a b c".toStr = true := by decide
example : Css.IsWordOf "b".toStr "a b c".toStr :=
  ⟨"a ".toStr, " c".toStr, by decide, Or.inr ⟨"a".toStr, 32, by decide, by decide⟩,
    Or.inr ⟨32, "c".toStr, by decide, by decide⟩⟩
end
