/-
  Audit of C18Parse (C18 end to end: `:in-range` / `:out-of-range` from the selector TEXT and the attribute
  STRINGS): axioms of every theorem, and a sweep of the model over the example form of
  `Properties/C18Parse.lean` whose expected values were produced by the real soupsieve (html.parser;
  `soupsieve.match(text, el)` on the eighteen children of the form, by index; lxml-xml for the XHTML document).
-/
import SoupVerif.Properties.C18Parse
open SoupVerif

/-! Helpers (`Refine/C18ParseBase.lean`) -/
#print axioms Refine.C18Parse.weekGuard_of_ne
#print axioms Refine.C18Parse.weekGuard_none
#print axioms Refine.C18Parse.name_time_iff
#print axioms Refine.C18Parse.parse_of_valid
#print axioms Refine.C18Parse.valid_of_parse
#print axioms Refine.C18Parse.validStr_unique
#print axioms Refine.C18Parse.reads_exists
#print axioms Refine.C18Parse.reads_unique
#print axioms Refine.C18Parse.reads_none_absent
#print axioms Refine.C18Parse.parseValueE_of_reads
#print axioms Refine.C18Parse.decScaled_eq_numVal
#print axioms Refine.C18Parse.num_lt_any_scale
#print axioms Refine.C18Parse.num_lt_int
#print axioms Refine.C18Parse.ltP_iff_lt
#print axioms Refine.C18Parse.outOfRange_congr
#print axioms Refine.C18Parse.outOfRange_transfer
#print axioms Refine.C18Parse.foldsAscii_ascii
#print axioms Refine.C18Parse.foldsAscii_py
#print axioms Refine.C18Parse.litsEq_of_lower

/-! The theorems (`Properties/C18Parse.lean`) -/
#print axioms C18Parse.isInput_iff
#print axioms C18Parse.name_lower
#print axioms C18Parse.TypeIs.itype
#print axioms C18Parse.TypeIs.typeIs
#print axioms C18Parse.anyType_of_typeIs
#print axioms C18Parse.hasAttr_of_attrStr
#print axioms C18Parse.rangeCompound_of_bound
#print axioms C18Parse.matchRange_of_reads
#print axioms C18Parse.hasFlag_in
#print axioms C18Parse.hasFlag_out
#print axioms C18Parse.in_range_text
#print axioms C18Parse.out_of_range_text
#print axioms C18Parse.in_out_range_text
#print axioms C18Parse.invalid_value_text
#print axioms C18Parse.one_bound_text_min
#print axioms C18Parse.one_bound_text_max
#print axioms C18Parse.weekGuard_of_valid
#print axioms C18Parse.valid_range_text
#print axioms C18Parse.date_range_text
#print axioms C18Parse.date_out_of_range_text
#print axioms C18Parse.month_range_text
#print axioms C18Parse.week_range_text
#print axioms C18Parse.time_range_text
#print axioms C18Parse.datetime_range_text
#print axioms C18Parse.number_range_text
#print axioms C18Parse.integer_range_text
#print axioms C18Parse.neither_of
#print axioms C18Parse.not_input_text
#print axioms C18Parse.parseValueE_other
#print axioms C18Parse.other_type_text
#print axioms C18Parse.xml_type_text
#print axioms C18Parse.no_valid_bound_text

/-! The examples -/
#print axioms C18Parse.Examples.ctx_html
#print axioms C18Parse.Examples.ctx_fold
#print axioms C18Parse.Examples.focus_at
#print axioms C18Parse.Examples.subj
#print axioms C18Parse.Examples.spIn
#print axioms C18Parse.Examples.spOut
#print axioms C18Parse.Examples.vDate
#print axioms C18Parse.Examples.vMonth
#print axioms C18Parse.Examples.vTime
#print axioms C18Parse.Examples.vDateTime
#print axioms C18Parse.Examples.vNum
#print axioms C18Parse.Examples.vWeek
#print axioms C18Parse.Examples.readsNone
#print axioms C18Parse.Examples.dnLt
#print axioms C18Parse.Examples.dnLe
#print axioms C18Parse.Examples.d0101
#print axioms C18Parse.Examples.d1231
#print axioms C18Parse.Examples.d0229
#print axioms C18Parse.Examples.d250101
#print axioms C18Parse.Examples.d231231
#print axioms C18Parse.Examples.week53_not_valid
#print axioms C18Parse.Examples.week53_guard_fails
#print axioms C18Parse.Examples.week53_finding

namespace SoupVerif.AuditC18Parse
open C18Parse C18Parse.Examples C12Parse

/-- Indices (among the eighteen children of the form) of the elements `matchText` accepts. -/
def hits (t : String) : List Nat :=
  (List.range 18).filter fun i =>
    match matchText ctx t.toStr (at_ i) with
    | .ok b => b
    | .error _ => false

def xhits (t : String) : List Nat :=
  (List.range 2).filter fun i =>
    match matchText xctx t.toStr (xat i) with
    | .ok b => b
    | .error _ => false

-- expected values: real soupsieve 2.6.1 / bs4 4.15.0, html.parser, on
-- <html><body><form>
--  0 <input type="date" min="2024-01-01" max="2024-12-31" value="2024-02-29">
--  1 <input type="date" min="2024-01-01" max="2024-12-31" value="2025-01-01">
--  2 <input type="date" min="2024-01-01" max="2024-12-31" value="2023-02-29">
--  3 <input type="month" min="2024-03" max="2024-10" value="2024-11">
--  4 <input type="week" min="2020-W10" max="2020-W53" value="2020-W53">
--  5 <input type="time" min="22:00" max="06:00" value="23:30">
--  6 <input type="time" min="22:00" max="06:00" value="12:00">
--  7 <input type="datetime-local" min="2024-01-01T00:00" max="2024-01-01T12:00" value="2024-01-01T12:01">
--  8 <input type="number" min="-1.5" max="1e1" value="9.99">
--  9 <input type="range" min="0" max="10" value="11">
-- 10 <input type="date" min="yesterday" max="2024-12-31" value="2025-01-01">
-- 11 <input type="date" min="yesterday" max="2024-02-30" value="2024-01-01">
-- 12 <input type="DaTe" min="2024-01-01" value="2023-12-31">
-- 13 <input type="text" min="1" max="5" value="7">
-- 14 <input type="week" min="2019-W53" value="2019-W52">        (the week-53 finding)
-- 15 <p type="number" min="1" max="5" value="7"></p>
-- 16 <input type="time" min="09:00" max="17:00" value="08:59">
-- 17 <input type="number" min="1" value="">
-- </form></body></html>
#guard hits ":in-range" == [0, 2, 4, 5, 8, 17]
#guard hits ":out-of-range" == [1, 3, 6, 7, 9, 10, 12, 14, 16]
#guard hits " :IN-\\72 ange/**/" == [0, 2, 4, 5, 8, 17]
#guard hits ":OUT-OF-RANGE" == [1, 3, 6, 7, 9, 10, 12, 14, 16]
-- the XHTML document parsed as XML (`BeautifulSoup(x, 'xml')`; real soupsieve: `:in-range` [], `:out-of-range` [1])
#guard xhits ":in-range" == []
#guard xhits ":out-of-range" == [1]

end SoupVerif.AuditC18Parse
