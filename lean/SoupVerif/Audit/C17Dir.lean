/-
  Audit of C17Dir: axioms of every theorem, and non-vacuity on a concrete document whose expected
  results were produced by the real soupsieve (after fix 3d120b6, html.parser):

    <html><body><div id="a" dir="auto"><iframe><html><body><p>א</p></body></html></iframe></div>
    <iframe id="b" dir="auto"><html><body><p>א</p></body></html></iframe>
    <div id="c" dir="auto"><span>א</span></div></body></html>          (one line in the real run)

    find_bidi(#a) = None, find_bidi(#b) = None, find_bidi(#c) = 64 (SEL_DIR_RTL)
    :dir(rtl) = [[0,0,2],[0,0,2,0]]
-/
import SoupVerif.Properties.C17Dir
import SoupVerif.Properties.C17
open SoupVerif
#print axioms C17Dir.findBidi_iframe
#print axioms C17Dir.findBidi_iframe_elem
#print axioms C17Dir.findBidi_not_iframe
#print axioms C17Dir.isIframe_tagName
#print axioms C17Dir.findBidiKids_skip_iframe
#print axioms C17Dir.findBidiKids_skip_isIframe
#print axioms C17Dir.findBidiKids_outside
#print axioms C17Dir.findBidi_outside
#print axioms C17Dir.EqOut.refl
#print axioms C17Dir.EqOutL.refl
#print axioms C17Dir.EqOut.of_isIframe
#print axioms C17Dir.EqOutL.replace
#print axioms C17Dir.EqOutL.plug
#print axioms C17Dir.findBidi_replace_iframe_content

namespace SoupVerif.AuditC17Dir
open C17 C17Dir

/-- `unicodedata.bidirectional`: ASCII letters 'L', Hebrew alef 'R'. -/
def E1 : Env :=
  { env := asciiEnv,
    bidi := fun ch => if ch == 0x5D0 then 2 else if (65 ≤ ch && ch ≤ 90) || (97 ≤ ch && ch ≤ 122) then 1 else 0,
    wildStrip := id }
def mkAttr (kv : String × String) : Attr := { key := kv.1.toStr, kns := none, kname := none, val := .str kv.2.toStr }
def el (n : String) (attrs : List (String × String)) (kids : List Node) : Node :=
  .elem { isDoc := false, name := n.toStr, pfx := none, ns := none, attrs := attrs.map mkAttr } kids
def docN (kids : List Node) : Node :=
  .elem { isDoc := true, name := "[document]".toStr, pfx := none, ns := none, attrs := [] } kids

def inner : Node := el "html" [] [el "body" [] [el "p" [] [.str .text [0x5D0]]]]
def tree : Node := docN [el "html" [] [el "body" [] [
  el "div" [("id", "a"), ("dir", "auto")] [el "iframe" [] [inner]],
  el "iframe" [("id", "b"), ("dir", "auto")] [inner],
  el "div" [("id", "c"), ("dir", "auto")] [el "span" [] [.str .text [0x5D0]]]]]]
def top : Loc := ⟨tree, []⟩
def ctx : Ctx := mkCtx E1 false [] top
def at? (p : List Nat) : Option Loc := (Doc.mk false tree).locAt? p
def run (s : SelList) : List (List Nat) := (select E1 false [] s top 0).map Loc.pos

-- `findBidiKids` is defined by well-founded recursion and does not reduce in the kernel; the concrete
-- values below are evaluated by the compiled model (`#guard`), they are checks, not theorems.
-- the real soupsieve: find_bidi(#a) = None, find_bidi(#b) = None, find_bidi(#c) = SEL_DIR_RTL
#guard (at? [0,0,0]).map (findBidi ctx) == some none
#guard (at? [0,0,1]).map (findBidi ctx) == some none
#guard (at? [0,0,2]).map (findBidi ctx) == some (some SEL_DIR_RTL)
-- (a) is not vacuous: #b is an iframe, and its content does have a strong character
example : (at? [0,0,1]).map ctx.locIsIframe = some true := by decide +kernel
#guard findBidiKids ctx [inner] == some SEL_DIR_RTL
-- (b)/(c) are not vacuous: the iframe child of #a holds RTL text, an empty iframe gives the same scan
#guard findBidiKids ctx [el "iframe" [] [inner]] == none
#guard findBidiKids ctx [el "div" [] [inner]] == some SEL_DIR_RTL
-- the real soupsieve: `:dir(rtl)` selects #c and its span only
#guard run (dirList SEL_DIR_RTL) == [[0,0,2],[0,0,2,0]]
#guard run (dirList SEL_DIR_LTR) == [[0],[0,0],[0,0,0],[0,0,0,0],[0,0,0,0,0],[0,0,0,0,0,0],[0,0,0,0,0,0,0],
    [0,0,1],[0,0,1,0],[0,0,1,0,0],[0,0,1,0,0,0]]

end SoupVerif.AuditC17Dir
