import SoupVerif.Properties.C19Rx
open SoupVerif
#print axioms C19Rx.matchEmptyRx_eq
#print axioms C19Rx.text_test_rx
#print axioms C19Rx.class_split_rx
#print axioms Refine.Misc.not_empty_search
#print axioms Refine.Misc.not_empty_search_pos
#print axioms Refine.Misc.not_ws_findall
