import SoupVerif.Properties.C09Compile
open SoupVerif
#print axioms C09Compile.compile_eq_denote
#print axioms C09Compile.compile_spelling_invariant_partial
#print axioms C09Compile.run_list
#print axioms C09Compile.run_compound
#print axioms C09Compile.run_item
#print axioms C09Compile.exampleA_ok
#print axioms C09Compile.exampleB_ok
