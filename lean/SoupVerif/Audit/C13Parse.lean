import SoupVerif.Properties.C13Parse
open SoupVerif
#print axioms C13Parse.matchSel_langSel
#print axioms C13Parse.freeze_lang
#print axioms C13Parse.denote_lang
#print axioms C13Parse.matchLang_one
#print axioms C13Parse.lang_text
#print axioms C13Parse.lang_text_api
/-! Non-vacuity -/
#print axioms C13Parse.Examples.lang_loc
#print axioms C13Parse.Examples.langP_ok
#print axioms C13Parse.Examples.langFr_ok
