/-
  Audit of C11GenAttrSel: the decisions of `CSSParser.parse_attribute_selector` regenerated from the source
  (`Generated/PyAttrSel.lean`: flags chain, operator / template chain, `:not()` nesting, second pattern) = the hand-written
  model (`Parser.parseAttribute`, `Parser.attrPattern`); C11's case rule and C01Attr's rules restated about them.
-/
import SoupVerif.Properties.C11GenAttrSel
open SoupVerif

#print axioms C11GenAttrSel.gen_flagsOf
#print axioms C11GenAttrSel.attrPattern_eq_instantiate
#print axioms C11GenAttrSel.gen_decisionOf
#print axioms C11GenAttrSel.gen_templateOf
#print axioms C11GenAttrSel.gen_inverseOf
#print axioms C11GenAttrSel.gen_decisionOf_none
#print axioms C11GenAttrSel.gen_pattern
#print axioms C11GenAttrSel.gen_valueQuoted
#print axioms C11GenAttrSel.gen_pattern2Of
#print axioms C11GenAttrSel.gen_pattern2
#print axioms C11GenAttrSel.parseAttribute_eq_gen
#print axioms C11GenAttrSel.gen_dotAll
#print axioms C11GenAttrSel.gen_ignoreCase
#print axioms C11GenAttrSel.gen_lits_case_rule
#print axioms C11GenAttrSel.gen_ne_rule
#print axioms C11GenAttrSel.gen_inverse_iff
#print axioms C11GenAttrSel.gen_empty_rule
#print axioms C11GenAttrSel.gen_word_rule
#print axioms C11GenAttrSel.gen_pattern_sem
#print axioms C11GenAttrSel.templateStrings_keys
