import SoupVerif.Properties.C20Gen
open SoupVerif
#print axioms C20Gen.getPatternContextGen_eq
#print axioms C20Gen.getPatternContextGen_eq_rx
#print axioms C20Gen.loopRegex_eq
#print axioms C20Gen.step_rel
#print axioms C20Gen.fold_rel
#print axioms C20Gen.ctx_line_gen
#print axioms C20Gen.ctx_col_gen
#print axioms C20Gen.ctx_position_gen
#print axioms C20Gen.ctx_text_gen
