import SoupVerif.Properties.C18GenRange
open SoupVerif
#print axioms C18.six_eq
#print axioms C18.time_not_six
#print axioms C18.rangeDecision_eq_hand
#print axioms C18.flag_eq
#print axioms C18.rangeDecisionCond_eq_hand
#print axioms C18.rangeDecision_no_bounds
#print axioms C18.matchRangeE_hand
#print axioms C18.matchRangeE_gen
#print axioms C18.matchRangeE_gen_ok
#print axioms C18.range_def_gen
#print axioms C18.range_def_gen_parsed
#print axioms C18.range_missing_value_gen
#print axioms C18.range_time_wrap_gen
#print axioms C18.range_time_plain_gen
