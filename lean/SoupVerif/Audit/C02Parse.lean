/-
  Audit of C02Parse: axioms of every theorem; non-vacuity (concrete texts with their `Spelled` proofs,
  instances of the end-to-end theorems); the accepted / rejected An+B spellings on the parser model; the
  keyword records; and the text → parser model → matcher model chain on a concrete document, against the
  values produced by the real soupsieve (html.parser):

    <div><p></p>text<span></span><p class="x"></p><!--c--><p></p><span class="x"></span></div>

    :NTH-child( 2N + 1 )                        [[0],[0,0],[0,3],[0,6]]
    :nth-last-child(-n/**/+ 2)                  [[0],[0,5],[0,6]]
    :nth-of-type(+02)                           [[0,3],[0,6]]
    :nth-last-of-type(n+2)                      [[0,0],[0,2],[0,3]]
    :nth-child(2 of .x)                         [[0,6]]
    :nth-last-child(-2n+3 of p)                 [[0,0],[0,5]]
    div > p:nth-child(even)                     [[0,5]]
    :n\74h-child(odd)                           [[0],[0,0],[0,3],[0,6]]
    div>:nth-child(-n+3):nth-last-child(n+4)    [[0,0],[0,2]]
    :NTH-LAST-OF-TYPE(ODD)                      [[0],[0,0],[0,5],[0,6]]
    p:nth-child(-5), :nth-child(0n+0)           []
    :first-of-type                              [[0],[0,0],[0,2]]
    span:first-of-type, span:nth-of-type(1)     [[0,2]]
    :only-of-type, :only-child, :nth-child(1):nth-last-child(0n+1)    [[0]]
-/
import SoupVerif.Properties.C02Parse
import SoupVerif.Model.Api
open SoupVerif

/-! Stage 1–2: the CSS value of An+B and `parse_pseudo_nth` -/
#print axioms Refine.C02Parse.foldl_dec
#print axioms Refine.C02Parse.parseInt_neg
#print axioms Refine.C02Parse.parseInt_pos
#print axioms Refine.C02Parse.sign_prefix
#print axioms Refine.C02Parse.parseAnB_canon_lin
#print axioms Refine.C02Parse.parseAnB_canon_eq
#print axioms Refine.C02Parse.parseAnB_text_eq
#print axioms Refine.C02Parse.anbValue_noN
#print axioms Refine.C02Parse.parse_anb_value
#print axioms Refine.C02Parse.parse_anb_value_text

/-! Stage 3: from the builder to the matcher -/
#print axioms Refine.C02Parse.NthExt.item
#print axioms Refine.C02Parse.NthExt.items
#print axioms Refine.C02Parse.NthExt.insert
#print axioms Refine.C02Parse.NthExt.insertL
#print axioms Refine.C02Parse.matchNths_append
#print axioms Refine.C02Parse.matchSel_freeze_ext
#print axioms Refine.C02Parse.denote_single
#print axioms Refine.C02Parse.denote_selV
#print axioms Refine.C02Parse.matchList_insert
#print axioms Refine.C02Parse.matchList_insertL
#print axioms Refine.C02Parse.denote_congrL
#print axioms Refine.C02Parse.nthBuild_eq
#print axioms Refine.C02Parse.addsNth_nth
#print axioms Refine.C02Parse.addsNth_nthOf
#print axioms Refine.C02Parse.plainPseudo_kw
#print axioms Refine.C02Parse.addsNth_kw
#print axioms Refine.C02Parse.matchNth_designates
#print axioms Refine.C02Parse.matchList_default
#print axioms Refine.C02Parse.counted_default
#print axioms Refine.C02Parse.position_default
#print axioms Refine.C02Parse.matchNth_default
#print axioms Refine.C02Parse.matchNth_one
#print axioms Refine.C02Parse.nthRecord_one
#print axioms Refine.C02Parse.nthRecord_one_ofType

/-! Main theorems -/
#print axioms C02Parse.compile_text
#print axioms C02Parse.compile_insert
#print axioms C02Parse.nth_text_iff
#print axioms C02Parse.nth_text_iff'
#print axioms C02Parse.nth_of_text_iff
#print axioms C02Parse.matchList_rest_tagOnly
#print axioms C02Parse.type_nth_text_iff
#print axioms C02Parse.keyword_text_iff
#print axioms C02Parse.nthOnes_records
#print axioms C02Parse.nthOneInts_records
#print axioms C02Parse.keyword_eq_nth_text
#print axioms C02Parse.keyword_oftype_compile_eq

open SoupVerif.Parser Escape Spelling Refine.Compile Refine.C02Parse C02Site C02Parse
open C09Compile (identOK SItem SCompound SSelList SComb STag itemsValue restValue renderItems renderRest
  itemsOK restOK plainName Item Compound SelListV denote finishNested applyItems)

namespace AuditC02Parse

/-! ## Non-vacuity of the end-to-end theorems -/

def lits (s : String) : C09Compile.Forms := s.toStr.map fun c => (c, EscForm.lit)

/-- `2N + 1`, `-n+3`, `+1`, `01`, `0n+1` -/
def x21 : SAnB := .lin none [50] (some 78) (some ([32], 43, [32], [49]))
def xNeg : SAnB := .lin (some 45) [] (some 110) (some ([], 43, [], [51]))
def xP1 : SAnB := .lin (some 43) [49] none none
def x01 : SAnB := .lin none [48, 49] none none
def x0n1 : SAnB := .lin none [48] (some 110) (some ([], 43, [], [49]))
theorem x21_ok : x21.ok := by simp +decide [x21, SAnB.ok, tailOK]
theorem xNeg_ok : xNeg.ok := by simp +decide [xNeg, SAnB.ok, tailOK]
theorem xP1_ok : xP1.ok := by simp +decide [xP1, SAnB.ok, tailOK]
theorem x01_ok : x01.ok := by simp +decide [x01, SAnB.ok, tailOK]
theorem x0n1_ok : x0n1.ok := by simp +decide [x0n1, SAnB.ok, tailOK]
example : anbValue x21 = (2, 1) ∧ anbValue xNeg = (-1, 3) ∧ anbValue xP1 = (0, 1) ∧ anbValue x01 = (0, 1) ∧
    anbValue x0n1 = (0, 1) := by decide

def liTag : Option STag := some (.name (lits "li"))
def pTag : Option STag := some (.name (lits "p"))

/-- `li:NTH-child( 2N + 1 ) ` — a single compound, between an empty gap and a space. -/
def it1 : SItem := .nth (lits "NTH-child") [32] x21 [32]
theorem sp1 : Spelled none liTag [it1] [] [32] := by
  refine ⟨by decide, by decide, ?_, by decide⟩
  simp +decide [selOf, liTag, it1, SSelList.ok, SCompound.ok, restOK, itemsOK, SItem.ok, STag.ok, identOK,
    nthChildName, x21_ok]
theorem text1 : textOf none liTag [it1] [] [32] = "li:NTH-child( 2N + 1 ) ".toStr := by decide

/-- Instance of `type_nth_text_iff`. -/
example : ∃ sl, Parser.compile pyFoldEnv Gen.lexicon Gen.builtinsRec "li:NTH-child( 2N + 1 ) ".toStr [] 0 = .ok sl ∧
    ∀ (c : Ctx) (l : Loc) (e : Elem), l.elem? = some e →
      (matchList c l e sl = true ↔
        matchTag c e (some ⟨"li".toStr, none⟩) = true ∧
        ∃ n : Nat, 2 * (n : Int) + 1 = ((position c l e false false noOf : Nat) : Int)) := by
  rw [← text1]
  exact type_nth_text_iff [] [32] liTag (lits "NTH-child") [32] x21 [32] .child (by decide) sp1

/-- `ul > li:nth-last-of-type(-n+3).x` — behind a context, with another simple selector after it. -/
def cxUl : Cx := some (.mk (some (.name (lits "ul"))) [], [], .sym [32] 62 [32])
theorem cxUl_nc : NoComma cxUl := ⟨by simp [restValue], by decide⟩
def it2 : SItem := .nth (lits "nth-last-of-type") [] xNeg []
def clsX : SItem := .cls (lits "x")
theorem sp2 : Spelled cxUl liTag ([] ++ [it2] ++ [clsX]) [] [] := by
  refine ⟨by decide, by decide, ?_, by decide⟩
  simp +decide [selOf, cxUl, liTag, it2, clsX, SSelList.ok, SCompound.ok, restOK, itemsOK, SItem.ok, STag.ok,
    identOK, nthTypeName, SComb.ok, xNeg_ok]
theorem text2 : textOf cxUl liTag ([] ++ [it2] ++ [clsX]) [] [] = "ul > li:nth-last-of-type(-n+3).x".toStr := by
  decide

/-- Instance of `nth_text_iff'`. -/
example : ∃ sl, Parser.compile pyFoldEnv Gen.lexicon Gen.builtinsRec "ul > li:nth-last-of-type(-n+3).x".toStr [] 0
      = .ok sl ∧
    ∀ (c : Ctx) (l : Loc) (e : Elem), l.elem? = some e →
      (matchList c l e sl = true ↔
        matchList c l e (denote Gen.builtinsRec (restV cxUl liTag [] [clsX])) = true ∧
        ∃ n : Nat, (-1) * (n : Int) + 3 = ((position c l e true true noOf : Nat) : Int)) := by
  rw [← text2]
  exact nth_text_iff' [] [] cxUl cxUl_nc liTag [] [clsX] (lits "nth-last-of-type") [] xNeg [] .lastOfType
    (by decide) sp2

/-- … whose first conjunct is about what `ul > li.x` compiles to. -/
example : Parser.compile pyFoldEnv Gen.lexicon Gen.builtinsRec "ul > li.x".toStr [] 0 =
    .ok (denote Gen.builtinsRec (restV cxUl liTag [] [clsX])) := by
  have h : Spelled cxUl liTag [clsX] [] [] := by
    refine ⟨by decide, by decide, ?_, by decide⟩
    simp +decide [selOf, cxUl, liTag, clsX, SSelList.ok, SCompound.ok, restOK, itemsOK, SItem.ok, STag.ok,
      identOK, SComb.ok]
  have e : textOf cxUl liTag [clsX] [] [] = "ul > li.x".toStr := by decide
  rw [← e]
  exact compile_text Gen.builtinsRec h

/-- `p:ONLY-of-type` and `p:nth-of-type(+1):NTH-last-of-type( 01 )` compile to the same structure. -/
def kwOnly : SItem := .pseudo (lits "ONLY-of-type")
def nA : SItem := .nth (lits "nth-of-type") [] xP1 []
def nB : SItem := .nth (lits "NTH-last-of-type") [32] x01 [32]
theorem sp3 : Spelled none pTag ([] ++ [kwOnly] ++ []) [] [] := by
  refine ⟨by decide, by decide, ?_, by decide⟩
  simp +decide [selOf, pTag, kwOnly, SSelList.ok, SCompound.ok, restOK, itemsOK, SItem.ok, STag.ok, identOK, plainName]
theorem sp3' : Spelled none pTag ([] ++ [nA, nB] ++ []) [] [] := by
  refine ⟨by decide, by decide, ?_, by decide⟩
  simp +decide [selOf, pTag, nA, nB, SSelList.ok, SCompound.ok, restOK, itemsOK, SItem.ok, STag.ok, identOK,
    nthTypeName, xP1_ok, x01_ok]

example : Parser.compile pyFoldEnv Gen.lexicon Gen.builtinsRec "p:ONLY-of-type".toStr [] 0 =
    Parser.compile pyFoldEnv Gen.lexicon Gen.builtinsRec "p:nth-of-type(+1):NTH-last-of-type( 01 )".toStr [] 0 := by
  have e1 : textOf none pTag ([] ++ [kwOnly] ++ []) [] [] = "p:ONLY-of-type".toStr := by decide
  have e2 : textOf none pTag ([] ++ [nA, nB] ++ []) [] [] = "p:nth-of-type(+1):NTH-last-of-type( 01 )".toStr := by
    decide
  rw [← e1, ← e2]
  exact keyword_oftype_compile_eq Gen.builtinsRec [] [] [] [] none none rfl pTag pTag [] [] [] []
    (lits "ONLY-of-type") .onlyOfType (by decide) [nA, nB]
    (.cons ⟨_, _, _, _, rfl, by decide, by decide, by decide, rfl⟩
      (.cons ⟨_, _, _, _, rfl, by decide, by decide, by decide, rfl⟩ .nil))
    rfl rfl rfl sp3 sp3'

/-- `p:first-child` and `p:nth-child(0n+1)` match the same elements. -/
def kwFirst : SItem := .pseudo (lits "first-child")
def nC : SItem := .nth (lits "nth-child") [] x0n1 []
theorem sp4 : Spelled none pTag ([] ++ [kwFirst] ++ []) [] [] := by
  refine ⟨by decide, by decide, ?_, by decide⟩
  simp +decide [selOf, pTag, kwFirst, SSelList.ok, SCompound.ok, restOK, itemsOK, SItem.ok, STag.ok, identOK, plainName]
theorem sp4' : Spelled none pTag ([] ++ [nC] ++ []) [] [] := by
  refine ⟨by decide, by decide, ?_, by decide⟩
  simp +decide [selOf, pTag, nC, SSelList.ok, SCompound.ok, restOK, itemsOK, SItem.ok, STag.ok, identOK,
    nthChildName, x0n1_ok]

example : ∃ sl sl',
    Parser.compile pyFoldEnv Gen.lexicon Gen.builtinsRec "p:first-child".toStr [] 0 = .ok sl ∧
    Parser.compile pyFoldEnv Gen.lexicon Gen.builtinsRec "p:nth-child(0n+1)".toStr [] 0 = .ok sl' ∧
    ∀ (c : Ctx) (l : Loc) (e : Elem), l.elem? = some e → matchList c l e sl = matchList c l e sl' := by
  have e1 : textOf none pTag ([] ++ [kwFirst] ++ []) [] [] = "p:first-child".toStr := by decide
  have e2 : textOf none pTag ([] ++ [nC] ++ []) [] [] = "p:nth-child(0n+1)".toStr := by decide
  rw [← e1, ← e2]
  exact keyword_eq_nth_text [] [] [] [] none none trivial trivial pTag pTag [] [] [] []
    (lits "first-child") .firstChild (by decide) [nC]
    (.cons ⟨_, _, _, _, rfl, by decide, by decide⟩ .nil) rfl sp4 sp4'

/-! ## Accepted and rejected spellings, on the parser model (compiled evaluation: checks, not theorems) -/

def compiles (s : String) : Bool :=
  match Parser.compile pyFoldEnv Gen.lexicon Gen.builtinsRec s.toStr [] 0 with
  | .ok _ => true
  | .error _ => false

/-- The nth records of the first compound of the compiled pattern: `(a, var, b, of_type, last, bool(of S))`. -/
def nthOfText (s : String) : List (Int × Bool × Int × Bool × Bool × Bool) :=
  match Parser.compile pyFoldEnv Gen.lexicon Gen.builtinsRec s.toStr [] 0 with
  | .ok (.mk (.mk _ _ _ _ nth _ _ _ _ _ _ :: _) _ _) =>
    nth.map fun | .mk a v b t l sels => (a, v, b, t, l, sels.nonEmpty)
  | _ => []

-- accepted, with the CSS value (the values of the real library: `(1, True, 3)`, `(1, True, 0)`, …)
#guard nthOfText ":nth-child(n+ 3)" == [(1, true, 3, false, false, true)]
#guard nthOfText ":nth-child(+n)" == [(1, true, 0, false, false, true)]
#guard nthOfText ":nth-child(-n- 1)" == [(-1, true, -1, false, false, true)]
#guard nthOfText ":nth-child(+007n-08)" == [(7, true, -8, false, false, true)]
#guard nthOfText ":nth-child(n/**/+/**/3)" == [(1, true, 3, false, false, true)]
#guard nthOfText ":nth-last-of-type(007)" == [(7, false, 0, true, true, false)]
#guard nthOfText ":nth-of-type(EVEN)" == [(2, true, 0, true, false, false)]
-- rejected (as by CSS)
#guard compiles ":nth-child(- n)" == false
#guard compiles ":nth-child(+ n)" == false
#guard compiles ":nth-child(3 n)" == false
#guard compiles ":nth-child(+ 5)" == false
#guard compiles ":nth-child(2n+-1)" == false
#guard compiles ":nth-child(2n + + 1)" == false
#guard compiles ":nth-child(1 + 2)" == false
#guard compiles ":nth-child(n2)" == false
-- rejected although CSS accepts it: escapes inside the An+B argument
#guard compiles ":nth-child(e\\76 en)" == false

/-! ## The keyword records (item 4): identical for `-of-type`, different in `of S` for `-child` -/

#guard nthOfText ":first-of-type" == nthOfText ":nth-of-type(1)"
#guard nthOfText ":only-of-type" == nthOfText ":nth-of-type(1):nth-last-of-type(1)"
#guard nthOfText ":first-child" == [(1, false, 0, false, false, false)]
#guard nthOfText ":nth-child(1)" == [(1, false, 0, false, false, true)]
#guard nthOfText ":only-child" == [(1, false, 0, false, false, false), (1, false, 0, false, true, false)]
#guard nthOfText ":nth-child(1):nth-last-child(1)" == [(1, false, 0, false, false, true), (1, false, 0, false, true, true)]

/-! ## Text → parser model → matcher model on a document, against the real soupsieve -/

def E0 : Env := { env := asciiEnv, bidi := fun _ => 0, wildStrip := id }
def mkAttr (kv : String × String) : Attr := { key := kv.1.toStr, kns := none, kname := none, val := .str kv.2.toStr }
def el (n : String) (attrs : List (String × String)) (kids : List Node) : Node :=
  .elem { isDoc := false, name := n.toStr, pfx := none, ns := none, attrs := attrs.map mkAttr } kids
def docN (kids : List Node) : Node :=
  .elem { isDoc := true, name := "[document]".toStr, pfx := none, ns := none, attrs := [] } kids

def tree : Node := docN [el "div" [] [el "p" [] [], .str .text "text".toStr, el "span" [] [],
  el "p" [("class", "x")] [], .str .comment "c".toStr, el "p" [] [], el "span" [("class", "x")] []]]
def top : Loc := ⟨tree, []⟩
def ctx : Ctx := mkCtx E0 false [] top

/-- Every element of the document that the compiled text matches (`none` if it does not compile). -/
def run (s : String) : Option (List (List Nat)) :=
  match Parser.compile pyFoldEnv Gen.lexicon Gen.builtinsRec s.toStr [] 0 with
  | .ok sl => some (((ctx.tagDescendants top false).filter fun l =>
      match l.elem? with
      | some e => matchList ctx l e sl
      | none => false).map Loc.pos)
  | .error _ => none

/-- The same through the right-hand side of `type_nth_text_iff` (no type selector: the implied `*`). -/
def runSpec (A B : Int) (ofType last : Bool) : List (List Nat) :=
  ((ctx.tagDescendants top false).filter fun l =>
    match l.elem? with
    | some e => matchTag ctx e (some ⟨[42], none⟩) && NthSpec.nthSatB A B (position ctx l e ofType last noOf)
    | none => false).map Loc.pos

-- the values of the real soupsieve (compiled evaluation of the models: checks, not theorems)
#guard run ":NTH-child( 2N + 1 )" == some [[0],[0,0],[0,3],[0,6]]
#guard run ":nth-last-child(-n/**/+ 2)" == some [[0],[0,5],[0,6]]
#guard run ":nth-of-type(+02)" == some [[0,3],[0,6]]
#guard run ":nth-last-of-type(n+2)" == some [[0,0],[0,2],[0,3]]
#guard run ":nth-child(2 of .x)" == some [[0,6]]
#guard run ":nth-last-child(-2n+3 of p)" == some [[0,0],[0,5]]
#guard run "div > p:nth-child(even)" == some [[0,5]]
#guard run ":n\\74h-child(odd)" == some [[0],[0,0],[0,3],[0,6]]
#guard run "div>:nth-child(-n+3):nth-last-child(n+4)" == some [[0,0],[0,2]]
#guard run ":NTH-LAST-OF-TYPE(ODD)" == some [[0],[0,0],[0,5],[0,6]]
#guard run "p:nth-child(-5)" == some []
#guard run ":nth-child(0n+0)" == some []
#guard run ":first-of-type" == some [[0],[0,0],[0,2]]
#guard run "span:first-of-type" == some [[0,2]]
#guard run "span:nth-of-type(1)" == some [[0,2]]
#guard run ":only-of-type" == some [[0]]
#guard run ":only-child" == some [[0]]
#guard run ":nth-child(1):nth-last-child(0n+1)" == some [[0]]
-- and of the right-hand sides of the theorems, with `(A, B) = anbValue x`
#guard runSpec 2 1 false false == [[0],[0,0],[0,3],[0,6]]
#guard runSpec (-1) 2 false true == [[0],[0,5],[0,6]]
#guard runSpec 0 2 true false == [[0,3],[0,6]]
#guard runSpec 1 2 true true == [[0,0],[0,2],[0,3]]
#guard runSpec 2 1 true true == [[0],[0,0],[0,5],[0,6]]
#guard runSpec 0 0 false false == []

end AuditC02Parse
