import SoupVerif.Properties.C12Parse
open SoupVerif

/-! Helpers (`Refine/NsParseBase.lean`) -/
#print axioms NsParse.denote_one
#print axioms NsParse.compile_one
#print axioms NsParse.matchEl_mkB
#print axioms NsParse.applyAttr_mkB
#print axioms NsParse.partsOk_attr
#print axioms NsParse.denote_tag_ns
#print axioms NsParse.denote_attr_ns

/-! The compound, the C12 reading -/
#print axioms C12Parse.value_attrV
#print axioms C12Parse.applyItems_attrs
#print axioms C12Parse.partsOk_addAttrs
#print axioms C12Parse.compound_compile_match
#print axioms C12Parse.matchTagname_iff
#print axioms C12Parse.matchNamespace_iff
#print axioms C12Parse.matchTag_implTag_iff
#print axioms C12Parse.values_eq_designated
#print axioms C12Parse.satAttr_iff
#print axioms C12Parse.designates_no_ns
#print axioms C12Parse.designates_bare
#print axioms C12Parse.designates_any
#print axioms C12Parse.designates_unmapped
#print axioms C12Parse.designates_ns_empty
#print axioms C12Parse.designates_ns

/-! Main theorems -/
#print axioms C12Parse.compound_text
#print axioms C12Parse.type_text
#print axioms C12Parse.ns_type_text
#print axioms C12Parse.any_type_text
#print axioms C12Parse.none_type_text
#print axioms C12Parse.bare_type_text
#print axioms C12Parse.any_universal_text
#print axioms C12Parse.attr_text
#print axioms C12Parse.attr_ns_text
#print axioms C12Parse.attr_ns_unmapped_text
#print axioms C12Parse.attr_ns_empty_text
#print axioms C12Parse.attr_any_text
#print axioms C12Parse.attr_none_text
#print axioms C12Parse.attr_bare_text
#print axioms C12Parse.attr_no_ns_support_text

/-! Non-vacuity -/
#print axioms C12Parse.Examples.anyHref_ok
#print axioms C12Parse.Examples.passes_w
