/-
  Audit of C12GenAttr: the generator `CSSMatch.match_attribute_name` regenerated from the source
  (`Generated/PyAttrName.lean`: prologue, per-attribute decisions of the two loops, frame) = the hand-written
  model (`matchAttributeValues`, `C12Parse.designates`).
-/
import SoupVerif.Properties.C12GenAttr
open SoupVerif

#print axioms C12GenAttr.gen_prefixLookup
#print axioms C12GenAttr.gen_prefixLookup_none
#print axioms C12GenAttr.gen_prefixLookup_nsOf
#print axioms C12GenAttr.gen_designates_ns
#print axioms C12GenAttr.gen_designatesPlain
#print axioms C12GenAttr.gen_designates
#print axioms C12GenAttr.gen_designates_plain
#print axioms C12GenAttr.pyYieldLoop_bool
#print axioms C12GenAttr.gen_match_attribute_name_designates
#print axioms C12GenAttr.gen_match_attribute_name
#print axioms C12GenAttr.values_eq_gen_selected
#print axioms C12GenAttr.values_nil_of_gen_ret
#print axioms C12GenAttr.values_eq_gen_selected_plain
#print axioms C12GenAttr.gen_none_prefix
#print axioms C12GenAttr.gen_designates_nameless_raises
#print axioms C12GenAttr.gen_attr_ns_values
#print axioms C12GenAttr.gen_attr_ns_empty_values
#print axioms C12GenAttr.gen_attr_ns_empty_values_eq_bare
#print axioms C12GenAttr.gen_attr_ns_unmapped_values
#print axioms C12GenAttr.gen_attr_any_values
#print axioms C12GenAttr.gen_attr_bare_values
#print axioms C12GenAttr.gen_attr_no_ns_support_values
