import SoupVerif.Properties.C06Gen
open SoupVerif
#print axioms C06Gen.gen_replace_group1
#print axioms C06Gen.gen_replace_group2
#print axioms C06Gen.gen_replace_group3
#print axioms C06Gen.gen_replace_none
#print axioms C06Gen.gen_replace_eq
#print axioms C06Gen.subWith_go_congr
#print axioms C06Gen.realGroups_of_matchAt
#print axioms C06Gen.cssUnescape_eq_gen
#print axioms C06Gen.gen_escapes_consume
#print axioms C06Gen.cssUnescape_generated
#print axioms C06Gen.gen_replace_valid
#print axioms C06Gen.gen_replace_valid_content
#print axioms C06Gen.unescape_total
#print axioms C06Gen.gen_replace_group1_FFFD
#print axioms CapsReal.runs_pos
#print axioms CapsReal.matchAt_capSpan_pos
