import SoupVerif.Properties.C13GenWalk
open SoupVerif
#print axioms C13GenWalk.forBreak_set
#print axioms C13GenWalk.forBreak_all
#print axioms C13GenWalk.langsTest_eq
#print axioms C13GenWalk.langsTest_nil
#print axioms C13GenWalk.matchLang_eq_langsTest
#print axioms C13GenWalk.gen_matchLang_one
#print axioms C13GenWalk.gen_matchLang_langRun
#print axioms C13GenWalk.langAttrTest_eq
#print axioms C13GenWalk.langScan_eq
#print axioms C13GenWalk.langScan_empty_value
#print axioms C13GenWalk.langNoIframe_eq
#print axioms C13GenWalk.ancestors_unfold
#print axioms C13GenWalk.parent_depth
#print axioms C13GenWalk.langScanAt_eq
#print axioms C13GenWalk.walk_spec
#print axioms C13GenWalk.langWalkRun_eq
#print axioms C13GenWalk.langOf_eq_walk
