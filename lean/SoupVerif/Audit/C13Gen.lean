import SoupVerif.Properties.C13Gen
open SoupVerif
#print axioms C13Gen.getItem_nat
#print axioms C13Gen.getItem_len
#print axioms C13Gen.whileLoop_done
#print axioms C13Gen.whileLoop_step
#print axioms C13Gen.loop_spec
#print axioms C13Gen.langRun_eq_runOn
#print axioms C13Gen.runOn_eq_filterCore
#print axioms C13Gen.langSplit_eq
#print axioms C13Gen.langRun_eq_filterCore
#print axioms C13Gen.langRun_eq_extendedFilter
#print axioms C13Gen.langRun_eq_c13
#print axioms C13Gen.langRun_case_insensitive
#print axioms C13Gen.langStep_mono
#print axioms C13Gen.langInit_state
#print axioms C13Gen.getItem_error_iff
