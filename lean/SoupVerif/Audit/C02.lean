import SoupVerif.Properties.C02

#print axioms SoupVerif.NthSpec.nthSatB_iff
#print axioms SoupVerif.C02.posOf_wellformed
#print axioms SoupVerif.C02.matchOne_iff
#print axioms SoupVerif.C02.matchOne_iff'
#print axioms SoupVerif.C02.matchOne_const
#print axioms SoupVerif.C02.matchOne_spec
#print axioms SoupVerif.C02.uncounted_irrelevant
#print axioms SoupVerif.C02.uncounted_insert
#print axioms SoupVerif.C02.keyword_forms
