/-
  Audit of C01GenMatch: the chain / loop / frame of `match_selectors` regenerated from the source
  (`Generated/PyMatchSel.lean`) = the hand-written model.
-/
import SoupVerif.Properties.C01GenMatch
open SoupVerif

#print axioms C01GenMatch.applyTest_isSome
#print axioms C01GenMatch.runCheck_eq_holds
#print axioms C01GenMatch.runChecks_eq_all
#print axioms C01GenMatch.runChecks_perm
#print axioms C01GenMatch.gen_checks_wellTyped
#print axioms C01GenMatch.gen_checks_eq_matchSel
#print axioms C01GenMatch.gen_checks_eq_matchSel_mk
#print axioms C01GenMatch.loop_eq
#print axioms C01GenMatch.gen_loop_eq
#print axioms C01GenMatch.gen_frame_eq_matchList
#print axioms C01GenMatch.genMatchList_eq
#print axioms C01GenMatch.genCtxAfter_eq
#print axioms C01GenMatch.genMatchEl_eq
#print axioms C01GenMatch.gen_checks_eq_sat
#print axioms C01GenMatch.gen_matchEl_eq_spec
#print axioms C01GenMatch.gen_match_refuses_doc
