import SoupVerif.Properties.C07
open SoupVerif
#print axioms C07.ends_nodup
#print axioms C07.iter_nodup
#print axioms C07.det_paths_le
#print axioms C07.paths_le
#print axioms C07.paths_le_work
#print axioms C07.work_poly
#print axioms C07.asciiEnv_ok
#print axioms C07.pyFoldEnv_ok
#print axioms C07.all_safe_ascii
#print axioms C07.all_safe_py
#print axioms C07.all_safe
#print axioms C07.consts_closed
#print axioms C07.tokenize_poly_of
#print axioms C07.tokenize_paths_poly_of
#print axioms C07.tokenize_poly
#print axioms C07.tokenize_poly_py
#print axioms C07.tokenize_poly_nosp
#print axioms C07.tokenize_poly_ascii
#print axioms C07.tokenize_paths_poly
#print axioms C07.tokenize_paths_poly_py
#print axioms C07.tokenize_paths_poly_ascii
