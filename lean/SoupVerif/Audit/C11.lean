import SoupVerif.Properties.C11
open SoupVerif
#print axioms C11.lower_idem
#print axioms C11.caseEq_equivalence
#print axioms C11.caseEq_lower
#print axioms C11.html_tag_fold
#print axioms C11.html_tag_fold_elem
#print axioms C11.html_tag_iff
#print axioms C11.xml_tag_exact
#print axioms C11.html_matchTag_fold
#print axioms C11.xml_tag_case_sensitive_witness
#print axioms C11.html_attr_values_lower
#print axioms C11.html_attr_name_lower
#print axioms C11.html_attr_values_fold
#print axioms C11.html_attr_name_fold
#print axioms C11.html_attr_values_fold_doc
#print axioms C11.html_attr_name_fold_doc
#print axioms C11.str_beq_comm
#print axioms C11.name_of_values
#print axioms C11.xml_attr_values_exact
#print axioms C11.xml_attr_name_exact
#print axioms C11.xml_attr_values_empty_exact
#print axioms C11.xml_attr_name_empty_exact
#print axioms C11.xml_attr_values_bare_exact
#print axioms C11.xml_attr_bare_exact
#print axioms C11.xml_attr_values_any_exact
#print axioms C11.xml_attr_any_exact
#print axioms C11.attrByName_html
#print axioms C11.attrByName_xml
#print axioms C11.attrByName_html_fold_doc
#print axioms C11.matchId_value_exact
#print axioms C11.xml_type_pattern_choice
#print axioms C11.matchAttributes_nil
#print axioms C11.matchAttributes_append
#print axioms C11.html_uses_pattern
#print axioms C11.xml_uses_type_pattern
#print axioms C11.lit_ic_fold
#print axioms C11.lit_exact
#print axioms C11.runs_lit
#print axioms C11.runsSeq_lits
#print axioms C11.litsEq_exact
#print axioms C11.litsEq_ic
#print axioms C11.isMatch_seq
#print axioms C11.lits_match
#print axioms C11.lits_exact
#print axioms C11.lits_ic
#print axioms C11.lits_case_rule
#print axioms C11.bos_noop
#print axioms C11.value_eq_template
#print axioms C11.value_ic_invariant
#print axioms C11.value_exact_only
#print axioms C11.html_only_never_in_plain_xml
#print axioms C11.not_html_only
#print axioms C11.html_only_in_html
#print axioms C11.isHtml_def
#print axioms C11.isXml_def
#print axioms C11.hasHtmlNs_def
#print axioms C11.plain_xml_iff
#print axioms C11.hasHtmlNs_iff

/-! Non-vacuity: hypotheses are satisfiable on concrete contexts (closed examples live next to the
    theorems in `Properties/C11.lean`). -/
open C11 in
example : chtml.isXml = false ∧ cxml.isXml = true ∧ cxml.isHtml = false ∧ chtml.isHtml = true := by decide
open C11 in
example : matchTagname chtml (div []) ⟨"DIV".toStr, none⟩ = matchTagname chtml (div []) ⟨"div".toStr, none⟩ :=
  html_tag_fold chtml _ _ _ none (by decide) (by decide)
open C11 in
example : matchTagname chtml (div []) ⟨"DIV".toStr, none⟩ = true := by decide
open C11 in
example : Rx.isMatch asciiEnv (.seq (.bos :: ("Ab".toStr.map (Rx.lit · true) ++ [.eos]))) "aB".toStr = true := by
  rw [value_eq_template]; decide
open C11 in
example : Rx.isMatch asciiEnv (.seq (.bos :: ("Ab".toStr.map (Rx.lit · false) ++ [.eos]))) "aB".toStr = false := by
  rw [value_eq_template]; decide
open C11 in
example (l : Loc) (A : List Sel) (n : Bool) : matchList cxml l (div []) (.mk A n true) = false :=
  html_only_never_in_plain_xml cxml l _ A n (by decide)
