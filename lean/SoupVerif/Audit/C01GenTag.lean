/-
  Audit of C01GenTag: the leaf tests `match_namespace`, `match_tagname`, `match_tag`, `match_id`,
  `match_classes` regenerated from the source (`Generated/PyMatchSel.lean`) = the hand-written model.
-/
import SoupVerif.Properties.C01GenTag
open SoupVerif

#print axioms C01GenTag.gen_match_namespace
#print axioms C01GenTag.gen_match_tagname
#print axioms C01GenTag.gen_match_tag
#print axioms C01GenTag.pyAnyList_bool
#print axioms C01GenTag.gen_match_id
#print axioms C01GenTag.gen_match_classes
#print axioms C01GenTag.gen_leaves_in_chain
#print axioms C01GenTag.gen_match_tag_some
#print axioms C01GenTag.gen_match_tag_none
