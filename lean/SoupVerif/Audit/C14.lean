import SoupVerif.Properties.C14
open SoupVerif
#print axioms C14.stepThread_safe
#print axioms C14.sched1_spec
#print axioms C14.run_spec
#print axioms C14.noninterference
#print axioms C14.cache_stays_correct
#print axioms C14.finished_result_independent
#print axioms C14.shared_slots_empty
#print axioms C14.local_writes_unshared
#print axioms C14.per_call_classes_checked
#print axioms C14.per_call_not_stored
#print axioms C14.token_matchers_are_shared
#print axioms C14.tree_writes_fresh_only
#print axioms C14.debug_only_prints
#print axioms C14.debug_read_only_in_guards
#print axioms C14.caches_are
#print axioms C14.interpreter_setters_empty
