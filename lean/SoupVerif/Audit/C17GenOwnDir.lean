import SoupVerif.Properties.C17GenOwnDir
open SoupVerif
#print axioms C17GenOwnDir.dirGet
#print axioms C17GenOwnDir.forChars_firstStrong
#print axioms C17GenOwnDir.inTuple_text
#print axioms C17GenOwnDir.flags_ite
#print axioms C17GenOwnDir.matchDirWalk_cons_eq_gen
#print axioms C17GenOwnDir.matchDirWalk_eq_gen
#print axioms C17GenOwnDir.matchDir_eq_gen
#print axioms C17GenOwnDir.own_dir_both_flags
