import SoupVerif.Properties.C07Parse
open SoupVerif
#print axioms C07Parse.twin_parseSelectors
#print axioms C07Parse.twin_parseLoop
#print axioms C07Parse.twin_compile
#print axioms C07Parse.lexicon_beq_allRegexes
#print axioms C07Parse.lexicon_in_allRegexes
#print axioms C07Parse.lexicon_rx_bound
#print axioms C07Parse.lexicon_rx_bound_nosp
#print axioms C07Parse.lexicon_esc_ok
#print axioms C07Parse.compile_steps_le
#print axioms C07Parse.compile_steps_le_input
#print axioms C07Parse.compile_cost_poly
#print axioms C07Parse.compile_cost_poly_py
#print axioms C07Parse.compile_cost_poly_nosp
#print axioms C07Parse.compile_cost_poly_ascii
#print axioms C07Parse.steps_le_cost
