import SoupVerif.Properties.C12
open SoupVerif
#print axioms C12.nameEq_true_iff
#print axioms C12.uri_def
#print axioms C12.html_without_ns
#print axioms C12.supportsNamespaces_def
#print axioms C12.nsGet_nil
#print axioms C12.nsGet_cons
#print axioms C12.ns_prefix
#print axioms C12.ns_unmapped
#print axioms C12.ns_any
#print axioms C12.ns_none
#print axioms C12.ns_default
#print axioms C12.tag_none
#print axioms C12.tag_some
#print axioms C12.type_selector_ns
#print axioms C12.tagname_ignores_prefix
#print axioms C12.doc_prefix_irrelevant
#print axioms C12.doc_prefix_irrelevant_attr
#print axioms C12.attr_prefix_text_irrelevant
#print axioms C12.attr_prefix_text_irrelevant_gen
#print axioms C12.inNs_iff
#print axioms C12.attr_ns_eq
#print axioms C12.attr_ns
#print axioms C12.attr_ns_unmapped
#print axioms C12.attr_ns_empty
#print axioms C12.attr_ns_empty_eq_bare
#print axioms C12.inAnyNs_iff
#print axioms C12.attr_any_ignores_star_mapping
#print axioms C12.attr_any
#print axioms C12.attr_any_map_independent
#print axioms C12.attr_bare
#print axioms C12.attr_no_ns_support
#print axioms C12.attr_no_ns_support_prefix_irrelevant
#print axioms C12.key_text_matters_without_ns_support
#print axioms C12.key_text_matters_for_empty_uri
-- every designated attribute (`match_attribute_name` is a generator; repair of `[*|a op v]`)
#print axioms SoupVerif.matchAttributeName_eq_head?
#print axioms C12.attr_first_of_values
#print axioms C12.doc_prefix_irrelevant_attr_values
#print axioms C12.attr_ns_values
#print axioms C12.attr_ns_unmapped_values
#print axioms C12.attr_ns_empty_values
#print axioms C12.attr_ns_empty_values_eq_bare
#print axioms C12.attr_any_values
#print axioms C12.attr_any_values_map_independent
#print axioms C12.attr_bare_values
#print axioms C12.attr_no_ns_support_values
#print axioms C12.attr_no_ns_support_prefix_irrelevant_values
#print axioms C12.attr_prefix_text_irrelevant_values
#print axioms C12.attr_prefix_text_irrelevant_gen_values
#print axioms C12.attr_value_test
#print axioms C12.attr_any_value_test
#print axioms C12.attr_ns_value_test
#print axioms C12.attr_ns_empty_value_test
#print axioms C12.attr_ns_empty_matchAttributes_eq_bare
#print axioms C12.attr_any_value_test_spec
#print axioms C12.attr_any_ne_spec
#print axioms C12.attr_any_presence_spec
-- helper lemmas (Lemmas/Names.lean)
#print axioms Names.star_toStr
#print axioms Names.star_ne_nil
#print axioms Names.lowerCp_idem
#print axioms Names.lower_idem
#print axioms Names.lowerCp_eq_42
#print axioms Names.lower_nil
#print axioms Names.lower_cons
#print axioms Names.lower_eq_nil
#print axioms Names.lower_eq_star
#print axioms Names.lower_length
#print axioms Names.caseEq_equivalence
#print axioms Names.caseEq_lower
#print axioms Names.nameEq_iff
#print axioms Names.nameEq_xml
#print axioms Names.nameEq_html
#print axioms Names.localNameEq_iff
#print axioms Names.find?_congr
#print axioms Names.find?_map_pairwise₂
#print axioms Names.supportsNamespaces_of_xml
#print axioms Names.man_no_ns
#print axioms Names.man_bare
#print axioms Names.man_unmapped
#print axioms Names.man_ns
#print axioms Names.man_ns_empty
#print axioms Names.man_star
#print axioms Names.filter_map_pairwise₂
#print axioms Names.mav_no_ns
#print axioms Names.mav_bare
#print axioms Names.mav_unmapped
#print axioms Names.mav_ns
#print axioms Names.mav_ns_empty
#print axioms Names.mav_star

/-! Non-vacuity: the hypotheses of the main theorems are jointly satisfiable on concrete contexts
    (more closed examples live next to the theorems in `Properties/C12.lean`). -/
open C12 in
example : matchAttributeName cxml (circle none none [plainHref, xhref "x:href" u1]) "href".toStr "svg".toStr
    = some (.str "v".toStr) := by
  rw [attr_ns_eq cxml _ _ _ u1 (by decide) (by decide) (by decide) (by decide) (by decide)]
  decide
-- `<e x:href="v" href="w"/>` and `[*|href="w"]`: the SECOND designated attribute has the value
-- (real soupsieve after the repair: `<e p:x="1" q:x="2"/>` is selected by `[*|x="2"]`, by
-- `[*|x="1"]`, and not by `[*|x!="2"]`)
open C12 in
example : matchAttributes cxml (circle none none [xhref "x:href" u1, plainHref])
    [⟨"href".toStr, "*".toStr, some (.seq [.lit 119 false, .eos]), none⟩] = true :=
  (attr_any_value_test cxml _ _ _ _ (by decide)).mpr ⟨plainHref, by simp [circle], by decide, by decide⟩
open C12 in
example : matchAttributeName cxml (circle none none [xhref "x:href" u1, plainHref]) "href".toStr "*".toStr
      = some (.str "v".toStr) ∧
    matchAttributeValues cxml (circle none none [xhref "x:href" u1, plainHref]) "href".toStr "*".toStr
      = [.str "v".toStr, .str "w".toStr] := by decide
open C12 in
example : ∃ u, cxml.nsGet "svg".toStr = some u ∧ uri cxml (circle (some "s".toStr) (some u1) []) = u :=
  (ns_prefix cxml _ "circle".toStr "svg".toStr (by decide) (by decide)).mp (by decide)
open C12 in
example : cxml.supportsNamespaces = true ∧ chtml.supportsNamespaces = false ∧
    cxml.nsGet "nope".toStr = none ∧ cxml.nsGet "*".toStr = some u2 ∧ cxmlDefault.nsGet [] = some u1 := by decide
open C12 in
example : uri chtml (circle none none []) = NS_XHTML := html_without_ns _ _ (by decide)
