/-
  The shape of one branch of the `rel_type` chains of `match_past_relations` / `match_future_relations`
  (the table itself is GENERATED from the source: `Generated/PyRelations.lean`).
-/
import SoupVerif.Model.IR
namespace SoupVerif

/-- which getter produces the candidates -/
inductive RelAxis where
  | parentChain   -- `get_parent(·, no_iframe)` repeated
  | prevTag       -- `get_previous_tag` repeated
  | nextTag       -- `get_next_tag` repeated
  | descendants   -- `get_tag_descendants(el, no_iframe)`
  | children      -- `get_tag_children(el, no_iframe)`
  deriving Repr, DecidableEq, Inhabited

inductive RelMode where
  | walk      -- `x = start(el); while not found and x [and not is_doc(x)]: found = on x; x = step(x)`
  | once      -- `x = start(el); if x and <guard>: found = on x`
  | forBreak  -- `for x in …: match = on x; if match: break`
  deriving Repr, DecidableEq, Inhabited

/-- the `no_iframe=` argument as written -/
inductive IframeArg where
  | iframeRestrict   -- `no_iframe=self.iframe_restrict`
  | absent           -- not passed (the default `False`)
  deriving Repr, DecidableEq, Inhabited

structure Branch where
  axis : RelAxis
  mode : RelMode
  /-- `and not self.is_doc(x)` is part of the loop condition / guard -/
  docStops : Bool
  /-- `and self.is_tag(x)` is part of the guard (once) -/
  tagGuard : Bool
  noIframe : IframeArg
  deriving Repr, DecidableEq, Inhabited

end SoupVerif
