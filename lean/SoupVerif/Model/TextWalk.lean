/-
  The LOOP of `css_match._DocumentNav.get_descendants` (css_match.py), as Python runs it.

      next_good = None
      for child in el.descendants:                 # bs4: every node below `el`, pre-order
          if next_good is not None:
              if child is not next_good: continue
              next_good = None
          if isinstance(child, bs4.Tag):
              if no_iframe and self.is_iframe(child):
                  if child.next_sibling is not None: next_good = child.next_sibling
                  else:
                      last_child = child
                      while isinstance(last_child, bs4.Tag) and last_child.contents:
                          last_child = last_child.contents[-1]
                      next_good = last_child.next_element
                  yield child
                  if next_good is None: break
                  continue
              yield child
          elif not tags:
              yield child

  bs4's `el.descendants` is modelled as the list of ALL nodes below `el` in pre-order (iframe
  content included), each entry carrying what the loop reads from it:
    * `node`         the node itself,
    * `isIframeCut`  `no_iframe and self.is_iframe(child)`,
    * `subtreeSize`  the number of descendants of the node.
  Python object identity of the entries is the index in that list.  `next_good` — the next
  sibling of the iframe or, failing that, the `next_element` of its last descendant — is the node
  that follows the iframe's subtree in document order: index `i + 1 + subtreeSize`.  When that
  index is beyond the list, Python either `break`s (`next_good is None`: the iframe's subtree ends
  the document) or keeps `continue`-ing to the end of `el.descendants` (`next_good` lies outside
  `el`); in both cases nothing more is yielded.

  `Model/Tree.lean`'s `Loc.descendants enter` is the *structural* version (do not go below an
  element unless `enter`); `Properties/C19.skipwalk_eq_structural` proves the two agree.
-/
import SoupVerif.Model.Tree
namespace SoupVerif
namespace TextWalk

structure Entry where
  node : Node
  isIframeCut : Bool
  subtreeSize : Nat
  deriving Repr, Inhabited

mutual
/-- Number of descendants of a node. -/
def size : Node → Nat
  | .elem _ kids => sizeKids kids
  | .str _ _ => 0
/-- Number of nodes in a forest. -/
def sizeKids : List Node → Nat
  | [] => 0
  | k :: ks => 1 + size k + sizeKids ks
end

/-- The entry of one node. `cut e` = `no_iframe and self.is_iframe(e)`. -/
def entryOf (cut : Elem → Bool) (n : Node) : Entry :=
  { node := n
    isIframeCut := (match n with | .elem e _ => cut e | .str _ _ => false)
    subtreeSize := size n }

mutual
/-- `n` followed by everything below it, pre-order. -/
def preorderNode (cut : Elem → Bool) : Node → List Entry
  | .elem e kids => entryOf cut (.elem e kids) :: preorderKids cut kids
  | .str k s => [entryOf cut (.str k s)]
/-- A forest, pre-order. -/
def preorderKids (cut : Elem → Bool) : List Node → List Entry
  | [] => []
  | k :: ks => preorderNode cut k ++ preorderKids cut ks
end

/-- bs4's `el.descendants` (everything below `n`, nothing cut). -/
def preorder (cut : Elem → Bool) (n : Node) : List Entry := preorderKids cut n.kids

/-- One run of the `for` loop from index `i` on, `total = len(list(el.descendants))`.
    `nextGood` is the index of the `next_good` node (`none` = `None`). -/
def skipLoop (tags : Bool) (total : Nat) : Nat → Option Nat → List Entry → List Node
  | _, _, [] => []
  | i, nextGood, en :: rest =>
    -- if next_good is not None: if child is not next_good: continue; next_good = None
    let pending : Option Nat :=
      match nextGood with
      | some g => if i == g then none else some g
      | none => none
    match pending with
    | some g => skipLoop tags total (i + 1) (some g) rest                   -- `continue`
    | none =>
      if en.node.isTag then
        if en.isIframeCut then
          let g := i + 1 + en.subtreeSize                                    -- `next_good`
          en.node :: (if total ≤ g then []                                   -- `break` / run out
                      else skipLoop tags total (i + 1) (some g) rest)        -- `continue`
        else en.node :: skipLoop tags total (i + 1) none rest
      else if !tags then en.node :: skipLoop tags total (i + 1) none rest
      else skipLoop tags total (i + 1) none rest

/-- The nodes the loop yields for `tags=tags`. -/
def skipWalkT (tags : Bool) (es : List Entry) : List Node := skipLoop tags es.length 0 none es

/-- The nodes the loop yields (`tags=False`). -/
def skipWalk (es : List Entry) : List Node := skipWalkT false es

/-- `get_descendants(el, tags, no_iframe)` on a node: the guard on `el` itself, then the loop. -/
def getDescendants (cut : Elem → Bool) (tags : Bool) (n : Node) : List Node :=
  match n with
  | .elem e _ => if cut e then [] else skipWalkT tags (preorder cut n)
  | .str _ _ => []

mutual
/-- The structural walk: every node below `n`, pre-order, yielding a cut element but not
    entering it. -/
def cutWalkNode (cut : Elem → Bool) : Node → List Node
  | .elem e kids => if cut e then [] else cutWalkKids cut kids
  | .str _ _ => []
def cutWalkKids (cut : Elem → Bool) : List Node → List Node
  | [] => []
  | k :: ks => (k :: cutWalkNode cut k) ++ cutWalkKids cut ks
end

/-- `get_text` on top of the loop. -/
def getText (cut : Elem → Bool) (n : Node) : Str :=
  ((getDescendants cut false n).filter Node.isContentString).flatMap Node.strVal

end TextWalk
end SoupVerif
