/-
  The one control primitive the source-translated pieces of `CSSMatch.match_nth` (`Generated/PyNth.lean`,
  gen/gen_py_nth.py) are built on: `while cond: body` with `break`, as a fuel-bounded iterator.

  `body st = (st', true)`  — the body executed `break` in state `st'`;
  `body st = (st', false)` — the body ran to its end (state `st'`), the test is evaluated again.
  `some st` = the loop ended in `st`; `none` = the fuel did not suffice.  The test is evaluated before the fuel
  is looked at, so a loop that has ended is reported as ended whatever the fuel.
  Mathlib-free, executable.
-/
namespace SoupVerif
namespace PyWhile

def whileBrk {σ : Type} (cond : σ → Bool) (body : σ → σ × Bool) : Nat → σ → Option σ
  | 0, st => if cond st then none else some st
  | fuel + 1, st =>
    if cond st then
      match body st with
      | (st', true) => some st'
      | (st', false) => whileBrk cond body fuel st'
    else some st

/-- More fuel does not change a result. -/
theorem whileBrk_mono {σ : Type} (cond : σ → Bool) (body : σ → σ × Bool) :
    ∀ (fuel : Nat) (st r : σ), whileBrk cond body fuel st = some r →
      ∀ k, whileBrk cond body (fuel + k) st = some r := by
  intro fuel
  induction fuel with
  | zero =>
    intro st r h k
    unfold whileBrk at h
    split at h
    · cases h
    · cases k with
      | zero => simp only [Nat.add_zero]; unfold whileBrk; simp_all
      | succ k => simp only [Nat.zero_add]; unfold whileBrk; simp_all
  | succ n ih =>
    intro st r h k
    have e : n + 1 + k = (n + k) + 1 := by omega
    rw [e]
    unfold whileBrk at h ⊢
    split at h
    · rename_i hc
      rw [if_pos hc]
      split at h
      · exact h
      · rename_i st' hb; exact ih st' r h k
    · rename_i hc; rw [if_neg hc]; exact h

end PyWhile
end SoupVerif
