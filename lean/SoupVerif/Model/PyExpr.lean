/-
  Run-time support of the source-to-Lean translation of pure integer functions (`gen/gen_py_inputs.py`).
  Python ints are unbounded integers: `Int`.  `a // k` is emitted as `Int.fdiv a k` and `a % k` as `Int.fmod a k`
  (floor division / floor modulus: Python's operations for every combination of signs; the translator insists on
  a non-zero literal divisor, so Python's `ZeroDivisionError` cannot arise).
-/
namespace SoupVerif
namespace PyExpr

/-- Python `a or b` on ints: `a` if it is truthy (non-zero), else `b`. -/
def intOr (a b : Int) : Int := if a != 0 then a else b

end PyExpr
end SoupVerif
