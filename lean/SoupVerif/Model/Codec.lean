/-
  Decoding of the line-protocol s-expressions into trees, selectors and regexes.
-/
import SoupVerif.Model.Sx
import SoupVerif.Model.Tree
import SoupVerif.Model.IR
namespace SoupVerif
namespace Codec
open Sx

def catOf : Nat → Option Cat
  | 0 => some .space | 1 => some .notSpace | 2 => some .digit
  | 3 => some .notDigit | 4 => some .word | 5 => some .notWord
  | _ => none

def setItem : Sx → Option SetItem
  | .list [.int 0, c] => do pure (.ch (← c.toNat?))
  | .list [.int 1, lo, hi] => do pure (.range (← lo.toNat?) (← hi.toNat?))
  | .list [.int 2, k] => do pure (.cat (← catOf (← k.toNat?)))
  | _ => none

partial def rx : Sx → Option Rx
  | .list [.int 0, c, ic] => do pure (.lit (← c.toNat?) (← ic.toBool?))
  | .list [.int 1, c, ic] => do pure (.notLit (← c.toNat?) (← ic.toBool?))
  | .list [.int 2, d] => do pure (.any (← d.toBool?))
  | .list [.int 3, neg, .list items, ic] => do pure (.set (← neg.toBool?) (← items.mapM setItem) (← ic.toBool?))
  | .list [.int 4, .list rs] => do pure (.seq (← rs.mapM rx))
  | .list [.int 5, .list rs] => do pure (.alt (← rs.mapM rx))
  | .list [.int 6, idx, r] => do pure (.group (← idx.toNat?) (← rx r))
  | .list [.int 7, mn, mx, g, r] => do pure (.rep (← mn.toNat?) (← toOpt? toNat? mx) (← g.toBool?) (← rx r))
  | .list [.int 8] => some .bos
  | .list [.int 9] => some .eol
  | .list [.int 10] => some .eos
  | .list [.int 11, a, n, r] => do pure (.look (← a.toBool?) (← n.toBool?) (← rx r))
  | _ => none

partial def pyVal : Sx → Option PyVal
  | .list [.int 0] => some .none
  | .list [.int 1, s] => do pure (.str (← s.toStr?))
  | .list [.int 2, s] => do pure (.bytes (← s.toStr?))
  | .list [.int 3, .list items, r] => do pure (.seq (← items.mapM pyVal) (← r.toStr?))
  | .list [.int 4, r] => do pure (.other (← r.toStr?))
  | _ => none

def attr : Sx → Option Attr
  | .list [k, kns, kname, v] => do
    pure { key := ← k.toStr?, kns := ← toOpt? toStr? kns, kname := ← toOpt? toStr? kname, val := ← pyVal v }
  | _ => none

def strKind : Nat → Option StrKind
  | 0 => some .text | 1 => some .comment | 2 => some .cdata
  | 3 => some .pi | 4 => some .doctype | 5 => some .decl
  | _ => none

partial def node : Sx → Option Node
  | .list [.int 0, isDoc, name, pfx, ns, .list attrs, .list kids] => do
    let e : Elem := { isDoc := ← isDoc.toBool?, name := ← name.toStr?, pfx := ← toOpt? toStr? pfx,
                      ns := ← toOpt? toStr? ns, attrs := ← attrs.mapM attr }
    pure (.elem e (← kids.mapM node))
  | .list [.int 1, k, s] => do pure (.str (← strKind (← k.toNat?)) (← s.toStr?))
  | _ => none

def doc : Sx → Option Doc
  | .list [isXml, top] => do pure { isXml := ← isXml.toBool?, top := ← node top }
  | _ => none

def rel : Nat → Option Rel
  | 0 => some .none | 1 => some .desc | 2 => some .child | 3 => some .sib | 4 => some .adj
  | 5 => some .hasDesc | 6 => some .hasChild | 7 => some .hasSib | 8 => some .hasAdj
  | _ => none

def selTag : Sx → Option SelTag
  | .list [n, p] => do pure { name := ← n.toStr?, pfx := ← toOpt? toStr? p }
  | _ => none

def attrSel : Sx → Option AttrSel
  | .list [n, p, pat, xpat] => do
    pure { attrName := ← n.toStr?, pfx := ← p.toStr?, pattern := ← toOpt? rx pat, xmlTypePattern := ← toOpt? rx xpat }
  | _ => none

def containsSel : Sx → Option ContainsSel
  | .list [ts, own] => do pure { text := ← toListOf? toStr? ts, own := ← own.toBool? }
  | _ => none

def langSel : Sx → Option LangSel
  | .list [ls] => do pure { languages := ← toListOf? toStr? ls }
  | _ => none

mutual
partial def selList : Sx → Option SelList
  | .list [.list sels, isNot, isHtml] => do
    pure (.mk (← sels.mapM sel) (← isNot.toBool?) (← isHtml.toBool?))
  | _ => none
partial def sel : Sx → Option Sel
  | .list [.int 0] => some .null
  | .list [.int 1, tag, ids, classes, .list attrs, .list nths, .list subs, relation, relType, .list contains, .list langs, flags] => do
    pure (.mk (← toOpt? selTag tag) (← toListOf? toStr? ids) (← toListOf? toStr? classes) (← attrs.mapM attrSel)
      (← nths.mapM nthSel) (← subs.mapM selList) (← selList relation) (← rel (← relType.toNat?))
      (← contains.mapM containsSel) (← langs.mapM langSel) (← flags.toNat?))
  | _ => none
partial def nthSel : Sx → Option NthSel
  | .list [a, n, b, ofType, last, sels] => do
    pure (.mk (← a.toInt?) (← n.toBool?) (← b.toInt?) (← ofType.toBool?) (← last.toBool?) (← selList sels))
  | _ => none
end

def nsMap : Sx → Option (List (Str × Str))
  | .list ps => ps.mapM fun
    | .list [k, v] => do pure (← k.toStr?, ← v.toStr?)
    | _ => none
  | _ => none

def path (l : Loc) : Sx := .list (l.pos.map (fun i => .int (Int.ofNat i)))

end Codec
end SoupVerif

namespace SoupVerif
namespace Codec
open Sx

def encItem : SetItem → Sx
  | .ch c => .list [.int 0, ofNat c]
  | .range lo hi => .list [.int 1, ofNat lo, ofNat hi]
  | .cat k => .list [.int 2, .int (match k with
      | .space => 0 | .notSpace => 1 | .digit => 2 | .notDigit => 3 | .word => 4 | .notWord => 5)]

partial def encRx : Rx → Sx
  | .lit c ic => .list [.int 0, ofNat c, ofBool ic]
  | .notLit c ic => .list [.int 1, ofNat c, ofBool ic]
  | .any d => .list [.int 2, ofBool d]
  | .set neg items ic => .list [.int 3, ofBool neg, .list (items.map encItem), ofBool ic]
  | .seq rs => .list [.int 4, .list (rs.map encRx)]
  | .alt rs => .list [.int 5, .list (rs.map encRx)]
  | .group idx r => .list [.int 6, ofNat idx, encRx r]
  | .rep mn mx g r => .list [.int 7, ofNat mn, ofOpt ofNat mx, ofBool g, encRx r]
  | .bos => .list [.int 8]
  | .eol => .list [.int 9]
  | .eos => .list [.int 10]
  | .look a n r => .list [.int 11, ofBool a, ofBool n, encRx r]

def encRel : Rel → Sx
  | .none => .int 0 | .desc => .int 1 | .child => .int 2 | .sib => .int 3 | .adj => .int 4
  | .hasDesc => .int 5 | .hasChild => .int 6 | .hasSib => .int 7 | .hasAdj => .int 8

mutual
partial def encSelList : SelList → Sx
  | .mk sels isNot isHtml => .list [.list (sels.map encSel), ofBool isNot, ofBool isHtml]
partial def encSel : Sel → Sx
  | .null => .list [.int 0]
  | .mk tag ids classes attrs nth subs relation relType contains lang flags =>
    .list [.int 1,
      ofOpt (fun (t : SelTag) => .list [ofStr t.name, ofOpt ofStr t.pfx]) tag,
      ofList ofStr ids, ofList ofStr classes,
      ofList (fun (a : AttrSel) => .list [ofStr a.attrName, ofStr a.pfx, ofOpt encRx a.pattern, ofOpt encRx a.xmlTypePattern]) attrs,
      .list (nth.map encNth), .list (subs.map encSelList), encSelList relation, encRel relType,
      ofList (fun (c : ContainsSel) => .list [ofList ofStr c.text, ofBool c.own]) contains,
      ofList (fun (l : LangSel) => .list [ofList ofStr l.languages]) lang,
      ofNat flags]
partial def encNth : NthSel → Sx
  | .mk a n b ofType last sels => .list [.int a, ofBool n, .int b, ofBool ofType, ofBool last, encSelList sels]
end

end Codec
end SoupVerif
