/-
  `soupsieve.pretty.pretty` (the debug pretty-printer), hand model.

  Python:

      TOKENS = {'class': RE_CLASS, 'param': RE_PARAM, 'empty': RE_EMPTY, 'lstrt': RE_LSTRT,
                'dstrt': RE_DSTRT, 'tstrt': RE_TSTRT, 'lend': RE_LEND, 'dend': RE_DEND,
                'tend': RE_TEND, 'sqstr': RE_SQSTR, 'sep': RE_SEP, 'dsep': RE_DSEP,
                'int': RE_INT, 'kword': RE_KWORD, 'dqstr': RE_DQSTR}

      def pretty(obj):
          sel = str(obj); index = 0; end = len(sel) - 1; indent = 0; output = []
          while index <= end:
              m = None
              for k, v in TOKENS.items():
                  m = v.match(sel, index)
                  if m:
                      name = k; index = m.end(0)
                      if name in ('class', 'lstrt', 'dstrt', 'tstrt'):
                          indent += 4; output.append(f'{m.group(0)}\n{" " * indent}')
                      elif name in ('param', 'int', 'kword', 'sqstr', 'dqstr', 'empty'):
                          output.append(m.group(0))
                      elif name in ('lend', 'dend', 'tend'):
                          indent -= 4; output.append(m.group(0))
                      elif name in ('sep',):
                          output.append(f'{m.group(1)}\n{" " * indent}')
                      elif name in ('dsep',):
                          output.append(f'{m.group(1)} ')
                      break
              if m is None:
                  output.append(sel[index]); index += 1
          return ''.join(output)

  The fifteen token regexes are hand-written scanners (greedy, with the engine's backtracking
  where a later item can only match after giving characters back).  The three character
  classes that depend on Unicode tables are parameters (`PrettyEnv`):
     `\s` -> `isSpace`, `\d` -> `isDigit`, `(?i)[a-z]` -> `isAlphaI`.

  Simplifications with respect to the Python (all of them):
    * the input is the string `sel` (the model does not call `str(obj)`);
    * `output` is not accumulated and joined at the end: each iteration's piece is put in front
      of the result of the remaining iterations (same string);
    * `m.group(1)` of `RE_SEP` / `RE_DSEP` is the constant `','` / `':'` (the only text the group
      can capture);
    * every scanner works on the suffix `sel[index:]` and returns the LENGTH of the match;
      `Token.scan` turns that into the end offset `m.end(0)`.  None of the fifteen regexes
      looks behind `index` or uses an anchor, so matching at `index` only depends on that suffix;
    * the loop is defined by well-founded recursion on `len(sel) - index` (no fuel): the
      termination argument is `firstMatch_advance` below.
-/
import SoupVerif.Model.Py
namespace SoupVerif
namespace Pretty

/-- The Unicode-table dependent character classes of the token regexes. -/
structure PrettyEnv where
  /-- `\s` -/
  isSpace : Nat → Bool
  /-- `\d` -/
  isDigit : Nat → Bool
  /-- `(?i)[a-z]` -/
  isAlphaI : Nat → Bool

/-- ASCII letters. -/
def isAsciiAlpha (c : Nat) : Bool := (65 ≤ c && c ≤ 90) || (97 ≤ c && c ≤ 122)

/-- ASCII instance: `\s` as `str.isspace`, `\d` = `0-9`, `(?i)[a-z]` = ASCII letters. -/
def asciiEnv : PrettyEnv where
  isSpace := isPySpace
  isDigit := fun c => 48 ≤ c && c ≤ 57
  isAlphaI := isAsciiAlpha

/-- Start code points of the 64 runs of Unicode 15.0 decimal digits (`Nd`); every run has ten
    members except the mathematical digits `U+1D7CE..U+1D7FF` (fifty). -/
def digitRunStarts : List Nat :=
  [48, 1632, 1776, 1984, 2406, 2534, 2662, 2790, 2918, 3046, 3174, 3302, 3430, 3558, 3664, 3792,
   3872, 4160, 4240, 6112, 6160, 6470, 6608, 6784, 6800, 6992, 7088, 7232, 7248, 42528, 43216,
   43264, 43472, 43504, 43600, 44016, 65296, 66720, 68912, 69734, 69872, 69942, 70096, 70384,
   70736, 70864, 71248, 71360, 71472, 71904, 72016, 72784, 73040, 73120, 73552, 92768, 92864,
   93008, 123200, 123632, 124144, 125264, 130032]

/-- CPython 3.12 (Unicode 15.0) instance: `\s` = `str.isspace`, `\d` = category `Nd`,
    `(?i)[a-z]` = ASCII letters and U+0130, U+0131, U+017F, U+212A. -/
def pyEnv : PrettyEnv where
  isSpace := isPySpace
  isDigit := fun c => digitRunStarts.any (fun a => a ≤ c && c ≤ a + 9) || (120782 ≤ c && c ≤ 120831)
  isAlphaI := fun c => isAsciiAlpha c || c == 304 || c == 305 || c == 383 || c == 8490

/-! ### Regex building blocks (on the suffix at the match position; results are lengths) -/

/-- `X*t` : greedy run of `cls`, then the character `term`, giving characters back if needed. -/
def starThen (cls : Nat → Bool) (term : Nat) : Str → Option Nat
  | [] => none
  | c :: rest =>
    match (if cls c then starThen cls term rest else none) with
    | some k => some (k + 1)
    | none => if c = term then some 1 else none

/-- `X+t`. -/
def plusThen (cls : Nat → Bool) (term : Nat) : Str → Option Nat
  | [] => none
  | c :: rest => if cls c then (starThen cls term rest).map (· + 1) else none

/-- `X*` with nothing after it: length of the maximal run. -/
def runLen (cls : Nat → Bool) : Str → Nat
  | [] => 0
  | c :: rest => if cls c then runLen cls rest + 1 else 0

/-- `(?:\\.|[^q\\])*q` : body and closing quote of a string literal (`.` excludes `\n`). -/
def strBody (q : Nat) : Str → Option Nat
  | [] => none
  | c :: rest =>
    if c = q then some 1
    else if c = 92 then
      match rest with
      | d :: rest' => if d = 10 then none else (strBody q rest').map (· + 2)
      | [] => none
    else (strBody q rest).map (· + 1)

/-- `(?i)[a-z_]` -/
def identStart (env : PrettyEnv) (c : Nat) : Bool := env.isAlphaI c || c == 95
/-- `(?i)[_a-z\d\.]` -/
def classBody (env : PrettyEnv) (c : Nat) : Bool :=
  c == 95 || env.isAlphaI c || env.isDigit c || c == 46
/-- `(?i)[_a-z\d]` -/
def wordBody (env : PrettyEnv) (c : Nat) : Bool := c == 95 || env.isAlphaI c || env.isDigit c

/-! ### The fifteen token scanners -/

/-- `RE_CLASS = (?i)[a-z_][_a-z\d\.]+\(` -/
def scanClass (env : PrettyEnv) : Str → Option Nat
  | [] => none
  | c :: rest => if identStart env c then (plusThen (classBody env) 40 rest).map (· + 1) else none

/-- `RE_PARAM = (?i)[_a-z][_a-z\d]+=` -/
def scanParam (env : PrettyEnv) : Str → Option Nat
  | [] => none
  | c :: rest => if identStart env c then (plusThen (wordBody env) 61 rest).map (· + 1) else none

/-- `RE_EMPTY = \(\)|\[\]|\{\}` -/
def scanEmpty (_ : PrettyEnv) : Str → Option Nat
  | a :: b :: _ =>
    if (a = 40 ∧ b = 41) ∨ (a = 91 ∧ b = 93) ∨ (a = 123 ∧ b = 125) then some 2 else none
  | _ => none

/-- A one-character literal: `RE_LSTRT`, `RE_DSTRT`, `RE_TSTRT`, `RE_LEND`, `RE_DEND`, `RE_TEND`. -/
def scanLit (ch : Nat) (_ : PrettyEnv) : Str → Option Nat
  | [] => none
  | c :: _ => if c = ch then some 1 else none

/-- `RE_SQSTR = '(?:\\.|[^'\\])*'` (`q = 39`), `RE_DQSTR = "(?:\\.|[^"\\])*"` (`q = 34`). -/
def scanStr (q : Nat) (_ : PrettyEnv) : Str → Option Nat
  | [] => none
  | c :: rest => if c = q then (strBody q rest).map (· + 1) else none

/-- `RE_SEP = \s*(,)\s*` (`ch = 44`), `RE_DSEP = \s*(:)\s*` (`ch = 58`). -/
def scanSepLike (ch : Nat) (env : PrettyEnv) (r : Str) : Option Nat :=
  match starThen env.isSpace ch r with
  | some k => some (k + runLen env.isSpace (r.drop k))
  | none => none

/-- `RE_INT = \d+` -/
def scanInt (env : PrettyEnv) (r : Str) : Option Nat :=
  if 1 ≤ runLen env.isDigit r then some (runLen env.isDigit r) else none

/-- `RE_KWORD = (?i)[_a-z][_a-z\d]+` -/
def scanKword (env : PrettyEnv) : Str → Option Nat
  | [] => none
  | c :: rest =>
    if identStart env c then
      (if 1 ≤ runLen (wordBody env) rest then some (runLen (wordBody env) rest + 1) else none)
    else none

/-- The keys of `TOKENS`. -/
inductive TokKind where
  | cls | param | empty | lstrt | dstrt | tstrt | lend | dend | tend | sqstr | sep | dsep
  | int | kword | dqstr
  deriving DecidableEq, Repr, Inhabited

/-- One entry of `TOKENS`: its key and its regex as a scanner on the suffix at the position. -/
structure Token where
  kind : TokKind
  scanAt : PrettyEnv → Str → Option Nat

/-- `v.match(sel, index)` as `m.end(0)`. -/
def Token.scan (t : Token) (env : PrettyEnv) (s : Str) (i : Nat) : Option Nat :=
  (t.scanAt env (s.drop i)).map (i + ·)

/-- `TOKENS`, in dictionary order. -/
def tokens : List Token :=
  [ ⟨.cls, scanClass⟩, ⟨.param, scanParam⟩, ⟨.empty, scanEmpty⟩,
    ⟨.lstrt, scanLit 91⟩, ⟨.dstrt, scanLit 123⟩, ⟨.tstrt, scanLit 40⟩,
    ⟨.lend, scanLit 93⟩, ⟨.dend, scanLit 125⟩, ⟨.tend, scanLit 41⟩,
    ⟨.sqstr, scanStr 39⟩, ⟨.sep, scanSepLike 44⟩, ⟨.dsep, scanSepLike 58⟩,
    ⟨.int, scanInt⟩, ⟨.kword, scanKword⟩, ⟨.dqstr, scanStr 34⟩ ]

/-- The `for k, v in TOKENS.items()` loop: the first token that matches at `index`, with
    `m.end(0)`. -/
def firstMatch (env : PrettyEnv) (s : Str) (i : Nat) : Option (TokKind × Nat) :=
  tokens.findSome? (fun t => (t.scan env s i).map (fun j => (t.kind, j)))

/-- `' ' * n` (empty for `n ≤ 0`). -/
def spaces (n : Int) : Str := List.replicate n.toNat 32

/-- `sel[a:b]`. -/
def slice (s : Str) (a b : Nat) : Str := (s.take b).drop a

/-- The `if name in (...)` cascade: the piece appended to `output` and the new `indent`,
    given `m.group(0)` and the current `indent`. -/
def tokenOutput (name : TokKind) (g0 : Str) (indent : Int) : Str × Int :=
  match name with
  | .cls | .lstrt | .dstrt | .tstrt => (g0 ++ [10] ++ spaces (indent + 4), indent + 4)
  | .param | .int | .kword | .sqstr | .dqstr | .empty => (g0, indent)
  | .lend | .dend | .tend => (g0, indent - 4)
  | .sep => ([44] ++ [10] ++ spaces indent, indent)
  | .dsep => ([58] ++ [32], indent)

/-! ### Every token consumes at least one character -/

theorem starThen_pos (cls : Nat → Bool) (term : Nat) :
    ∀ (r : Str) (k : Nat), starThen cls term r = some k → 1 ≤ k := by
  intro r
  induction r with
  | nil => intro k h; simp [starThen] at h
  | cons c rest ih =>
    intro k h
    unfold starThen at h
    split at h
    · cases h; omega
    · split at h
      · cases h; omega
      · cases h

theorem map_add_pos {o : Option Nat} {n k : Nat} (hn : 1 ≤ n) (h : o.map (· + n) = some k) :
    1 ≤ k := by
  cases o with
  | none => cases h
  | some a => simp at h; omega

theorem plusThen_pos (cls : Nat → Bool) (term : Nat) (r : Str) (k : Nat)
    (h : plusThen cls term r = some k) : 1 ≤ k := by
  cases r with
  | nil => simp [plusThen] at h
  | cons c rest =>
    simp only [plusThen] at h
    by_cases hc : cls c = true
    · rw [if_pos hc] at h; exact map_add_pos (Nat.le_refl 1) h
    · rw [if_neg hc] at h; cases h

theorem strBody_pos (q : Nat) (r : Str) (k : Nat) (h : strBody q r = some k) : 1 ≤ k := by
  cases r with
  | nil => simp [strBody] at h
  | cons c rest =>
    by_cases h1 : c = q
    · cases rest <;> simp [strBody, h1] at h <;> omega
    · by_cases h2 : c = 92
      · subst h2
        cases rest with
        | nil => simp [strBody, h1] at h
        | cons d rest' =>
          by_cases h3 : d = 10
          · simp [strBody, h1, h3] at h
          · simp only [strBody, if_neg h1, if_true, if_neg h3] at h
            exact map_add_pos (by omega) h
      · cases rest with
        | nil => simp [strBody, h1, h2] at h
        | cons d rest' =>
          simp only [strBody, if_neg h1, if_neg h2] at h
          exact map_add_pos (Nat.le_refl 1) h

theorem scanClass_pos (env : PrettyEnv) (r : Str) (k : Nat) (h : scanClass env r = some k) :
    1 ≤ k := by
  cases r with
  | nil => simp [scanClass] at h
  | cons c rest =>
    simp only [scanClass] at h
    by_cases hc : identStart env c = true
    · rw [if_pos hc] at h; exact map_add_pos (Nat.le_refl 1) h
    · rw [if_neg hc] at h; cases h

theorem scanParam_pos (env : PrettyEnv) (r : Str) (k : Nat) (h : scanParam env r = some k) :
    1 ≤ k := by
  cases r with
  | nil => simp [scanParam] at h
  | cons c rest =>
    simp only [scanParam] at h
    by_cases hc : identStart env c = true
    · rw [if_pos hc] at h; exact map_add_pos (Nat.le_refl 1) h
    · rw [if_neg hc] at h; cases h

theorem scanEmpty_pos (env : PrettyEnv) (r : Str) (k : Nat) (h : scanEmpty env r = some k) :
    1 ≤ k := by
  match r, h with
  | a :: b :: _, h =>
    simp only [scanEmpty] at h
    split at h
    · cases h; omega
    · cases h
  | [], h => simp [scanEmpty] at h
  | [_], h => simp [scanEmpty] at h

theorem scanLit_pos (ch : Nat) (env : PrettyEnv) (r : Str) (k : Nat)
    (h : scanLit ch env r = some k) : 1 ≤ k := by
  cases r with
  | nil => simp [scanLit] at h
  | cons c rest =>
    simp only [scanLit] at h
    by_cases hc : c = ch
    · rw [if_pos hc] at h; cases h; omega
    · rw [if_neg hc] at h; cases h

theorem scanStr_pos (q : Nat) (env : PrettyEnv) (r : Str) (k : Nat)
    (h : scanStr q env r = some k) : 1 ≤ k := by
  cases r with
  | nil => simp [scanStr] at h
  | cons c rest =>
    simp only [scanStr] at h
    by_cases hc : c = q
    · rw [if_pos hc] at h; exact map_add_pos (Nat.le_refl 1) h
    · rw [if_neg hc] at h; cases h

theorem scanSepLike_pos (ch : Nat) (env : PrettyEnv) (r : Str) (k : Nat)
    (h : scanSepLike ch env r = some k) : 1 ≤ k := by
  unfold scanSepLike at h
  cases hk1 : starThen env.isSpace ch r with
  | none => rw [hk1] at h; cases h
  | some k1 =>
    rw [hk1] at h
    have := starThen_pos _ _ _ _ hk1
    cases h; omega

theorem scanInt_pos (env : PrettyEnv) (r : Str) (k : Nat) (h : scanInt env r = some k) :
    1 ≤ k := by
  unfold scanInt at h
  by_cases hc : 1 ≤ runLen env.isDigit r
  · rw [if_pos hc] at h; cases h; exact hc
  · rw [if_neg hc] at h; cases h

theorem scanKword_pos (env : PrettyEnv) (r : Str) (k : Nat) (h : scanKword env r = some k) :
    1 ≤ k := by
  cases r with
  | nil => simp [scanKword] at h
  | cons c rest =>
    simp only [scanKword] at h
    by_cases hc : identStart env c = true
    · rw [if_pos hc] at h
      by_cases h2 : 1 ≤ runLen (wordBody env) rest
      · rw [if_pos h2] at h; cases h; omega
      · rw [if_neg h2] at h; cases h
    · rw [if_neg hc] at h; cases h

/-- Each of the fifteen scanners returns a length of at least one. -/
theorem tokens_scanAt_pos (env : PrettyEnv) :
    ∀ t ∈ tokens, ∀ (r : Str) (k : Nat), t.scanAt env r = some k → 1 ≤ k := by
  intro t ht r k h
  simp only [tokens, List.mem_cons, List.not_mem_nil, or_false] at ht
  rcases ht with rfl | rfl | rfl | rfl | rfl | rfl | rfl | rfl | rfl | rfl | rfl | rfl | rfl |
    rfl | rfl
  · exact scanClass_pos env r k h
  · exact scanParam_pos env r k h
  · exact scanEmpty_pos env r k h
  · exact scanLit_pos _ env r k h
  · exact scanLit_pos _ env r k h
  · exact scanLit_pos _ env r k h
  · exact scanLit_pos _ env r k h
  · exact scanLit_pos _ env r k h
  · exact scanLit_pos _ env r k h
  · exact scanStr_pos _ env r k h
  · exact scanSepLike_pos _ env r k h
  · exact scanSepLike_pos _ env r k h
  · exact scanInt_pos env r k h
  · exact scanKword_pos env r k h
  · exact scanStr_pos _ env r k h

/-- Every token regex matches at least one character: a successful `match` moves `index`. -/
theorem tokens_advance (env : PrettyEnv) :
    ∀ t ∈ tokens, ∀ (s : Str) (i j : Nat), t.scan env s i = some j → i < j := by
  intro t ht s i j h
  unfold Token.scan at h
  cases h' : t.scanAt env (s.drop i) with
  | none => rw [h'] at h; cases h
  | some k =>
    rw [h'] at h
    have := tokens_scanAt_pos env t ht _ _ h'
    simp at h; omega

/-- What `firstMatch` returns comes from a member of `TOKENS`. -/
theorem firstMatch_some {env : PrettyEnv} {s : Str} {i : Nat} {name : TokKind} {j : Nat}
    (h : firstMatch env s i = some (name, j)) :
    ∃ t ∈ tokens, t.kind = name ∧ t.scan env s i = some j := by
  unfold firstMatch at h
  obtain ⟨t, ht, h2⟩ := List.exists_of_findSome?_eq_some h
  refine ⟨t, ht, ?_⟩
  cases h' : t.scan env s i with
  | none => rw [h'] at h2; cases h2
  | some k => rw [h'] at h2; cases h2; exact ⟨rfl, rfl⟩

/-- The loop variable `index` strictly increases whenever some token matches. -/
theorem firstMatch_advance {env : PrettyEnv} {s : Str} {i : Nat} {name : TokKind} {j : Nat}
    (h : firstMatch env s i = some (name, j)) : i < j := by
  obtain ⟨t, ht, _, h2⟩ := firstMatch_some h
  exact tokens_advance env t ht s i j h2

/-! ### The loop -/

/-- The `while index <= end` loop from `index` with the current `indent`; returns the text the
    remaining iterations append to `output`.  Well-founded recursion on `len(sel) - index`:
    a token match moves `index` forward (`firstMatch_advance`), the fallback moves it by one. -/
def prettyLoop (env : PrettyEnv) (s : Str) (index : Nat) (indent : Int) : Str :=
  if h : index < s.length then
    match hm : firstMatch env s index with
    | some (name, j) =>
      let out := tokenOutput name (slice s index j) indent
      out.1 ++ prettyLoop env s j out.2
    | none => s[index] :: prettyLoop env s (index + 1) indent
  else []
termination_by s.length - index
decreasing_by
  · have := firstMatch_advance hm; omega
  · omega

/-- `pretty(obj)` for `str(obj) = s`. -/
def pretty (env : PrettyEnv) (s : Str) : Str := prettyLoop env s 0 0

end Pretty
end SoupVerif
