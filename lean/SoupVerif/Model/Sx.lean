/-
  Line protocol values: an s-expression whose atoms are integers.  Strings travel as lists
  of code points, constructors as a leading tag number.
-/
import SoupVerif.Model.Py
namespace SoupVerif

inductive Sx where
  | int (n : Int)
  | list (xs : List Sx)
  deriving Repr, Inhabited

namespace Sx

partial def render : Sx → String
  | .int n => toString n
  | .list xs => "(" ++ " ".intercalate (xs.map render) ++ ")"

/-- Tokenise: "(" ")" and integers. -/
def tokens (s : String) : List String :=
  let rec go (cs : List Char) (cur : String) (acc : List String) : List String :=
    match cs with
    | [] => (if cur.isEmpty then acc else cur :: acc).reverse
    | c :: rest =>
      if c == '(' || c == ')' then
        go rest "" (String.singleton c :: (if cur.isEmpty then acc else cur :: acc))
      else if c == ' ' || c == '\n' || c == '\r' || c == '\t' then
        go rest "" (if cur.isEmpty then acc else cur :: acc)
      else go rest (cur.push c) acc
  go s.toList "" []

/-- Parse a token list; stack of partially built lists. -/
def parseTokens (ts : List String) : Option Sx :=
  let rec go (ts : List String) (stack : List (List Sx)) : Option Sx :=
    match ts with
    | [] => match stack with
      | [[x]] => some x
      | _ => none
    | t :: rest =>
      if t == "(" then go rest ([] :: stack)
      else if t == ")" then
        match stack with
        | top :: next :: more => go rest ((Sx.list top.reverse :: next) :: more)
        | _ => none
      else match t.toInt? with
        | some n => (match stack with
          | top :: more => go rest ((Sx.int n :: top) :: more)
          | [] => none)
        | none => none
  go ts [[]]

def parse (s : String) : Option Sx := parseTokens (tokens s)

def ofStr (s : Str) : Sx := .list (s.map (fun c => .int (Int.ofNat c)))
def ofBool (b : Bool) : Sx := .int (if b then 1 else 0)
def ofNat (n : Nat) : Sx := .int (Int.ofNat n)
def ofOpt {α} (f : α → Sx) : Option α → Sx
  | none => .list []
  | some a => .list [f a]
def ofList {α} (f : α → Sx) (l : List α) : Sx := .list (l.map f)

def toNat? : Sx → Option Nat
  | .int n => if n ≥ 0 then some n.toNat else none
  | _ => none
def toInt? : Sx → Option Int
  | .int n => some n
  | _ => none
def toBool? : Sx → Option Bool
  | .int 0 => some false
  | .int 1 => some true
  | _ => none
def toList? : Sx → Option (List Sx)
  | .list xs => some xs
  | _ => none
def toStr? : Sx → Option Str
  | .list xs => xs.mapM toNat?
  | _ => none
def toOpt? {α} (f : Sx → Option α) : Sx → Option (Option α)
  | .list [] => some none
  | .list [x] => (f x).map some
  | _ => none
def toListOf? {α} (f : Sx → Option α) : Sx → Option (List α)
  | .list xs => xs.mapM f
  | _ => none

end Sx
end SoupVerif
