/-
  `soupsieve.util.get_pattern_context` (the line / column / context carried by every
  `SelectorSyntaxError`), hand model.

  Python:

      RE_PATTERN_LINE_SPLIT = re.compile(r'(?:\r\n|(?!\r\n)[\n\r])|$')

      def get_pattern_context(pattern, index):
          last = 0; current_line = 1; col = 1; text = []; line = 1; offset = None
          for m in RE_PATTERN_LINE_SPLIT.finditer(pattern):
              linetext = pattern[last:m.start(0)]
              if not len(m.group(0)) and not len(text):
                  indent = ''; offset = -1; col = index - last + 1
              elif last <= index < m.end(0) or (not len(m.group(0)) and index == m.end(0)):
                  indent = '--> '; offset = (-1 if index > m.start(0) else 0) + 3
                  col = index - last + 1
              else:
                  indent = '    '; offset = None
              if len(text): text.append('\n')
              text.append(f'{indent}{linetext}')
              if offset is not None:
                  text.append('\n'); text.append(' ' * (col + offset) + '^')
                  line = current_line
              current_line += 1
              last = m.end(0)
          return ''.join(text), line, col

  Simplifications with respect to the Python (all of them):
    * `index` is a natural number (the parser only ever passes offsets `0 ≤ index`), so
      `index - last + 1` is computed in `Nat`; in the two branches that assign `col` we have
      `last = 0`, resp. `last ≤ index`, resp. `index = m.end(0) ≥ last`, so no truncation occurs;
    * `finditer` over `RE_PATTERN_LINE_SPLIT` is the hand scanner `splitLines` (not the regex
      engine): `\r\n` is one unit, a lone `\n` or `\r` is one unit, and there is exactly one
      final empty match at the end of the string;
    * `text` is a list of strings as in Python (its *length* is what the `len(text)` tests
      look at); `''.join(text)` is `List.flatten`.
-/
import SoupVerif.Model.Py
namespace SoupVerif
namespace Context

/-- One `finditer` match, together with the value `last` has when the loop body sees it:
    `(last, m.start(0), m.end(0))`. -/
abbrev Match := Nat × Nat × Nat

/-- `splitLinesAux s pos last`: the matches of `RE_PATTERN_LINE_SPLIT.finditer` in the suffix `s`
    that starts at offset `pos`, the current line having started at offset `last`. -/
def splitLinesAux : Str → Nat → Nat → List Match
  | [], pos, last => [(last, pos, pos)]
  | c :: rest, pos, last =>
    if c = 13 then
      match rest with
      | d :: rest' =>
        if d = 10 then (last, pos, pos + 2) :: splitLinesAux rest' (pos + 2) (pos + 2)
        else (last, pos, pos + 1) :: splitLinesAux (d :: rest') (pos + 1) (pos + 1)
      | [] => (last, pos, pos + 1) :: splitLinesAux [] (pos + 1) (pos + 1)
    else if c = 10 then (last, pos, pos + 1) :: splitLinesAux rest (pos + 1) (pos + 1)
    else splitLinesAux rest (pos + 1) last

/-- All `finditer` matches of `RE_PATTERN_LINE_SPLIT` in `pattern`, in order, each as
    `(last, m.start(0), m.end(0))`; the final element is the empty match at the end. -/
def splitLines (pattern : Str) : List Match := splitLinesAux pattern 0 0

/-- The loop variables that survive an iteration. (`offset`, `indent`, `linetext` are
    re-assigned in every iteration before being read.) -/
structure LoopState where
  last : Nat
  currentLine : Nat
  col : Nat
  text : List Str
  line : Nat
  deriving Repr, DecidableEq

def LoopState.init : LoopState := { last := 0, currentLine := 1, col := 1, text := [], line := 1 }

/-- `'\n'` -/
abbrev nl : Str := [10]
/-- `'--> '` -/
abbrev arrow : Str := [45, 45, 62, 32]
/-- `'    '` -/
abbrev pad : Str := [32, 32, 32, 32]
/-- `'^'` -/
abbrev caret : Str := [94]

example : nl = "\n".toStr ∧ arrow = "--> ".toStr ∧ pad = "    ".toStr ∧ caret = "^".toStr := by
  decide

/-- `' ' * n` (the empty string for `n ≤ 0`). -/
def spaces (n : Int) : Str := List.replicate n.toNat 32

/-- `pattern[a:b]` for `0 ≤ a`, `0 ≤ b`. -/
def slice (p : Str) (a b : Nat) : Str := (p.take b).drop a

/-- The tail of the loop body, after the three-way branch has chosen `indent`, `offset`, `col`. -/
def emit (st : LoopState) (indent linetext : Str) (offset : Option Int) (col mend : Nat) :
    LoopState :=
  let text1 := if st.text.length ≠ 0 then st.text ++ [nl] else st.text
  let text2 := text1 ++ [indent ++ linetext]
  match offset with
  | some off =>
    { last := mend, currentLine := st.currentLine + 1, col := col,
      text := text2 ++ [nl, spaces ((col : Int) + off) ++ caret],
      line := st.currentLine }
  | none =>
    { last := mend, currentLine := st.currentLine + 1, col := col, text := text2, line := st.line }

/-- One iteration of the `for m in RE_PATTERN_LINE_SPLIT.finditer(pattern)` loop. -/
def step (pattern : Str) (index : Nat) (st : LoopState) (m : Match) : LoopState :=
  let mstart := m.2.1
  let mend := m.2.2
  let linetext := slice pattern st.last mstart
  if mend - mstart = 0 ∧ st.text.length = 0 then
    emit st [] linetext (some (-1)) (index - st.last + 1) mend
  else if (st.last ≤ index ∧ index < mend) ∨ (mend - mstart = 0 ∧ index = mend) then
    emit st arrow linetext (some ((if index > mstart then -1 else 0) + 3))
      (index - st.last + 1) mend
  else
    emit st pad linetext none st.col mend

/-- `get_pattern_context(pattern, index)` = `(context, line, col)`. -/
def getPatternContext (pattern : Str) (index : Nat) : Str × Nat × Nat :=
  let st := (splitLines pattern).foldl (step pattern index) LoopState.init
  (st.text.flatten, st.line, st.col)

end Context
end SoupVerif
