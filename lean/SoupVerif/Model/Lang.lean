/-
  `CSSMatch.extended_language_filter`: RFC 4647 extended filtering as the code does it.
  `wildStrip` is the effect of `RE_WILD_STRIP.sub('-', RE_WILD_TAIL.sub('', range))`; it is a
  parameter here (the driver instantiates it with the regex model run on the two regexes that
  the translator extracts from the source) so that the core loop can be reasoned about on its own.
-/
import SoupVerif.Model.Py
namespace SoupVerif
namespace Lang

/-- The `while match and rindex < length` loop, on the remaining ranges and subtags
    (`rindex`/`sindex` are positions in the two lists; the lists here are the suffixes). -/
def filterLoop : List Str → List Str → Bool
  | [], _ => true                         -- ran out of ranges: match stays True
  | _ :: _, [] => false                   -- IndexError branch: ran out of subtags
  | r :: rs, s :: ss =>
    if r.isEmpty then false               -- empty range
    else if s == r then filterLoop rs ss  -- matched range: both advance
    else if s.length == 1 then false      -- implicit wildcard cannot match singletons
    else filterLoop (r :: rs) ss          -- implicitly matched: next subtag
termination_by rs ss => rs.length + ss.length

/-- `extended_language_filter` after the wildcard strip and lower-casing. -/
def filterCore (ranges subtags : List Str) : Bool :=
  match ranges, subtags with
  | r :: rs, s :: ss =>
    -- Empty specified language should only match unspecified (empty) language attributes
    if rs.isEmpty && r.isEmpty then ss.isEmpty && r == s
    -- Primary tag needs to match
    else if (r != "*".toStr && r != s) || (r == "*".toStr && ss.isEmpty && s.isEmpty) then false
    else filterLoop rs ss
  | _, _ => false   -- unreachable: `split` never returns an empty list

/-- `extended_language_filter(lang_range, lang_tag)`. -/
def extendedFilter (wildStrip : Str → Str) (langRange langTag : Str) : Bool :=
  filterCore (splitOn 45 (lower (wildStrip langRange))) (splitOn 45 (lower langTag))

end Lang
end SoupVerif
